'''
C20: Raptor design models (exhaustive TLC) - the default worker path (worker
3 cores + 2 GPUs, 4 requests, all request / completion / failure / timeout
orders, the dispatch process pair of a request with timeout stepped operation
by operation) and the MPI worker (3 ranks, per-rank outcomes); TLC behaviours
replayed as schedules into the real Master / DefaultWorker / MPI worker
classes / dispatchers and into the real scheduler hand-off; exhaustive
exploration of the interleavings of the real _dispatch parent and child;
seeded random schedules; the dispatcher catalogue; validation of every
recorded trace by the RaptorTrace monitor.

C08 (the part which lives in the scheduler's raptor routing): RaptorCache model
of the tasks kept for a raptor master which has not registered yet - cancel
requests over the cache, relay at registration - checked exhaustively, its
behaviours and an enumeration of cancel requests replayed into the real
control_cb / _schedule_incoming, clauses C08.*.

C05 (raptor share): the outcome-truth clauses only, on a cheap subset (result
matrix through the real Master._result_cb, start failures, MPI refusals, some
random request streams), reported as C05.RaptorTargetTruth /
C05.RaptorTargetFromExit.

The module serves the three properties; only clauses whose prefix equals
chk.pid are reported.
'''

import os
import re
import glob
import random
import shutil

from .. import tlc, tracecheck
from ..core import Machinery
from .. import sched_ctl as SC
from ..rigs import raptor_rig as R
from ..rigs import sched_rig  as SR

NCORES, NGPUS = 3, 2
CONSTANTS = 'NCores = %d\n NGpus = %d\n' % (NCORES, NGPUS)

INVARIANTS = ['TypeOK', 'InvNoShare', 'InvDemandMet', 'InvOccMatches', 'InvAllBack',
              'InvResultOnce', 'InvTarget', 'InvTruth', 'InvRouting', 'InvRestored']
DEVS = ['DevNoDeallocOnSpawnFail', 'DevAllocIgnoresBusy', 'DevPutOutsideLock',
        'DevDupKillsWatcher', 'DevNoSynthWithoutTimeout', 'DevStartOutsideLock', 'DevTargetIgnoresMissing', 'DevNoSeen', 'DevEnvLeak']

Q = R.req

# worker 3 cores + 2 GPUs, 4 requests
SCENARIOS = [
    ('mixed', {'r1': Q(2, 1, 'func', 'ret', tmo=1),    'r2': Q(2, 0, 'eval', 'raise', sf=1),
               'r3': Q(1, 2, 'exe'),                    'r4': Q(3, 1, 'shell', 'print', tmo=1)}),
    ('full',  {'r1': Q(3, 2, 'func', 'setenv', tmo=1), 'r2': Q(1, 1, 'exec', 'die'),
               'r3': Q(2, 1, 'proc', 'raise', tmo=1, sf=1), 'r4': Q(1, 0, 'func', 'coro')}),
    ('gpus',  {'r1': Q(1, 2, 'eval', 'die'),           'r2': Q(1, 1, 'func', 'die', tmo=1),
               'r3': Q(1, 1, 'exec', 'print', sf=1),   'r4': Q(1, 1, 'exe')}),
    ('allfn', {'r1': Q(2, 1, 'exec', 'ret', tmo=1, sf=1), 'r2': Q(2, 2, 'func', 'print', tmo=1),
               'r3': Q(1, 0, 'shell', 'tenv', tmo=1, sf=1), 'r4': Q(3, 0, 'eval', 'setenv', tmo=1)}),
]

CLS_BASE    = 'request stream'
CLS_ENV     = 'python payload changes os.environ (dispatcher rebinds os.environ instead of restoring it)'
CLS_SCHED   = 'scheduler hand-off'
CLS_MPI     = 'MPI worker request stream'
CLS_MPISEND = 'MPI worker: sending a request to its ranks fails after the ranks were allocated'
CLS_MPISIG  = 'MPI worker: a rank is killed by a signal (rank exit code below zero)'

NRANKS = 3
MPI_INVARIANTS = ['TypeOK', 'InvNoShare', 'InvDemandMet', 'InvRefused', 'InvOccMatches', 'InvAllBack',
                  'InvResultOnce', 'InvAgg', 'InvTarget', 'InvEvt']
MPI_DEVS = ['DevAggMin', 'DevAggSignedMax', 'DevAllocBusy', 'DevNoDealloc',
            'DevNoDeallocOnSendFail', 'DevMissingIsDone', 'Fine', 'DevCheckOutsideLock']
# the allocator stepped operation by operation: A holds ranks, B needs more than are free
MPI_FINE = ('fine', {'r1': (2, 'func', ['ok']), 'r2': (2, 'eval', ['ok', 'raise']),
                     'r3': (3, 'func', ['ok'])})
# (ranks, mode, possible rank outcomes)
MPI_SCENARIOS = [
    ('three', {'r1': (2, 'func', ['ok', 'raise']), 'r2': (3, 'eval', ['ok', 'raise']),
               'r3': (1, 'shell', ['ok', 'raise'])}),
    ('four',  {'r1': (2, 'shell', ['ok', 'raise']), 'r2': (3, 'func', ['ok', 'raise']),
               'r3': (1, 'eval', ['ok', 'raise']), 'r4': (2, 'func', ['ok', 'raise'])}),
]
# a request asking for more ranks than the worker has; a request whose send fails
MPI_REFUSE = ('refuse', {'r1': (4, 'func', ['ok']), 'r2': (2, 'eval', ['ok', 'raise']),
                         'r3': (1, 'shell', ['ok', 'raise'])})
MPI_SEND   = ('sendfail', {'r1': (2, 'func', ['ok'], True), 'r2': (3, 'eval', ['ok', 'raise']),
                           'r3': (1, 'func', ['ok', 'raise'])})
MPI_LIGHT = ('three-light', {'r1': (2, 'func', ['ok', 'raise']), 'r2': (3, 'eval', ['ok']),
                             'r3': (1, 'shell', ['ok', 'raise'])})
MPI_SIG = ('sig', {'r1': (2, 'shell', ['ok', 'sig']), 'r2': (3, 'shell', ['ok', 'raise', 'sig'])})


# ------------------------------------------------------------------------------
def mc_files(reqs, devs=(), invariants=None):
    ids = sorted(reqs)

    def case(f):
        return ' [] '.join('r = "%s" -> %s' % (u, f(reqs[u])) for u in ids)

    def sset(xs):
        return '{' + ', '.join('"%s"' % x for x in xs) + '}'
    mod = ('---- MODULE MC ----\nEXTENDS Raptor\n'
           'MCReqs == %s\n' % sset(ids)
           + 'MCDemand == [r \\in MCReqs |-> CASE %s]\n'
           % case(lambda q: '[c |-> %d, g |-> %d]' % (q['c'], q['g']))
           + 'MCMode == [r \\in MCReqs |-> CASE %s]\n' % case(lambda q: '"%s"' % q['mode'])
           + 'MCKind == [r \\in MCReqs |-> CASE %s]\n' % case(lambda q: '"%s"' % q['kind'])
           + 'MCTimeout == %s\n' % sset(u for u in ids if reqs[u]['tmo'] and reqs[u]['mode'] != 'exe')
           + 'MCSpawn == %s\n====\n' % sset(u for u in ids if reqs[u]['sf'] and reqs[u]['mode'] != 'exe'))
    cfg = ('CONSTANTS\n ' + CONSTANTS
           + ' Reqs <- MCReqs\n Demand <- MCDemand\n Mode <- MCMode\n Kind <- MCKind\n'
             ' MayTimeout <- MCTimeout\n MaySpawnFail <- MCSpawn\n')
    for d in DEVS:
        cfg += ' %s = %s\n' % (d, 'TRUE' if d in devs else 'FALSE')
    cfg += 'SPECIFICATION Spec\n'
    for i in (INVARIANTS if invariants is None else invariants):
        cfg += 'INVARIANT %s\n' % i
    return {'MC.tla': mod, 'MC.cfg': cfg}


def mpi_files(scen, devs=(), invariants=None):
    ids = sorted(scen)

    def case(f):
        return ' [] '.join('r = "%s" -> %s' % (u, f(scen[u])) for u in ids)
    mod = ('---- MODULE MCM ----\nEXTENDS RaptorMPI\n'
           'MCReqs == {%s}\n' % ', '.join('"%s"' % u for u in ids)
           + 'MCNeed == [r \\in MCReqs |-> CASE %s]\n' % case(lambda q: str(q[0]))
           + 'MCOuts == [r \\in MCReqs |-> CASE %s]\n'
           % case(lambda q: '{' + ', '.join('"%s"' % o for o in q[2]) + '}')
           + 'MCSend == {%s}\n====\n' % ', '.join('"%s"' % u for u in ids if len(scen[u]) > 3 and scen[u][3]))
    cfg = ('CONSTANTS\n NRanks = %d\n Reqs <- MCReqs\n Need <- MCNeed\n Outs <- MCOuts\n'
           ' SendFails <- MCSend\n' % NRANKS)
    for d in MPI_DEVS:
        cfg += ' %s = %s\n' % (d, 'TRUE' if d in devs else 'FALSE')
    cfg += 'SPECIFICATION Spec\n'
    for i in (MPI_INVARIANTS if invariants is None else invariants):
        cfg += 'INVARIANT %s\n' % i
    return {'MCM.tla': mod, 'MCM.cfg': cfg}


def mpi_from_behaviour(path, scen):
    '''(requests, script) of one TLC behaviour of RaptorMPI: the ranks' outcomes
       are those chosen in the initial state'''
    steps = tlc.parse_sim_file(path)
    oc    = steps[0][2]['oc']
    reqs  = {}
    for u, sc in scen.items():
        n, mode = sc[0], sc[1]
        v  = oc[u]
        rk = [(v[i] if isinstance(v, dict) else list(v)[i]) if i < NRANKS else 'ok'
              for i in range(n)]
        reqs[u] = R.mpi_req(n, mode, rk, pf=0 if (len(sc) > 3 and sc[3]) else -1)
    script = []
    for name, args, _ in steps:
        ids = re.findall(r'"(\w+)"', args or '')
        if   name == 'Submit' : script.append(('submit', ids[0]))
        elif name in ('MTake', 'MRetry', 'FGet', 'FIsSet', 'FWait', 'FLock', 'FCount', 'FClear'):
            script.append(('T',))
        elif name == 'FCollect': script.append(('U', ids[0], int(re.findall(r',\s*(\d+)', args)[0])))
        elif name in ('FULock', 'FUSet'): script.append(('U',))
        elif name == 'RankRun': script.append(('K', int(args.strip())))
        elif name == 'Collect': script.append(('U', ids[0], int(re.findall(r',\s*(\d+)', args)[0])))
        elif name == 'Result' : script.append(('result', ids[0]))
    return reqs, script


def random_mpi(rng, sig, sendfail=False):
    '''sig: one request has a rank killed by a signal; sendfail: sending one
       request to its ranks fails; otherwise now and then a request asks for more
       ranks than the worker has'''
    reqs = {}
    for i in range(rng.randint(2, 5)):
        n    = rng.randint(1, NRANKS)
        mode = 'shell' if (sig and i == 0) else rng.choice(R.MPI_MODES)
        outs = ['ok', 'ok', 'raise'] + (['sig'] if sig and mode == 'shell' else [])
        rk   = [rng.choice(outs) for _ in range(n)]
        if sig and i == 0:
            n  = max(n, 2)
            rk = [rng.choice(['ok', 'ok', 'raise']) for _ in range(n)]
            j  = rng.randrange(n)
            rk[j], rk[(j + 1) % n] = 'sig', 'ok'
        if not sig and not sendfail and rng.random() < 0.15:
            n, rk = NRANKS + rng.randint(1, 2), None
        reqs['r%d' % (i + 1)] = R.mpi_req(n, mode, rk, envt=rng.choice(['none', 'tenv', 'probe'])
                                          if mode == 'shell' else 'none')
    if sendfail:
        u = rng.choice(sorted(reqs))
        reqs[u]['pf'] = rng.randrange(reqs[u]['c'])
    return reqs


# ------------------------------------------------------------------------------
MICRO = ('CRun', 'CLock', 'CPut', 'CSet', 'PJoin', 'PLock', 'PCheck', 'PKill', 'PPut2')
_ACT = re.compile(r'^\\\* <(\w+)(?:\((.*)\))? line \d+', re.M)


def scripts_from_behaviour(path, race=False):
    '''(worker script, scheduler script) of one TLC behaviour.
       race: a request whose dispatch process does something between StartProc and
       RegisterPid is replayed as one ('race', uid, schedule) operation: schedule
       over Q (_request_cb), W (result thread), P / C (dispatch pair)'''
    txt = open(path).read()
    ws, ss, nin, steps = [], [], {}, {}
    acts = [(m.group(1), m.group(2) or '') for m in _ACT.finditer(txt)]
    racing = {}
    if race:
        open_ = None
        for name, args in acts:
            ids = re.findall(r'"(\w+)"', args)
            if name == 'StartProc':
                open_ = ids[0]
            elif name == 'RegisterPid':
                open_ = None
            elif open_ and ids and ids[0] == open_ and \
                    name in MICRO + ('Finish', 'PStart', 'Deliver'):
                racing[open_] = ['W', 'Q']
    for name, args in acts:
        ids  = re.findall(r'"(\w+)"', args)
        u    = ids[0] if ids else None
        if u in racing and name in MICRO + ('Take', 'StartProc', 'RegisterPid', 'Finish',
                                             'PStart', 'Deliver'):
            if   name == 'Take'    : ws.append(('race', u, racing[u]))
            elif name in ('StartProc', 'RegisterPid'): racing[u].append('Q')
            elif name == 'Finish'  : racing[u] += list('PCCCCPPP')
            elif name == 'Deliver' : racing[u] += list('WWW')
            else                   : racing[u].append(name[0])
            continue
        if   name == 'Dispatch' : ws.append(('dispatch', ids[0]))
        elif name == 'Take'     : ws.append(('take', ids[0]))
        elif name == 'Finish'   : ws.append(('finish', ids[0], 'nat'))
        elif name == 'PStart'   :
            steps[ids[0]] = []
            ws.append(('finish', ids[0], steps[ids[0]]))
        elif name in MICRO      : steps[ids[0]].append(name[0])
        elif name == 'Deliver'  : ws.append(('deliver', ids[0], int(re.findall(r',\s*(\d+)', args)[0])))
        elif name == 'Result'   : ws.append(('result', ids[0]))
        elif name == 'LocalDone': ws.append(('localdone', ids[0], ids[1]))
        elif name == 'SchedIn'  :
            nin[ids[0]] = nin.get(ids[0], 0) + 1
            ss.append(('arrive', [ids[0] if nin[ids[0]] == 1 else ids[0] + 'S']))
        elif name == 'Register'  : ss.append(('register', R.MASTER_UID))
        elif name == 'Unregister': ss.append(('unregister', R.MASTER_UID))
    out = []
    for o in ws:
        if o[0] == 'finish' and isinstance(o[2], list): o = (o[0], o[1], 'P' + ''.join(o[2]))
        if o[0] == 'race': o = (o[0], o[1], ''.join(o[2]))
        out.append(o)
    return out, ss


def sched_info(reqs):
    '''scheduler-side view of a model scenario: every request carries the
       master's id; an executable request comes by a second time with raptor_seen
       (uid + "S"); plus a plain task and a raptor worker task'''
    info = {}
    for u, r in reqs.items():
        info[u] = {'rid': R.MASTER_UID, 'seen': False, 'worker': False}
        if r['mode'] == 'exe':
            info[u + 'S'] = {'rid': R.MASTER_UID, 'seen': True, 'worker': False}
    info['p1'] = {'rid': '', 'seen': False, 'worker': False}
    info['w1'] = {'rid': R.MASTER_UID, 'seen': False, 'worker': True}
    return info


LAY = SR.Layout(2, 2, 0, 0, 0)


def run_sched_script(info, ss):
    extra  = [('arrive', [u]) for u in ('p1', 'w1') if u in info]
    script = [(i + 1, a) for i, a in enumerate(extra[:1] + list(ss) + extra[1:])]
    return R.RoutingRig(LAY, info, script=script).run()


# ------------------------------------------------------------------------------
def random_reqs(rng, n, family):
    reqs = {}
    for i in range(n):
        mode = rng.choice(['exe', 'func', 'func', 'eval', 'exec', 'proc', 'shell'])
        if mode == 'exe':
            kind = 'ret'
        elif mode in R.PROC_MODES:
            kind = rng.choice(R.PROC_KINDS)
        else:
            kind = rng.choice([k for k in R.KINDS if R.kind_ok(k, mode)])
        reqs['r%d' % (i + 1)] = Q(rng.randint(1, NCORES), rng.randint(0, NGPUS), mode, kind,
                                  tmo=rng.random() < 0.4,
                                  sf=rng.random() < 0.15,
                                  via=rng.choice(['attr', 'attr', 'pytask']))
    return reqs


def random_sched(rng):
    info = {}
    for i in range(rng.randint(3, 7)):
        rid = rng.choice(['', R.MASTER_UID, R.MASTER_UID, 'master.0001', '*'])
        info['t%d' % (i + 1)] = {'rid': rid, 'seen': bool(rid) and rng.random() < 0.3,
                                 'worker': bool(rid) and rid != '*' and rng.random() < 0.15}
    return info


def catalogue():
    out = []
    for m in R.PY_MODES + R.PROC_MODES:
        for k in R.KINDS:
            if R.kind_ok(k, m):
                out.append((m, k))
                if m == 'func':
                    out.append((m, k, 'pytask'))
    return out


CLS_STUCK = 'task kept for a raptor master although a queue which could take it has registered'
CLS_CACHE = 'cancel of tasks kept for a raptor master which has not registered yet'
CACHE_INVARIANTS = ['TypeOK', 'InvNamedNeverRelayed', 'InvBystanderRelayedOnce', 'InvNoTaskStuck']
CACHE_DEVS  = ['DevSkipNeighbour', 'DevCancelKeepsCached', 'DevStarOnlyIfNoOwn']
M0, M1      = R.MASTER_UID, 'master.0001'
CACHE_TASKS = {'t1': M0, 't2': M0, 't3': '*', 't4': '*', 't5': M1}
STAR_TASKS  = {'t1': M0, 't2': '*', 't3': '*', 't4': M1}      # C05: smaller


def cache_files(tasks, devs=(), maxc=1, invariants=None):
    ids, ms_ = sorted(tasks), sorted(set(tasks.values()) - {'*'})
    mod = ('---- MODULE MCC ----\nEXTENDS RaptorCache\n'
           'MCTasks == {%s}\nMCMasters == {%s}\n'
           % (', '.join('"%s"' % t for t in ids), ', '.join('"%s"' % m for m in ms_))
           + 'MCRid == [t \\in MCTasks |-> CASE %s]\n====\n'
           % ' [] '.join('t = "%s" -> "%s"' % (t, tasks[t]) for t in ids))
    cfg = ('CONSTANTS\n Tasks <- MCTasks\n Masters <- MCMasters\n Rid <- MCRid\n'
           ' MaxCancel = %d\n' % maxc)
    for d in CACHE_DEVS:
        cfg += ' %s = %s\n' % (d, 'TRUE' if d in devs else 'FALSE')
    cfg += 'SPECIFICATION Spec\nCHECK_DEADLOCK FALSE\n'
    for i in (CACHE_INVARIANTS if invariants is None else invariants):
        cfg += 'INVARIANT %s\n' % i
    return {'MCC.tla': mod, 'MCC.cfg': cfg}


def cache_script_from_behaviour(path):
    script = []
    for m in _ACT.finditer(open(path).read()):
        name, ids = m.group(1), re.findall(r'"([\w.]+)"', m.group(2) or '')
        if   name == 'Arrive'  : script.append(('arrive', [ids[0]]))
        elif name == 'Cancel'  : script.append(('rcancel', sorted(ids)))
        elif name == 'Register': script.append(('register', ids[0]))
    return script


def cache_info(tasks):
    return {t: {'rid': m, 'seen': False, 'worker': False} for t, m in tasks.items()}


def run_cache_script(info, script):
    # every action is applied when the scheduler loop is idle: what arrived is
    # kept / forwarded before the next action, as in the model
    return R.RoutingRig(LAY, info, script=[(10 ** 6 + i, a) for i, a in enumerate(script)]).run()


def run_c08(chk, tier, seed):
    rng   = random.Random(seed * 7919 + 8)
    quick = tier == 'quick'
    for maxc in ((1,) if quick else (1, 2)):
        res = tlc.run('Raptor', 'MCC', 'MCC.cfg', workers=4, timeout=600,
                      extra_files=cache_files(CACHE_TASKS, maxc=maxc))
        chk.add_tlc(res, 'exhaustive:cache:%d' % maxc)
        if not res.ok:
            raise Machinery('design model RaptorCache violates %s (intended design must hold):\n%s'
                            % (res.violated, res.trace[:3000]))
    chk.exhaustive = True
    if not quick:
        for dev in CACHE_DEVS:
            res = tlc.run('Raptor', 'MCC', 'MCC.cfg', workers=4, timeout=600,
                          extra_files=cache_files(CACHE_TASKS, devs=[dev]))
            chk.add_tlc(res, 'deviation:cache:' + dev)
            if res.ok or res.violated not in ('InvNamedNeverRelayed', 'InvBystanderRelayedOnce',
                                              'InvNoTaskStuck'):
                raise Machinery('deviation %s not detected by the cache model (got %s)'
                                % (dev, res.violated))
            chk.notes.append('deviation %s breaks %s in the cache model' % (dev, res.violated))

    traces, inputs = [], []

    def add(inp):
        traces.append(run_input(inp))
        inputs.append(inp)

    # TLC behaviours -> scripts for the real scheduler
    info = cache_info(CACHE_TASKS)
    dump = tlc.scratch('rpsim_')
    try:
        res = tlc.run('Raptor', 'MCC', 'MCC.cfg', workers=1, timeout=300,
                      simulate='num=%d' % (40 if quick else 400), depth=12,
                      seed=rng.randrange(10 ** 6), dump_dir=dump,
                      extra_files=cache_files(CACHE_TASKS, maxc=2, invariants=['TypeOK']))
        chk.add_tlc(res, 'simulate:cache')
        for f in sorted(glob.glob(os.path.join(dump, 'tr_*'))):
            add({'family': 'cache', 'kind': 'cache-script', 'info': info,
                 'script': cache_script_from_behaviour(f)})
    finally:
        shutil.rmtree(dump, ignore_errors=True)
    # every cancel request of 1 .. 3 uids over four kept tasks and one which is not
    # kept (it arrives later): adjacent, non-adjacent, all, none of the kept ones
    import itertools
    for rid, bulks in ((M0, (True, False)), ('*', (True,))):     # own backlog, "*" backlog
        tasks = {t: rid for t in ('t1', 't2', 't3', 't4', 't5')}
        info  = cache_info(tasks)
        for bulk in bulks:
            for n in (1, 2, 3):
                for S in itertools.combinations(sorted(tasks), n):
                    head = [('arrive', ['t1', 't2', 't3', 't4'])] if bulk else \
                           [('arrive', [t]) for t in ('t1', 't2', 't3', 't4')]
                    add({'family': 'cache', 'kind': 'cache-script', 'info': info,
                         'script': head + [('rcancel', list(S)), ('register', M0),
                                           ('arrive', ['t5'])]})
    # seeded random environments: cancel requests at any point of the scheduler loop
    for i in range(60 if quick else 1200):
        add({'family': 'cache', 'kind': 'sched-random', 'seed': rng.randrange(10 ** 9),
             'info': random_sched(rng), 'p_env': rng.choice([0.2, 0.35, 0.5]), 'max_cancel': 2})
    validate(chk, traces, inputs, 'real scheduler trace (raptor cache)')
    chk.sample({'kind': inputs[0]['kind'], 'script': inputs[0].get('script'),
                'events': [{k: v for k, v in e.items() if k not in ('cores', 'gpus', 'npool')}
                           for e in traces[0]['events'][:14]]})
    chk.assumptions += [
        'the scheduler process handles control messages one at a time (control_cb under '
        '_raptor_lock); a cancel request interleaves with _schedule_incoming only between its '
        'queue reads and at the hand-over of a bulk (schedule points of sched_rig)',
        'only the part of C08 which lives in the raptor cache of the agent scheduler is judged here']


# ------------------------------------------------------------------------------
def classify(inp, clause):
    if clause == 'C20.RestoredProcEnv':
        return CLS_ENV
    fam = inp['family']
    if clause == 'C05.RaptorTaskStuck': return CLS_STUCK
    if fam == 'cache' or clause.startswith('C08.'): return CLS_CACHE
    if fam == 'sched'  : return CLS_SCHED
    if fam == 'mpi'    : return CLS_MPI
    if fam == 'mpi-sig': return CLS_MPISIG
    if fam == 'mpi-sendfail': return CLS_MPISEND
    return CLS_BASE


def run_input(inp):
    k = inp['kind']
    if k == 'script':
        return R.RaptorRig(inp['reqs'], script=[tuple(o) for o in inp['script']],
                           ncores=NCORES, ngpus=NGPUS).run()
    if k == 'random':
        return R.RaptorRig(inp['reqs'], seed=inp['seed'], ncores=NCORES, ngpus=NGPUS).run()
    if k == 'mpi-script':
        return R.MPIRig(inp['reqs'], script=[tuple(o) for o in inp['script']], nranks=NRANKS,
                        fine=bool(inp.get('fine'))).run()
    if k == 'mpi-random':
        return R.MPIRig(inp['reqs'], seed=inp['seed'], nranks=NRANKS).run()
    if k == 'chain':
        return R.ChainRig([tuple(c) for c in inp['calls']]).run()
    if k == 'sched-script':
        return run_sched_script(inp['info'], [(a[0], a[1]) for a in inp['script']])
    if k == 'sched-random':
        return R.RoutingRig(LAY, inp['info'], seed=inp['seed'], p_env=inp['p_env'],
                            max_cancel=inp.get('max_cancel', 0)).run()
    if k == 'cache-script':
        return run_cache_script(inp['info'], [(a[0], a[1]) for a in inp['script']])
    raise ValueError(k)


def validate(chk, traces, inputs, what, rename=None):
    res, st = tracecheck.validate('Raptor', 'RaptorTrace', CONSTANTS, traces)
    chk.states += st['states']
    chk.transitions += st['transitions']
    chk.cmds.append(st['cmd'])
    for tr, inp, errs in zip(traces, inputs, res):
        chk.traces += 1
        evs = [e['ev'] for e in tr['events']]
        if 'Poll' in evs or 'SFwd' in evs or ('Spawn' in evs and any(
                e['ev'] == 'Spawn' and not e['ok'] for e in tr['events'])) or tr['family'] == 'chain':
            chk.nontrivial.add(hash(tuple(
                e['ev'] + ':' + str(e.get('uid', '')) + str(e.get('o', '')) for e in tr['events'])))
        for err in errs:
            err = (rename or {}).get(err, err)
            if err.split('.')[0] != chk.pid:
                if err.startswith('X.'):
                    raise Machinery('trace monitor met an unknown event: %s' % evs)
                continue
            chk.violation(err, classify(inp, err), '%s violates %s' % (what, err),
                          {'rig': 'raptor', 'input': inp, 'errs': errs, 'trace': tr})


# ------------------------------------------------------------------------------
EXPLORE_REQS = {'r1': Q(1, 1, 'func', 'ret', tmo=1), 'r2': Q(1, 0, 'eval', 'ret')}
EXPLORE_HEAD = [('dispatch', 'r1'), ('dispatch', 'r2'), ('take', 'r1'), ('take', 'r2')]


def explore_dispatch(add):
    '''all interleavings of the real _dispatch parent and its real child for a
       request with timeout, a second request being under way (it is the one
       which shows whether the result thread is still alive afterwards)'''
    found = []

    def make_run(ch):
        rig = R.RaptorRig(EXPLORE_REQS, script=EXPLORE_HEAD + [('finish', 'r1', ch)],
                          ncores=NCORES, ngpus=NGPUS)
        return None, rig.run()
    for tr in SC.explore(make_run, max_runs=2000):
        fin = [e for e in tr['events'] if e['ev'] == 'Fin' and e['uid'] == 'r1'][0]
        found.append(fin['o'])
        # recorded as a replayable scripted run: the schedule which was taken
        add({'family': 'base', 'kind': 'script', 'scenario': 'explore', 'reqs': EXPLORE_REQS,
             'script': EXPLORE_HEAD + [('finish', 'r1', fin['o'])]}, tr)
    return found


RACE_REQS = {'r1': Q(2, 1, 'func', 'ret'), 'r2': Q(1, 1, 'eval', 'ret')}
RACE_HEAD = [('dispatch', 'r1'), ('dispatch', 'r2')]


def explore_start(add, bound):
    '''interleavings (up to `bound` preemptions; None: all) of the real _request_cb,
       the real result thread and the dispatch pair of a very short request'''
    n = [0]

    def make_run(ch):
        rig = R.RaptorRig(RACE_REQS, script=RACE_HEAD + [('race', 'r1', ch)],
                          ncores=NCORES, ngpus=NGPUS)
        return None, rig.run()
    for tr in SC.explore(make_run, max_runs=20000, preempt_bound=bound):
        fin = [e for e in tr['events'] if e['ev'] == 'Fin' and e['uid'] == 'r1'][0]
        n[0] += 1
        add({'family': 'base', 'kind': 'script', 'scenario': 'explore-start', 'reqs': RACE_REQS,
             'script': RACE_HEAD + [('race', 'r1', fin['o'])]}, tr)
    return n[0]


ALLOC_REQS = {'r1': R.mpi_req(2, 'func'), 'r2': R.mpi_req(2, 'eval')}
# A is placed and has run on both its ranks, B is submitted: B's _alloc (puller)
# races with A's completion (_dealloc in the pusher)
ALLOC_HEAD = [('submit', 'r1'), ('T',), ('T',), ('T',), ('T',), ('K', 0), ('K', 1), ('submit', 'r2')]


def explore_alloc(add, bound):
    '''interleavings of the real _Resources._alloc (request B needs more ranks than
       are free) with the real _dealloc of request A, step by step'''
    n = [0]

    def make_run(ch):
        rig = R.MPIRig(ALLOC_REQS, script=list(ALLOC_HEAD), fine=True, chooser=ch, nranks=NRANKS)
        tr  = rig.run()
        return rig, (rig, tr)
    for rig, tr in SC.explore(make_run, max_runs=5000, preempt_bound=bound):
        n[0] += 1
        add({'family': 'mpi', 'kind': 'mpi-script', 'scenario': 'explore-alloc', 'fine': True,
             'reqs': ALLOC_REQS, 'script': list(ALLOC_HEAD) + [(c,) if c in 'TU' else ('K', int(c[1:]))
                                                             for c in rig.taken]}, tr)
    return n[0]


def c05_inputs(rng):
    '''what a worker may send back x what the master makes of it; requests whose
       process cannot be started; MPI requests which cannot be placed'''
    out = []
    combos = [(ec, exc, ab) for ec in ('none', 0, 1, 3, -9) for exc in (False, True)
              for ab in ((False, True) if ec == 'none' else (False,))]
    reqs = {'r%d' % (i + 1): Q(1, 0, rng.choice(R.PY_MODES + R.PROC_MODES), 'ret')
            for i in range(len(combos))}
    script = []
    for i, (ec, exc, ab) in enumerate(combos):
        script += [('dispatch', 'r%d' % (i + 1)), ('inject', 'r%d' % (i + 1), ec, exc, ab)]
    out.append({'family': 'base', 'kind': 'script', 'scenario': 'fixed-master', 'reqs': reqs,
                'script': script})
    for mode in R.PY_MODES + R.PROC_MODES:
        out.append({'family': 'base', 'kind': 'script', 'scenario': 'fixed-nofork',
                    'reqs': {'r1': Q(2, 1, mode, 'ret', sf=1), 'r2': Q(3, 2, 'func', 'ret')},
                    'script': [('dispatch', 'r1'), ('dispatch', 'r2'), ('take', 'r1'), ('take', 'r2')]})
    out.append({'family': 'mpi', 'kind': 'mpi-script', 'scenario': 'fixed-refuse',
                'reqs': {'r1': R.mpi_req(NRANKS + 1, 'func'), 'r2': R.mpi_req(NRANKS, 'eval')},
                'script': [('submit', 'r1'), ('submit', 'r2')]})
    for pf in (0, 1):
        out.append({'family': 'mpi-sendfail', 'kind': 'mpi-script', 'scenario': 'fixed-sendfail',
                    'reqs': {'r1': R.mpi_req(2, 'func', pf=pf), 'r2': R.mpi_req(NRANKS, 'eval')},
                    'script': [('submit', 'r1'), ('submit', 'r2')]})
    return out


C05_RENAME = {'C20.TargetTruth': 'C05.RaptorTargetTruth',
              'C20.TargetFromExit': 'C05.RaptorTargetFromExit'}


def star_inputs(rng, quick):
    '''tasks bound to a master, tasks bound to "*" and the registrations of two
       masters in every order (optionally a cancel request before the first
       registration): whatever a registered queue could take must not stay behind'''
    import itertools
    tasks = {'a': M0, 'b': '*', 'c': '*', 'd': M1}
    info  = cache_info(tasks)
    evs   = [('arrive', ['a']), ('arrive', ['b', 'c']), ('arrive', ['d']),
             ('register', M0), ('register', M1)]
    out   = []
    perms = list(itertools.permutations(evs))
    if quick:
        perms = rng.sample(perms, 50)
    for i, perm in enumerate(perms):
        script = list(perm)
        if i % 3 == 2:      # a cancel request just before the first registration
            k = min(j for j, a in enumerate(script) if a[0] == 'register')
            script.insert(k, ('rcancel', [rng.choice(['a', 'b', 'c', 'd'])]))
        out.append({'family': 'cache', 'kind': 'cache-script', 'info': info, 'script': script})
    return out


def run_c05(chk, tier, seed):
    '''the raptor share of C05 (the final state tells the truth): the target state
       the master derives for a request, against what the workers reported and
       what really happened to it'''
    rng = random.Random(seed * 7919 + 5)
    traces, inputs = [], []
    for inp in c05_inputs(rng):
        traces.append(run_input(inp))
        inputs.append(inp)
    for i in range(40 if tier == 'quick' else 800):
        inp = {'family': 'base', 'kind': 'random', 'seed': rng.randrange(10 ** 9),
               'reqs': random_reqs(rng, rng.randint(2, 5), 'base')}
        traces.append(run_input(inp))
        inputs.append(inp)
    for i in range(15 if tier == 'quick' else 300):
        inp = {'family': 'mpi', 'kind': 'mpi-random', 'seed': rng.randrange(10 ** 9),
               'reqs': random_mpi(rng, False)}
        traces.append(run_input(inp))
        inputs.append(inp)
    # no task stays behind in the scheduler's raptor cache (RaptorCache model)
    quick = tier == 'quick'
    res = tlc.run('Raptor', 'MCC', 'MCC.cfg', workers=4, timeout=600,
                  extra_files=cache_files(STAR_TASKS if quick else CACHE_TASKS))
    chk.add_tlc(res, 'exhaustive:cache')
    if not res.ok:
        raise Machinery('design model RaptorCache violates %s (intended design must hold):\n%s'
                        % (res.violated, res.trace[:3000]))
    if not quick:
        res = tlc.run('Raptor', 'MCC', 'MCC.cfg', workers=4, timeout=600,
                      extra_files=cache_files(CACHE_TASKS, devs=['DevStarOnlyIfNoOwn']))
        chk.add_tlc(res, 'deviation:cache:DevStarOnlyIfNoOwn')
        if res.ok:
            raise Machinery('deviation DevStarOnlyIfNoOwn not detected by the cache model')
        dump = tlc.scratch('rpsim_')
        try:
            res = tlc.run('Raptor', 'MCC', 'MCC.cfg', workers=1, timeout=300,
                          simulate='num=300', depth=12, seed=rng.randrange(10 ** 6), dump_dir=dump,
                          extra_files=cache_files(CACHE_TASKS, maxc=2, invariants=['TypeOK']))
            chk.add_tlc(res, 'simulate:cache')
            for f in sorted(glob.glob(os.path.join(dump, 'tr_*'))):
                inp = {'family': 'cache', 'kind': 'cache-script', 'info': cache_info(CACHE_TASKS),
                       'script': cache_script_from_behaviour(f)}
                traces.append(run_input(inp))
                inputs.append(inp)
        finally:
            shutil.rmtree(dump, ignore_errors=True)
    for inp in star_inputs(rng, quick):
        traces.append(run_input(inp))
        inputs.append(inp)
    for i in range(20 if quick else 600):
        inp = {'family': 'cache', 'kind': 'sched-random', 'seed': rng.randrange(10 ** 9),
               'info': random_sched(rng), 'p_env': rng.choice([0.2, 0.35, 0.5]), 'max_cancel': 1}
        traces.append(run_input(inp))
        inputs.append(inp)
    validate(chk, traces, inputs, 'real raptor trace', rename=C05_RENAME)
    chk.sample({'kind': 'inject matrix', 'events': [
        {k: v for k, v in e.items() if k not in ('cores', 'gpus', 'npool')}
        for e in traces[0]['events'] if e['ev'] in ('Inject', 'MResult')][:12]})
    chk.assumptions += [
        'only the raptor share of C05 is judged here: Master._result_cb deriving the target '
        'state of a request from what the (default / MPI) worker sent back (the design model is '
        'checked under C20: InvTarget, InvTruth of Raptor / RaptorMPI), and the scheduler not '
        'leaving a task in its raptor cache which a registered queue could take (RaptorCache)']


def run(chk, tier, seed):
    if chk.pid == 'C05':
        return run_c05(chk, tier, seed)
    if chk.pid == 'C08':
        return run_c08(chk, tier, seed)
    rng   = random.Random(seed * 7919 + 20)
    quick = tier == 'quick'

    # ---- 1. design models, exhaustive -----------------------------------------------
    # quick: one scenario - one racing dispatch pair, a silent death, a start failure
    light = dict(SCENARIOS[0][1])
    light['r2'] = Q(2, 0, 'eval', 'die', sf=1)
    light['r4'] = dict(light['r4'], tmo=False)
    for name, reqs in ([('mixed-light', light)] if quick else SCENARIOS):
        res = tlc.run('Raptor', 'MC', 'MC.cfg', workers=8, timeout=900,
                      extra_files=mc_files(reqs))
        chk.add_tlc(res, 'exhaustive:' + name)
        if not res.ok:
            raise Machinery('design model Raptor violates %s in scenario %s (intended design '
                            'must hold):\n%s' % (res.violated, name, res.trace[:3000]))
    res = tlc.run('Raptor', 'MCM', 'MCM.cfg', workers=8, timeout=900,
                  extra_files=mpi_files(MPI_FINE[1], devs=['Fine']))
    chk.add_tlc(res, 'exhaustive:mpi:fine')
    if not res.ok:
        raise Machinery('design model RaptorMPI (Fine) violates %s:\n%s'
                        % (res.violated, res.trace[:3000]))
    for name, scen in ([] if quick
                       else MPI_SCENARIOS + [MPI_SIG, MPI_REFUSE, MPI_SEND]):
        res = tlc.run('Raptor', 'MCM', 'MCM.cfg', workers=8, timeout=900,
                      extra_files=mpi_files(scen))
        chk.add_tlc(res, 'exhaustive:mpi:' + name)
        if not res.ok:
            raise Machinery('design model RaptorMPI violates %s in scenario %s (intended '
                            'design must hold):\n%s' % (res.violated, name, res.trace[:3000]))
    chk.exhaustive = True

    # ---- 2. deviation sensitivity ---------------------------------------------------
    if not quick:
        expect = [(['DevNoDeallocOnSpawnFail'], SCENARIOS[0][1], ('InvOccMatches', 'InvAllBack')),
                  (['DevAllocIgnoresBusy'], SCENARIOS[0][1], ('InvNoShare',)),
                  (['DevPutOutsideLock', 'DevDupKillsWatcher'], SCENARIOS[0][1],
                   ('deadlock', 'InvTruth')),
                  (['DevNoSynthWithoutTimeout'], SCENARIOS[2][1], ('deadlock',)),
                  (['DevStartOutsideLock'], SCENARIOS[2][1], ('deadlock', 'InvAllBack')),
                  (['DevTargetIgnoresMissing'], SCENARIOS[0][1], ('InvTarget', 'InvTruth')),
                  (['DevNoSeen'], SCENARIOS[0][1], ('InvRouting',)),
                  (['DevEnvLeak'], SCENARIOS[1][1], ('InvRestored',))]
        for devs, reqs, invs in expect:
            res = tlc.run('Raptor', 'MC', 'MC.cfg', workers=8, timeout=900,
                          extra_files=mc_files(reqs, devs=devs))
            chk.add_tlc(res, 'deviation:' + '+'.join(devs))
            if res.ok or res.violated not in invs:
                raise Machinery('deviation %s not detected by the model (got %s)'
                                % (devs, res.violated))
            chk.notes.append('deviation %s breaks %s in the design model'
                             % ('+'.join(devs), res.violated))
        mexpect = [('DevAggMin', MPI_SCENARIOS[0][1], ('InvAgg', 'InvTarget')),
                   ('DevAggSignedMax', MPI_SIG[1], ('InvAgg', 'InvTarget')),
                   ('DevAllocBusy', MPI_SCENARIOS[0][1], ('InvNoShare',)),
                   ('DevNoDealloc', MPI_SCENARIOS[0][1], ('InvOccMatches', 'InvAllBack')),
                   ('DevNoDeallocOnSendFail', MPI_SEND[1], ('InvOccMatches', 'InvAllBack', 'deadlock')),
                   ('DevMissingIsDone', MPI_REFUSE[1], ('InvTarget',)),
                   ('DevCheckOutsideLock', MPI_FINE[1], ('deadlock',))]
        for dev, scen, invs in mexpect:
            res = tlc.run('Raptor', 'MCM', 'MCM.cfg', workers=8, timeout=900,
                          extra_files=mpi_files(scen, devs=[dev] + (
                              ['Fine'] if dev == 'DevCheckOutsideLock' else [])))
            chk.add_tlc(res, 'deviation:mpi:' + dev)
            if res.ok or res.violated not in invs:
                raise Machinery('deviation %s not detected by the MPI model (got %s)'
                                % (dev, res.violated))
            chk.notes.append('deviation %s breaks %s in the MPI design model' % (dev, res.violated))

    traces, inputs = [], []

    def add(inp, tr=None):
        traces.append(run_input(inp) if tr is None else tr)
        inputs.append(inp)

    # ---- 3. TLC behaviours -> schedules for the real classes -------------------------
    nsim = 25 if quick else 150
    plan = [('base', n, r) for n, r in ([] if quick else SCENARIOS)]
    for i in range(0 if quick else 6):
        plan.append(('base', 'rand%d' % i, random_reqs(rng, 4, 'base')))
    # schedules in which the result thread meets a request whose pid is not
    # registered yet come from the model with DevStartOutsideLock (the real code
    # takes the steps it can take)
    for name, reqs in ([rng.choice(SCENARIOS)] if quick else SCENARIOS):
        plan.append(('race', name, reqs))
    for fam, name, reqs in plan:
        dump = tlc.scratch('rpsim_')
        try:
            res = tlc.run('Raptor', 'MC', 'MC.cfg', workers=1, timeout=300,
                          simulate='num=%d' % nsim, depth=120, seed=rng.randrange(10 ** 6),
                          dump_dir=dump,
                          extra_files=mc_files(reqs, invariants=['TypeOK'],
                                               devs=['DevStartOutsideLock'] if fam == 'race' else []))
            chk.add_tlc(res, 'simulate:%s:%s' % (fam, name))
            info = sched_info(reqs)
            for f in sorted(glob.glob(os.path.join(dump, 'tr_*'))):
                ws, ss = scripts_from_behaviour(f, race=fam == 'race')
                add({'family': 'base', 'kind': 'script', 'scenario': name, 'reqs': reqs,
                     'script': ws})
                if fam == 'race' and not quick:
                    continue
                add({'family': 'sched', 'kind': 'sched-script', 'scenario': name,
                     'info': info, 'script': ss})
        finally:
            shutil.rmtree(dump, ignore_errors=True)
    for name, scen in ([rng.choice([MPI_SCENARIOS[1], MPI_REFUSE, MPI_FINE])] if quick
                       else MPI_SCENARIOS * 2 + [MPI_SIG] * 2 + [MPI_REFUSE, MPI_SEND, MPI_FINE]):
        dump = tlc.scratch('rpsim_')
        fine = name == 'fine'
        try:
            res = tlc.run('Raptor', 'MCM', 'MCM.cfg', workers=1, timeout=300,
                          simulate='num=%d' % (nsim if fine else 2 * nsim), depth=120 if fine else 80,
                          seed=rng.randrange(10 ** 6), dump_dir=dump,
                          extra_files=mpi_files(scen, invariants=['TypeOK'],
                                                devs=['Fine'] if fine else []))
            chk.add_tlc(res, 'simulate:mpi:' + name)
            for f in sorted(glob.glob(os.path.join(dump, 'tr_*'))):
                reqs, script = mpi_from_behaviour(f, scen)
                sig = any('sig' in r['rk'] for r in reqs.values())
                snd = any(r['pf'] >= 0 for r in reqs.values())
                add({'family': 'mpi-sendfail' if snd else 'mpi-sig' if sig else 'mpi',
                     'kind': 'mpi-script', 'fine': fine,
                     'scenario': name, 'reqs': reqs, 'script': script})
        finally:
            shutil.rmtree(dump, ignore_errors=True)

    # ---- 4. every interleaving of the real dispatch parent / child -------------------
    scheds = explore_dispatch(add)
    chk.notes.append('dispatch parent/child: %d interleavings explored on the real code'
                     % len(scheds))
    n = explore_alloc(add, 1 if quick else None)
    chk.notes.append('MPI rank allocator: %d interleavings of _alloc / _dealloc explored on the '
                     'real code' % n)
    n = explore_start(add, 1 if quick else 2)
    chk.notes.append('request start / result thread: %d interleavings (preemption bound %d) '
                     'explored on the real code' % (n, 1 if quick else 2))

    # ---- 5. seeded random schedules, fixed schedules ---------------------------------
    # a rank killed by a signal (the other rank succeeds), both arrival orders
    for order in ((0, 1), (1, 0)):
        add({'family': 'mpi-sig', 'kind': 'mpi-script', 'scenario': 'fixed',
             'reqs': {'r1': R.mpi_req(2, 'shell', ['ok', 'sig'])},
             'script': [('submit', 'r1'), ('T',), ('K', 0), ('K', 1),
                        ('U', 'r1', order[0]), ('U', 'r1', order[1]), ('result', 'r1')]})
    # a payload which takes its process down without reporting - without a timeout
    # (the default) and with one; a later request needs the cores it held
    for tmo in (0, 1):
        for mode in R.PY_MODES:
            add({'family': 'base', 'kind': 'script', 'scenario': 'fixed-die',
                 'reqs': {'r1': Q(3, 2, mode, 'die', tmo=tmo), 'r2': Q(2, 1, 'eval', 'ret')},
                 'script': [('dispatch', 'r1'), ('dispatch', 'r2'), ('take', 'r1'), ('take', 'r2'),
                            ('finish', 'r1', 'nat')]})
    # outcome truth at the master: result matrix, start failures, MPI refusals
    for inp in c05_inputs(rng):
        add(inp)
    # a rank serves many requests in one process: what a request brings in its
    # environment is gone before the next one runs (shell on the MPI worker; the
    # dispatchers alone for proc and shell)
    add({'family': 'mpi', 'kind': 'mpi-script', 'scenario': 'fixed-env',
         'reqs': {'r1': R.mpi_req(2, 'shell', envt='tenv'), 'r2': R.mpi_req(NRANKS, 'shell', envt='probe'),
                  'r3': R.mpi_req(1, 'shell', ['raise'], envt='tenv'), 'r4': R.mpi_req(2, 'shell', envt='probe')},
         'script': [('submit', 'r1'), ('submit', 'r2'), ('submit', 'r3'), ('submit', 'r4')]})
    for seq in ([('shell', 'tenv'), ('shell', 'probe'), ('proc', 'tenv'), ('proc', 'probe')],
                [('proc', 'tenv'), ('shell', 'probe'), ('shell', 'tenv'), ('proc', 'probe'),
                 ('proc', 'ret'), ('shell', 'probe')]):
        add({'family': 'base', 'kind': 'chain', 'calls': seq})
    for i in range(110 if quick else 1500):
        add({'family': 'base', 'kind': 'random', 'seed': rng.randrange(10 ** 9),
             'reqs': random_reqs(rng, rng.randint(2, 6), 'base')})
    for i in range(60 if quick else 1000):
        add({'family': 'sched', 'kind': 'sched-random', 'seed': rng.randrange(10 ** 9),
             'info': random_sched(rng), 'p_env': rng.choice([0.2, 0.35, 0.5]),
             'max_cancel': rng.choice([0, 0, 1])})
    for i in range(60 if quick else 800):
        add({'family': 'mpi', 'kind': 'mpi-random', 'seed': rng.randrange(10 ** 9),
             'reqs': random_mpi(rng, False)})
    for i in range(10 if quick else 200):
        add({'family': 'mpi-sig', 'kind': 'mpi-random', 'seed': rng.randrange(10 ** 9),
             'reqs': random_mpi(rng, True)})
    for i in range(10 if quick else 200):
        add({'family': 'mpi-sendfail', 'kind': 'mpi-random', 'seed': rng.randrange(10 ** 9),
             'reqs': random_mpi(rng, False, sendfail=True)})

    # ---- 6. the dispatcher catalogue: every kind in every mode, singly and in pairs
    cat = [c for c in catalogue() if c[1] != 'die']
    for c in cat:
        add({'family': 'base', 'kind': 'chain', 'calls': [c]})
    pairs = [(a, b) for a in cat for b in cat]
    if quick:
        pairs = rng.sample(pairs, 60)
    for a, b in pairs:
        add({'family': 'base', 'kind': 'chain', 'calls': [a, b]})

    # ---- 7. validate all traces with the monitor --------------------------------------
    validate(chk, traces, inputs, 'real raptor trace')
    for tr, inp in zip(traces, inputs):
        if inp['kind'] == 'script' and any(e['ev'] == 'Poll' for e in tr['events']):
            chk.sample({'kind': 'tlc-behaviour', 'script': inp['script'][:14], 'events': [
                {k: v for k, v in e.items() if k not in ('a', 'b')} for e in tr['events'][:14]]})
            break
    chk.assumptions += [
        'the ZeroMQ request / result queues between master and worker (and between rank 0 and the '
        'ranks of the MPI worker) are FIFO per sender and lossless; messages are copies',
        'DefaultWorker._request_cb is called by one getter thread; the result thread interleaves '
        'with it only at _alloc/_dealloc (under _rlock), the pool (under _plock) and the '
        'wait-for-resources poll, which is the schedule point',
        'the dispatch process (real _dispatch) and its child (real nested _worker_proc) run as two '
        'logical threads in one process: schedule points are res_lock acquire, result queue put, '
        'res_done set / is_set, join(timeout) returning, terminate; the payload runs without '
        'interruption; real OS processes are not started',
        'each emulated dispatch process starts from the worker process\' environment (process boundary)',
        'MPI worker: puller, pusher and the ranks run as logical threads of one process with '
        'stand-ins for the MPI communicator objects; schedule points are the queue reads and the '
        'wait for the resource event; all ranks share one os.environ (steps are atomic)',
        'proc / shell payloads run real /bin/sh sub-processes']


def replay(chk, obj):
    inp = obj['input']
    tr  = run_input(inp)
    validate(chk, [tr], [inp], 'replayed raptor trace',
             rename=C05_RENAME if chk.pid == 'C05' else None)
