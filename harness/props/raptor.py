'''
C20: Raptor design model (exhaustive TLC: worker 3 cores + 2 GPUs, 4 requests,
all request / completion / failure / timeout orders), TLC behaviours replayed
as schedules into the real Master / DefaultWorker / dispatchers and into the
real scheduler hand-off, seeded random schedules, the dispatcher catalogue
(every payload kind in every mode, singly and in pairs), and validation of every
recorded trace by the RaptorTrace monitor.
'''

import os
import re
import glob
import random
import shutil

from .. import tlc, tracecheck
from ..core import Machinery
from ..rigs import raptor_rig as R
from ..rigs import sched_rig  as SR

NCORES, NGPUS = 3, 2
CONSTANTS = 'NCores = %d\n NGpus = %d\n' % (NCORES, NGPUS)

INVARIANTS = ['TypeOK', 'InvNoShare', 'InvDemandMet', 'InvOccMatches', 'InvAllBack',
              'InvResultOnce', 'InvTarget', 'InvRouting', 'InvRestored']
DEVS = ['DevNoDeallocOnSpawnFail', 'DevAllocIgnoresBusy', 'DevPutOutsideLock',
        'DevDupKillsWatcher', 'DevTargetIgnoresMissing', 'DevNoSeen', 'DevEnvLeak']

Q = R.req

# worker 3 cores + 2 GPUs, 4 requests
SCENARIOS = [
    ('mixed', {'r1': Q(2, 1, 'func', 'ret', tmo=1),    'r2': Q(2, 0, 'eval', 'raise', sf=1),
               'r3': Q(1, 2, 'exe'),                    'r4': Q(3, 1, 'shell', 'print', tmo=1)}),
    ('full',  {'r1': Q(3, 2, 'func', 'setenv', tmo=1), 'r2': Q(1, 1, 'exec', 'delenv'),
               'r3': Q(2, 1, 'proc', 'raise', tmo=1, sf=1), 'r4': Q(1, 0, 'func', 'coro')}),
    ('gpus',  {'r1': Q(1, 2, 'eval', 'tenv'),          'r2': Q(1, 1, 'func', 'swapout', tmo=1),
               'r3': Q(1, 1, 'exec', 'print', sf=1),   'r4': Q(1, 1, 'exe')}),
    ('allfn', {'r1': Q(2, 1, 'exec', 'ret', tmo=1, sf=1), 'r2': Q(2, 2, 'func', 'print', tmo=1),
               'r3': Q(1, 0, 'shell', 'tenv', tmo=1, sf=1), 'r4': Q(3, 0, 'eval', 'setenv', tmo=1)}),
]

CLS_BASE    = 'request stream'
CLS_ENV     = 'python payload changes os.environ (dispatcher rebinds os.environ instead of restoring it)'
CLS_SCHED   = 'scheduler hand-off'


# ------------------------------------------------------------------------------
def mc_files(reqs, devs=(), invariants=None):
    ids = sorted(reqs)

    def case(f):
        return ' [] '.join('r = "%s" -> %s' % (u, f(reqs[u])) for u in ids)

    def sset(xs):
        return '{' + ', '.join('"%s"' % x for x in xs) + '}'
    mod = ('---- MODULE MC ----\nEXTENDS Raptor\n'
           'MCReqs == %s\n' % sset(ids)
           + 'MCDemand == [r \\in MCReqs |-> CASE %s]\n'
           % case(lambda q: '[c |-> %d, g |-> %d]' % (q['c'], q['g']))
           + 'MCMode == [r \\in MCReqs |-> CASE %s]\n' % case(lambda q: '"%s"' % q['mode'])
           + 'MCKind == [r \\in MCReqs |-> CASE %s]\n' % case(lambda q: '"%s"' % q['kind'])
           + 'MCTimeout == %s\n' % sset(u for u in ids if reqs[u]['tmo'] and reqs[u]['mode'] != 'exe')
           + 'MCSpawn == %s\n====\n' % sset(u for u in ids if reqs[u]['sf'] and reqs[u]['mode'] != 'exe'))
    cfg = ('CONSTANTS\n ' + CONSTANTS
           + ' Reqs <- MCReqs\n Demand <- MCDemand\n Mode <- MCMode\n Kind <- MCKind\n'
             ' MayTimeout <- MCTimeout\n MaySpawnFail <- MCSpawn\n')
    for d in DEVS:
        cfg += ' %s = %s\n' % (d, 'TRUE' if d in devs else 'FALSE')
    cfg += 'SPECIFICATION Spec\n'
    for i in (INVARIANTS if invariants is None else invariants):
        cfg += 'INVARIANT %s\n' % i
    return {'MC.tla': mod, 'MC.cfg': cfg}


# ------------------------------------------------------------------------------
MICRO = ('CRun', 'CLock', 'CPut', 'CSet', 'PJoin', 'PLock', 'PCheck', 'PKill', 'PPut2')
_ACT = re.compile(r'^\\\* <(\w+)(?:\((.*)\))? line \d+', re.M)


def scripts_from_behaviour(path):
    '''(worker script, scheduler script) of one TLC behaviour'''
    txt = open(path).read()
    ws, ss, nin, steps = [], [], {}, {}
    for m in _ACT.finditer(txt):
        name, args = m.group(1), m.group(2) or ''
        ids  = re.findall(r'"(\w+)"', args)
        if   name == 'Dispatch' : ws.append(('dispatch', ids[0]))
        elif name == 'Take'     : ws.append(('take', ids[0]))
        elif name == 'Finish'   : ws.append(('finish', ids[0], 'nat'))
        elif name == 'PStart'   :
            steps[ids[0]] = []
            ws.append(('finish', ids[0], steps[ids[0]]))
        elif name in MICRO      : steps[ids[0]].append(name[0])
        elif name == 'Deliver'  : ws.append(('deliver', ids[0], int(re.findall(r',\s*(\d+)', args)[0])))
        elif name == 'Result'   : ws.append(('result', ids[0]))
        elif name == 'LocalDone': ws.append(('localdone', ids[0], ids[1]))
        elif name == 'SchedIn'  :
            nin[ids[0]] = nin.get(ids[0], 0) + 1
            ss.append(('arrive', [ids[0] if nin[ids[0]] == 1 else ids[0] + 'S']))
        elif name == 'Register'  : ss.append(('register', R.MASTER_UID))
        elif name == 'Unregister': ss.append(('unregister', R.MASTER_UID))
    ws = [(o[0], o[1], 'P' + ''.join(o[2])) if o[0] == 'finish' and isinstance(o[2], list) else o
          for o in ws]
    return ws, ss


def sched_info(reqs):
    '''scheduler-side view of a model scenario: every request carries the
       master's id; an executable request comes by a second time with raptor_seen
       (uid + "S"); plus a plain task and a raptor worker task'''
    info = {}
    for u, r in reqs.items():
        info[u] = {'rid': R.MASTER_UID, 'seen': False, 'worker': False}
        if r['mode'] == 'exe':
            info[u + 'S'] = {'rid': R.MASTER_UID, 'seen': True, 'worker': False}
    info['p1'] = {'rid': '', 'seen': False, 'worker': False}
    info['w1'] = {'rid': R.MASTER_UID, 'seen': False, 'worker': True}
    return info


LAY = SR.Layout(2, 2, 0, 0, 0)


def run_sched_script(info, ss):
    extra  = [('arrive', [u]) for u in ('p1', 'w1') if u in info]
    script = [(i + 1, a) for i, a in enumerate(extra[:1] + list(ss) + extra[1:])]
    return R.RoutingRig(LAY, info, script=script).run()


# ------------------------------------------------------------------------------
def random_reqs(rng, n, family):
    reqs = {}
    for i in range(n):
        mode = rng.choice(['exe', 'func', 'func', 'eval', 'exec', 'proc', 'shell'])
        if mode == 'exe':
            kind = 'ret'
        elif mode in R.PROC_MODES:
            kind = rng.choice(R.PROC_KINDS)
        else:
            kind = rng.choice([k for k in R.KINDS if R.kind_ok(k, mode)])
        reqs['r%d' % (i + 1)] = Q(rng.randint(1, NCORES), rng.randint(0, NGPUS), mode, kind,
                                  tmo=rng.random() < 0.4,
                                  sf=rng.random() < 0.15,
                                  via=rng.choice(['attr', 'attr', 'pytask']))
    return reqs


def random_sched(rng):
    info = {}
    for i in range(rng.randint(3, 7)):
        rid = rng.choice(['', R.MASTER_UID, R.MASTER_UID, 'master.0001', '*'])
        info['t%d' % (i + 1)] = {'rid': rid, 'seen': bool(rid) and rng.random() < 0.3,
                                 'worker': bool(rid) and rid != '*' and rng.random() < 0.15}
    return info


def catalogue():
    out = []
    for m in R.PY_MODES + R.PROC_MODES:
        for k in R.KINDS:
            if R.kind_ok(k, m):
                out.append((m, k))
                if m == 'func':
                    out.append((m, k, 'pytask'))
    return out


# ------------------------------------------------------------------------------
def classify(inp, clause):
    if clause == 'C20.RestoredProcEnv':
        return CLS_ENV
    fam = inp['family']
    if fam == 'sched'  : return CLS_SCHED
    return CLS_BASE


def run_input(inp):
    k = inp['kind']
    if k == 'script':
        return R.RaptorRig(inp['reqs'], script=[tuple(o) for o in inp['script']],
                           ncores=NCORES, ngpus=NGPUS).run()
    if k == 'random':
        return R.RaptorRig(inp['reqs'], seed=inp['seed'], ncores=NCORES, ngpus=NGPUS).run()
    if k == 'chain':
        return R.ChainRig([tuple(c) for c in inp['calls']]).run()
    if k == 'sched-script':
        return run_sched_script(inp['info'], [(a[0], a[1]) for a in inp['script']])
    if k == 'sched-random':
        return R.RoutingRig(LAY, inp['info'], seed=inp['seed'], p_env=inp['p_env']).run()
    raise ValueError(k)


def validate(chk, traces, inputs, what):
    res, st = tracecheck.validate('Raptor', 'RaptorTrace', CONSTANTS, traces)
    chk.states += st['states']
    chk.transitions += st['transitions']
    chk.cmds.append(st['cmd'])
    for tr, inp, errs in zip(traces, inputs, res):
        chk.traces += 1
        evs = [e['ev'] for e in tr['events']]
        if 'Poll' in evs or 'SFwd' in evs or ('Spawn' in evs and any(
                e['ev'] == 'Spawn' and not e['ok'] for e in tr['events'])) or tr['family'] == 'chain':
            chk.nontrivial.add(hash(tuple(
                e['ev'] + ':' + str(e.get('uid', '')) + str(e.get('o', '')) for e in tr['events'])))
        for err in errs:
            if err.split('.')[0] != chk.pid:
                if err.startswith('X.'):
                    raise Machinery('trace monitor met an unknown event: %s' % evs)
                continue
            chk.violation(err, classify(inp, err), '%s violates %s' % (what, err),
                          {'rig': 'raptor', 'input': inp, 'errs': errs, 'trace': tr})


# ------------------------------------------------------------------------------
def run(chk, tier, seed):
    rng   = random.Random(seed * 7919 + 20)
    quick = tier == 'quick'

    # ---- 1. design model, exhaustive --------------------------------------------
    for name, reqs in ([SCENARIOS[0], SCENARIOS[2]] if quick else SCENARIOS):
        res = tlc.run('Raptor', 'MC', 'MC.cfg', workers=8, timeout=600,
                      extra_files=mc_files(reqs))
        chk.add_tlc(res, 'exhaustive:' + name)
        if not res.ok:
            raise Machinery('design model Raptor violates %s in scenario %s (intended design '
                            'must hold):\n%s' % (res.violated, name, res.trace[:3000]))
    chk.exhaustive = True

    # ---- 2. deviation sensitivity -----------------------------------------------
    if not quick:
        sysx = dict(SCENARIOS[0][1])
        sysx['r1'] = Q(2, 1, 'func', 'sysexit', tmo=1)
        expect = [(['DevNoDeallocOnSpawnFail'], SCENARIOS[0][1], ('InvOccMatches', 'InvAllBack')),
                  (['DevAllocIgnoresBusy'], SCENARIOS[0][1], ('InvNoShare',)),
                  (['DevTimeoutRace', 'DevDupKillsWatcher'], SCENARIOS[0][1], ('deadlock',)),
                  (['DevSysExitLost'], sysx, ('deadlock',)),
                  (['DevTargetIgnoresMissing'], SCENARIOS[0][1], ('InvTarget',)),
                  (['DevNoSeen'], SCENARIOS[0][1], ('InvRouting',)),
                  (['DevEnvLeak'], SCENARIOS[1][1], ('InvRestored',))]
        for devs, reqs, invs in expect:
            res = tlc.run('Raptor', 'MC', 'MC.cfg', workers=8, timeout=600,
                          extra_files=mc_files(reqs, devs=devs))
            chk.add_tlc(res, 'deviation:' + '+'.join(devs))
            if res.ok or res.violated not in invs:
                raise Machinery('deviation %s not detected by the model (got %s)'
                                % (devs, res.violated))
            chk.notes.append('deviation %s breaks %s in the design model'
                             % ('+'.join(devs), res.violated))
        # the duplicate alone is harmless as long as the second copy is dropped
        res = tlc.run('Raptor', 'MC', 'MC.cfg', workers=8, timeout=600,
                      extra_files=mc_files(SCENARIOS[0][1], devs=['DevTimeoutRace']))
        chk.add_tlc(res, 'deviation:DevTimeoutRace (duplicate dropped)')
        if not res.ok:
            raise Machinery('DevTimeoutRace alone should be tolerated: %s' % res.violated)

    traces, inputs = [], []

    def add(inp):
        traces.append(run_input(inp))
        inputs.append(inp)

    # ---- 3. TLC behaviours -> schedules for the real classes ---------------------
    nsim = 25 if quick else 250
    plan = []
    for name, reqs in ([SCENARIOS[0], rng.choice(SCENARIOS[1:])] if quick else SCENARIOS):
        plan.append(('base', name, reqs))
    for name, reqs in ([rng.choice(SCENARIOS)] if quick else SCENARIOS):
        plan.append(('late', name, reqs))
    for i in range(1 if quick else 4):
        plan.append(('sysexit', 'rand%d' % i, random_reqs(rng, 4, 'sysexit')))
    for i in range(0 if quick else 6):
        plan.append(('base', 'rand%d' % i, random_reqs(rng, 4, 'base')))
    for fam, name, reqs in plan:
        dump = tlc.scratch('rpsim_')
        try:
            files = mc_files(reqs, devs=['DevTimeoutRace'] if fam == 'late' else [],
                             invariants=['TypeOK'])
            res = tlc.run('Raptor', 'MC', 'MC.cfg', workers=1, timeout=300,
                          simulate='num=%d' % nsim, depth=80, seed=rng.randrange(10 ** 6),
                          dump_dir=dump, extra_files=files)
            chk.add_tlc(res, 'simulate:%s:%s' % (fam, name))
            info = sched_info(reqs)
            for f in sorted(glob.glob(os.path.join(dump, 'tr_*'))):
                ws, ss = scripts_from_behaviour(f)
                add({'family': fam, 'kind': 'script', 'scenario': name, 'reqs': reqs,
                     'script': ws})
                if fam == 'base':
                    add({'family': 'sched', 'kind': 'sched-script', 'scenario': name,
                         'info': info, 'script': ss})
        finally:
            shutil.rmtree(dump, ignore_errors=True)

    # fixed schedules: one per deviating family, independent of the seed
    add({'family': 'late', 'kind': 'script', 'scenario': 'fixed',
         'reqs': {'r1': Q(1, 1, 'func', 'ret', tmo=1), 'r2': Q(1, 0, 'eval', 'ret')},
         'script': [('dispatch', 'r1'), ('dispatch', 'r2'), ('take', 'r1'), ('take', 'r2'),
                    ('finish', 'r1', 'late'), ('deliver', 'r1', 1), ('deliver', 'r1', 2),
                    ('finish', 'r2', 'nat'), ('deliver', 'r2', 1)]})
    add({'family': 'sysexit', 'kind': 'script', 'scenario': 'fixed',
         'reqs': {'r1': Q(2, 1, 'func', 'sysexit'), 'r2': Q(1, 0, 'func', 'ret')},
         'script': [('dispatch', 'r1'), ('dispatch', 'r2'), ('take', 'r1'), ('take', 'r2'),
                    ('finish', 'r1', 'nat'), ('finish', 'r2', 'nat'), ('deliver', 'r2', 1)]})

    # ---- 4. seeded random schedules ---------------------------------------------
    for fam, n in (('base', 150 if quick else 3000), ('late', 40 if quick else 600),
                   ('sysexit', 40 if quick else 600)):
        for i in range(n):
            add({'family': fam, 'kind': 'random', 'seed': rng.randrange(10 ** 9),
                 'reqs': random_reqs(rng, rng.randint(2, 6), fam)})
    for i in range(80 if quick else 1500):
        add({'family': 'sched', 'kind': 'sched-random', 'seed': rng.randrange(10 ** 9),
             'info': random_sched(rng), 'p_env': rng.choice([0.2, 0.35, 0.5])})

    # ---- 5. the dispatcher catalogue: every kind in every mode, singly and in pairs
    cat, catx = catalogue(False), catalogue(True)
    for c in cat:
        add({'family': 'base', 'kind': 'chain', 'calls': [c]})
    for c in catx:
        add({'family': 'sysexit', 'kind': 'chain', 'calls': [c]})
    pairs = [(a, b) for a in cat for b in cat]
    if quick:
        pairs = rng.sample(pairs, 60)
    for a, b in pairs:
        add({'family': 'base', 'kind': 'chain', 'calls': [a, b]})
    for a in catx:
        for b in (rng.sample(cat, 4) if quick else cat):
            add({'family': 'sysexit', 'kind': 'chain', 'calls': [a, b]})

    # ---- 6. validate all traces with the monitor ----------------------------------
    validate(chk, traces, inputs, 'real raptor trace')
    for tr, inp in zip(traces, inputs):
        if inp['kind'] == 'script' and any(e['ev'] == 'Poll' for e in tr['events']):
            chk.sample({'kind': 'tlc-behaviour', 'script': inp['script'][:14], 'events': [
                {k: v for k, v in e.items() if k not in ('a', 'b')} for e in tr['events'][:14]]})
            break
    chk.assumptions += [
        'the ZeroMQ request / result queues between master and worker are FIFO per sender and lossless',
        'DefaultWorker._request_cb is called by one getter thread; the result thread interleaves '
        'with it only at _alloc/_dealloc (under _rlock), the pool (under _plock) and the '
        'wait-for-resources poll, which is the schedule point',
        'the dispatch process and its child are emulated in-process (mp.Process replaced): the '
        'fate of the child (ends by itself / hangs until the timeout / has put its result but is '
        'still alive at the timeout) is a schedule choice; real OS-level races are not run',
        'each emulated dispatch process starts from the worker process\' environment (process boundary)',
        'proc / shell payloads run real /bin/sh sub-processes']


def replay(chk, obj):
    inp = obj['input']
    tr  = run_input(inp)
    validate(chk, [tr], [inp], 'replayed raptor trace')
