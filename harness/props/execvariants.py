'''
C07 and the executor's share of C05 for the two executors which are not Popen:

  Flux   : design model spec/ExecVariants/FluxExec.tla (executor + the Flux launch
           method's queues / partition process / queue watcher), monitor FluxExecTrace,
           rig harness/rigs/flux_rig.py (real Flux executor + real Flux launch method,
           flux itself an in-memory stand-in)
  Dragon : design model DragonExec.tla (agent side + the dragon executor server
           script), monitor DragonExecTrace, rig harness/rigs/dragon_rig.py (real
           Dragon executor + the real bin/radical-pilot-dragon-executor.py on
           stand-ins of the dragon primitives)

Drivers: (1) exhaustive TLC of the intended design (all Dev* FALSE must satisfy every
invariant; each Dev* TRUE must violate the expected one), (2) TLC behaviours of the
*as-coded* design (the Dev* constants which describe the code set TRUE) replayed
macro step by macro step into the real code; the real code must end where the
as-coded model ends (C07.Conformance), (3) seeded random fine-grained schedules and a
bounded depth-first enumeration of schedules of the same scenarios, (4) seeded random
scenarios.  Every run is validated by the trace monitors.
'''

import os
import re
import glob
import random
import shutil
import multiprocessing as mp

from concurrent.futures import ThreadPoolExecutor

from .. import tlc, tracecheck
from ..core import Machinery

W = 8

# ------------------------------------------------------------------------------
# Flux
F_INV  = ['StartOnce', 'HandOnOnce', 'ReleaseOnce', 'NeverLeftBehind', 'TruthfulOutcome',
          'ExitCodeTrue', 'ReasonRecorded', 'ComponentSurvives', 'Sane']
F_DEVS = ['DevNoRetire', 'DevNonFatalFails', 'DevRawStatus', 'DevLmFailedLost', 'DevNoReason',
          'DevStatusShift', 'DevEarlyDropped']
F_CODE = []      # all five as-coded deviations were repaired (known_findings.json, fixed:)


def T(uid, status=0, exc='none', fault='none', timeout=0):
    return {'uid': uid, 'status': status, 'exc': exc, 'fault': fault, 'timeout': timeout}


# (name, tasks, bulks, cancels, size class: s = exhaustive in both tiers, L = thorough only)
F_SCEN = [
    ('exit0-cancel',    [T('t1', 0)],                       [['t1']], [['t1']], 's'),
    ('exit1-cancel',    [T('t1', 256)],                     [['t1']], [['t1']], 's'),
    ('sig9',            [T('t1', 9)],                       [['t1']], [],       's'),
    ('sig15',           [T('t1', 15)],                      [['t1']], [],       's'),
    ('segv139-cancel',  [T('t1', 139)],                     [['t1']], [['t1']], 's'),
    ('exec-exc-cancel', [T('t1', 256, 'exec')],             [['t1']], [['t1']], 's'),
    ('nonfatal-cancel', [T('t1', 0, 'nonfatal')],           [['t1']], [['t1']], 's'),
    ('nonfatal-exit1',  [T('t1', 256, 'nonfatal')],         [['t1']], [],       's'),
    ('alloc-exc',       [T('t1', 0, 'alloc')],              [['t1']], [['t1']], 's'),
    ('rp-timeout',      [T('t1', 0, timeout=5)],            [['t1']], [],       's'),
    ('flux-timeout',    [T('t1', 0, 'timeout', timeout=5)], [['t1']], [],       's'),
    ('spec-fail',       [T('t1', 0, fault='spec'), T('t2', 0)],     [['t1', 't2']],   [['t1']], 's'),
    ('submit-fail',     [T('t1', 0, fault='submit'), T('t2', 256)], [['t1'], ['t2']], [],       's'),
    ('bulk2',           [T('t1', 0), T('t2', 256)],         [['t1', 't2']],   [],       'L'),
    ('bulk2-cancel',    [T('t1', 256), T('t2', 9, 'exec')], [['t1', 't2']],   [['t2']], 'L'),
    ('two-bulks-nf',    [T('t1', 0, 'nonfatal'), T('t2', 139, timeout=5)], [['t1'], ['t2']], [['t1']], 'L'),
    # rig only (too large for exhaustive TLC): several tasks per bulk, all statuses
    ('bulk3-signals',   [T('t1', 9), T('t2', 15), T('t3', 139)],   [['t1', 't2'], ['t3']], [['t2']], 'R'),
    ('bulk4-mixed',     [T('t1', 0), T('t2', 256, 'exec'), T('t3', 0, fault='spec'), T('t4', 512, timeout=5)],
                        [['t1', 't2', 't3'], ['t4']], [['t1', 't4']], 'R'),
]

F_EXPECT = [('DevNoRetire', 'exit0-cancel', 'HandOnOnce'),
            ('DevNonFatalFails', 'nonfatal-cancel', None),
            ('DevRawStatus', 'exit1-cancel', 'ExitCodeTrue'),
            ('DevLmFailedLost', 'submit-fail', None),
            ('DevNoReason', 'spec-fail', 'ReasonRecorded'),
            ('DevStatusShift', 'sig9', 'TruthfulOutcome'),
            ('DevEarlyDropped', 'sig15', 'NeverLeftBehind')]
F_EXPECT_ANY = {'DevNonFatalFails': {'TruthfulOutcome'},
                'DevLmFailedLost': {'NeverLeftBehind', 'ComponentSurvives'}}

# ------------------------------------------------------------------------------
# Dragon
D_INV  = ['StartOnce', 'HandOnOnce', 'ReleaseOnce', 'NeverLeftBehind', 'TruthfulOutcome',
          'ComponentSurvives', 'Sane']
D_DEVS = ['DevFirstRankCollects', 'DevLaunchKillsServer', 'DevErrNoUnsched', 'DevDoneAlways',
          'DevWatchTwice']
D_CODE = []      # both as-coded deviations were repaired


def D(uid, rets=(0,), mode='exec', fault='none', timeout=0):
    return {'uid': uid, 'rets': list(rets), 'mode': mode, 'fault': fault, 'timeout': timeout}


D_SCEN = [
    ('one-cancel',   [D('t1')],                                   [['t1']], [['t1']], 's'),
    ('exit1',        [D('t1', (1,)), D('t2', (-9,), timeout=5)],  [['t1', 't2']], [], 's'),
    ('mpi-ok',       [D('t1', (0, 0))],                           [['t1']], [['t1']], 's'),
    ('mpi-one-bad',  [D('t1', (0, 1)), D('t2', (2,))],            [['t1', 't2']], [['t2']], 's'),
    ('launch-fail',  [D('t1', fault='script'), D('t2', fault='nolauncher'), D('t3', (0,))],
                     [['t1', 't2'], ['t3']], [['t1']], 's'),
    ('func',         [D('t1', (0,), 'func'), D('t2', (1,), 'func')], [['t1', 't2']], [], 's'),
    ('badfunc',      [D('t1', (0, 0), 'badfunc'), D('t2', (0,))], [['t1'], ['t2']], [], 's'),
    ('mixed4',       [D('t1', (0, 3, 0)), D('t2', (137,)), D('t3', fault='script'), D('t4', (0,), 'func', timeout=5)],
                     [['t1', 't2'], ['t3', 't4']], [['t1', 't4']], 'L'),
]

D_EXPECT = [('DevFirstRankCollects', 'mpi-one-bad', 'TruthfulOutcome'),
            ('DevLaunchKillsServer', 'badfunc', None),
            ('DevErrNoUnsched', 'launch-fail', 'ReleaseOnce'),
            ('DevDoneAlways', 'exit1', 'TruthfulOutcome'),
            ('DevWatchTwice', 'one-cancel', None)]
D_EXPECT_ANY = {'DevLaunchKillsServer': {'ComponentSurvives', 'NeverLeftBehind'},
                'DevWatchTwice': {'HandOnOnce', 'ReleaseOnce'}}


# ------------------------------------------------------------------------------
def _q(u):
    return '"%s"' % u


def _fn(tasks, f):
    return '[t \\in MCT |-> CASE ' + ' [] '.join('t = %s -> %s' % (_q(t['uid']), f(t)) for t in tasks) + ']'


def _seqs(ss):
    return '<<' + ', '.join('<<' + ', '.join(_q(u) for u in s) + '>>' for s in ss) + '>>'


def mc_flux(tasks, bulks, cancels, devs=(), invariants=True, liveness=False):
    mod = ('---- MODULE MCF ----\nEXTENDS FluxExec\nMCT == {%s}\nMCBulks == %s\nMCFault == %s\n'
           'MCStatus == %s\nMCExc == %s\nMCTO == %s\nMCCancel == %s\n====\n'
           % (', '.join(_q(t['uid']) for t in tasks), _seqs(bulks),
              _fn(tasks, lambda t: _q(t['fault'])), _fn(tasks, lambda t: str(t['status'])),
              _fn(tasks, lambda t: _q(t['exc'])),
              _fn(tasks, lambda t: 'TRUE' if t['timeout'] else 'FALSE'), _seqs(cancels)))
    cfg = ('CONSTANTS\n T <- MCT\n Bulks <- MCBulks\n Fault <- MCFault\n Status <- MCStatus\n'
           ' Exc <- MCExc\n HasTimeout <- MCTO\n CancelMsgs <- MCCancel\n')
    for d in F_DEVS:
        cfg += ' %s = %s\n' % (d, 'TRUE' if d in devs else 'FALSE')
    cfg += 'SPECIFICATION Spec\nCHECK_DEADLOCK FALSE\n'
    if liveness:
        cfg += 'PROPERTY Termination\n'
    elif invariants:
        for i in F_INV:
            cfg += 'INVARIANT %s\n' % i
    return 'MCF', {'MCF.tla': mod, 'MCF.cfg': cfg}


def mc_dragon(tasks, bulks, cancels, devs=(), invariants=True, liveness=False):
    mod = ('---- MODULE MCD ----\nEXTENDS DragonExec\nMCT == {%s}\nMCBulks == %s\nMCFault == %s\n'
           'MCMode == %s\nMCRet == %s\nMCTO == %s\nMCCancel == %s\n====\n'
           % (', '.join(_q(t['uid']) for t in tasks), _seqs(bulks),
              _fn(tasks, lambda t: _q(t['fault'])), _fn(tasks, lambda t: _q(t['mode'])),
              _fn(tasks, lambda t: '<<' + ', '.join(str(r) for r in t['rets']) + '>>'),
              _fn(tasks, lambda t: 'TRUE' if t['timeout'] else 'FALSE'), _seqs(cancels)))
    cfg = ('CONSTANTS\n T <- MCT\n Bulks <- MCBulks\n Fault <- MCFault\n Mode <- MCMode\n'
           ' RankRet <- MCRet\n HasTimeout <- MCTO\n CancelMsgs <- MCCancel\n')
    for d in D_DEVS:
        cfg += ' %s = %s\n' % (d, 'TRUE' if d in devs else 'FALSE')
    cfg += 'SPECIFICATION Spec\nCHECK_DEADLOCK FALSE\n'
    if liveness:
        cfg += 'PROPERTY Termination\n'
    elif invariants:
        for i in D_INV:
            cfg += 'INVARIANT %s\n' % i
    return 'MCD', {'MCD.tla': mod, 'MCD.cfg': cfg}


MC = {'flux': mc_flux, 'dragon': mc_dragon}

F_THREAD = {'Work': 'intake', 'Cancel': 'control', 'Timeout': 'timeout', 'PartSubmit': 'part0',
            'PartAnnounce': 'part0', 'PartCancel': 'part0', 'Watch': 'qwatcher'}
D_THREAD = {'Work': 'intake', 'Cancel': 'control', 'Timeout': 'timeout', 'SrvTake': 'srv_worker',
            'SrvPass': 'srv_watcher', 'DWatch': 'dwatch'}


def script_from_behaviour(ex, path, tasks, nbulks, ncancels):
    '''(macro script, expected final ghosts or None if the behaviour is not at quiescence)'''
    steps = tlc.parse_sim_file(path)
    out = ['srv_watcher', 'srv_worker', 'dwatch'] if ex == 'dragon' else []
    for act, args, _ in steps:
        a = re.findall(r'"(\w+)"', args or '')
        if act == 'Init':
            continue
        if ex == 'flux':
            out.append('flux:' + a[0] if act == 'FluxEv' else F_THREAD[act])
        elif act == 'RankExit':
            r = int(re.findall(r',\s*(\d+)', args)[0])
            out.append('rank:%s:%d' % (a[0], r - 1))
        else:
            out.append(D_THREAD[act])
    st = steps[-1][2]
    try:
        x = st['x']
        if ex == 'flux':
            quiet = st['ib'] > nbulks and st['ic'] > ncancels and not st['qout'] and not st['announce'] \
                    and (not st['qin'] or st['partdead'] is True) \
                    and all(v in ('none', 'clean') for v in st['jst'].values())
            fin = {u: [x['handon'][u], x['target'][u], 0] for u in x['handon']}
        else:
            quiet = st['ib'] > nbulks and st['ic'] > ncancels and not st['s2a'] \
                    and (not st['a2s'] or st['srvdead'] is True) \
                    and all(u in st['collected'] for u in st['running']) \
                    and all(u in st['tofired'] for u in st['treg'])
            nranks = {t['uid']: len(t['rets']) for t in tasks}
            quiet = quiet and all(len(st['exited'][u]) == nranks[u] for u in st['running'])
            fin = {u: [x['handon'][u], x['target'][u], x['unsched'][u]] for u in x['handon']}
    except Exception:
        return out, None
    return out, (fin if quiet else None)


# ------------------------------------------------------------------------------
def handon_summary(ex, tr):
    '''per uid [number of hand-ons, last outcome, number of unschedule publications]'''
    out = {u: [0, 'none', 0] for u in tr['uids']}
    for e in tr['events']:
        if e['ev'] == 'Adv':
            if (e['state'] == 'AGENT_STAGING_OUTPUT_PENDING' and e['push']) or e['state'] == 'FAILED':
                out[e['uid']][0] += 1
                out[e['uid']][1] = e['target'] if e['state'] != 'FAILED' else 'FAILED'
        elif e['ev'] == 'PubUnsched':
            for u in e['uids']:
                out[u][2] += 1
    return out


def _sig(tr):
    return hash(tuple((e['who'], e['ev'], e['uid'], e['name'], e['state'], e['target'], e['exit'],
                       e['status'], tuple(e['uids'])) for e in tr['events']))


def _rigmod(ex):
    if ex == 'flux':
        from ..rigs import flux_rig as X
    else:
        from ..rigs import dragon_rig as X
    return X


def _mkscn(X, ex, sd):
    if ex == 'flux':
        return X.Scenario(sd['tasks'], sd['bulks'], sd['cancels'], nparts=sd.get('nparts', 1),
                          extra=sd.get('extra', False))
    return X.Scenario(sd['tasks'], sd['bulks'], sd['cancels'])


# rig runs happen in worker processes (thread heavy, GIL bound)
def _job(args):
    ex, kind, name, sd, arg = args
    import signal
    from .. import sched_ctl as SC
    X = _rigmod(ex)
    # importing popen.py installs SIGTERM/SIGINT handlers which swallow the signal
    signal.signal(signal.SIGTERM, signal.SIG_DFL)
    signal.signal(signal.SIGINT,  signal.SIG_DFL)
    out = []
    if kind == 'macro':
        scn = _mkscn(X, ex, sd)
        for script, expect in arg:
            tr = X.make(scn, 'macro', script).run()
            out.append((sd, tr, expect))
    elif kind == 'random':
        seed, n = arg
        rng = random.Random(seed)
        scn = _mkscn(X, ex, sd)
        for i in range(n):
            out.append((sd, X.make(scn, 'random', random.Random(rng.randrange(10 ** 9))).run(), None))
    elif kind == 'dfs':
        bound, limit = arg
        scn = _mkscn(X, ex, sd)
        def mk(ch):
            rig = X.make(scn, 'chooser', ch)
            return rig.ctl, rig.run()
        for tr in SC.explore(mk, max_runs=limit, preempt_bound=bound):
            out.append((sd, tr, None))
    elif kind == 'randscn':
        seed, n = arg
        rng = random.Random(seed)
        for i in range(n):
            scn = X.random_scenario(rng)
            out.append((scn.as_dict(), X.make(scn, 'random', random.Random(rng.randrange(10 ** 9))).run(), None))
    seen, uniq = set(), []
    for sd_, tr, expect in out:
        key = _sig(tr)
        if key in seen and expect is None:
            continue
        seen.add(key)
        uniq.append((sd_, tr, expect))
    return ex, kind, name, len(out), uniq


# ------------------------------------------------------------------------------
def _triggers(tr, uid):
    '''what made the agent hand uid on, one entry per hand-on'''
    out, last = [], {}
    for e in tr['events']:
        if e['ev'] == 'Handle':
            if e['name'] == 'exception':
                k = 'cancel' if e['type'] in ('cancel', 'timeout') else ('fatal' if e['sev'] == 0 else 'non-fatal')
                last[e['uid']] = 'exception(%s)' % k
            else:
                last[e['uid']] = e['name']
        elif e['ev'] == 'Adv' and e['uid'] == uid:
            if (e['state'] == 'AGENT_STAGING_OUTPUT_PENDING' and e['push']) or e['state'] == 'FAILED':
                out.append(last.get(uid, 'launch error') if e['who'] != 'intake' else 'launch error')
    return out


def classify(ex, tr, err):
    '''input / history class of a failing clause: one class per way the code can fail'''
    ev = tr['events']
    if ex == 'flux':
        if err in ('C07.LeftBehind', 'C05.ComponentDied', 'C07.ThreadDiedOrDeadlock'):
            if any(e['ev'] == 'SubmitFail' for e in ev):
                return 'flux: helper.submit fails inside the partition process'
            died = [e['name'] for e in ev if e['ev'] == 'ThreadDied']
            if died:
                return 'flux: thread ended by %s' % died[0].split('(')[0]
            return 'flux: task never handed on although no thread died'
        trig = {u: _triggers(tr, u) for u in tr['uids']}
        if err in ('C07.HandedOnTwice', 'C07.CanceledAndCollected'):
            if any(len(t) > 1 for t in trig.values()):
                return 'flux: several terminal events for one job (exception, finish, late cancel)'
        if err in ('C05.OutcomeWrong', 'C05.CanceledNotAsked'):
            if any('exception(non-fatal)' in t for t in trig.values()):
                return 'flux: non-fatal exception event'
        if err == 'C05.ExitCode':
            return 'flux: exit_code of a process which exited non-zero'
        if err == 'C05.ReasonRecorded':
            return 'flux: FAILED without exit code or exception'
        return 'flux executor'
    # dragon
    died = [e for e in ev if e['ev'] == 'ThreadDied']
    if err in ('C07.LeftBehind', 'C05.ComponentDied', 'C07.ThreadDiedOrDeadlock', 'C07.NeverReleased') and died:
        if died[0]['who'] == 'srv_worker':
            return 'dragon: launch error inside the server (%s)' % died[0]['name'].split('(')[0]
        return 'dragon: %s ended by %s' % (died[0]['who'], died[0]['name'].split('(')[0])
    if err in ('C05.OutcomeWrong', 'C07.HandedOnWhileRunning', 'C05.ExitCode'):
        seen = {}
        for e in ev:
            if e['ev'] == 'SrvRead':
                seen[e['uid']] = e['status']
            elif e['ev'] == 'SrvDone' and seen.get(e['uid'], 0) < len(tr['spec'][e['uid']]['rets']):
                return 'dragon: process group collected before all ranks exited'
    return 'dragon executor'


def owners(err):
    p = err.split('.')[0]
    own = {p}
    # a task left behind / a dead component never reaches a truthful final state;
    # a wrong / missing outcome is a hand-on without the process outcome attached
    if err in ('C07.LeftBehind', 'C07.OutcomeMissing', 'C07.ThreadDiedOrDeadlock'):
        own.add('C05')
    return own


def condensed(tr):
    out = []
    for e in tr['events']:
        if e['ev'] in ('Register',):
            continue
        out.append([e['who'], e['ev'], e['uid'] if e['uid'] != 'none' else ','.join(e['uids']),
                    e['name'] if e['name'] != 'none' else e['state'],
                    e['target'], e['exit'] if e['exit'] != -99999 else '', e['status'] if e['status'] != -1 else ''])
    return out[:120]


def report(chk, ex, tr, sd, errs, what):
    pid = chk.pid
    for err in errs:
        if pid not in owners(err):
            continue
        p = err.split('.')[0]
        chk.violation(err.replace(p + '.', pid + '.', 1) if p != pid else err, classify(ex, tr, err),
                      '%s %s' % (what, err.replace(p + '.', pid + '.', 1)),
                      {'rig': 'execvariants', 'exec': ex, 'scn': sd, 'schedule': tr['schedule'],
                       'errs': errs, 'events': condensed(tr)})


MONITOR = {'flux': ('FluxExecTrace', 'NeedsRelease = FALSE'),
           'dragon': ('DragonExecTrace', 'NeedsRelease = TRUE')}


# ------------------------------------------------------------------------------
def run(chk, tier, seed):
    import time
    t0, phases = time.time(), {}
    quick = tier == 'quick'
    rng   = random.Random(seed * 15485863 + 29)

    # ---- 1. design models, 2. as-coded behaviours (TLC runs side by side) -----------
    nsim = 40 if quick else 400
    todo = []
    for ex, scen, code, expect in (('flux', F_SCEN, F_CODE, F_EXPECT), ('dragon', D_SCEN, D_CODE, D_EXPECT)):
        for name, tasks, bulks, cancels, size in scen:
            if size == 's' or (size == 'L' and not quick):
                todo.append((ex, 'exhaustive', name, tasks, bulks, cancels, ()))
            if not quick and size == 's':
                todo.append((ex, 'termination', name, tasks, bulks, cancels, ()))
            if size != 'R':
                todo.append((ex, 'simulate', name, tasks, bulks, cancels, (code, rng.randrange(10 ** 6))))
        # non-vacuity of the invariants: every deviation constant alone breaks the design (thorough tier;
        # the quick tier keeps the first two of each executor)
        for dev, sname, inv in (expect[:2] if quick else expect):
            _, tasks, bulks, cancels, _ = [s for s in scen if s[0] == sname][0]
            todo.append((ex, 'deviation', sname, tasks, bulks, cancels, (dev, inv)))
    # heavy exhaustive runs first so that the pool is not left waiting for them
    todo.sort(key=lambda it: 0 if (it[1] == 'exhaustive' and len(it[3]) > 1) else 1)

    def _tlc(item):
        ex, kind, name, tasks, bulks, cancels, arg = item
        big = kind in ('exhaustive', 'termination') and ex == 'flux' and len(tasks) > 1
        wk  = 4 if big else 1
        if kind == 'exhaustive':
            m, files = MC[ex](tasks, bulks, cancels)
            return tlc.run('ExecVariants', m, m + '.cfg', workers=wk, timeout=900, extra_files=files), None
        if kind == 'termination':
            m, files = MC[ex](tasks, bulks, cancels, liveness=True)
            return tlc.run('ExecVariants', m, m + '.cfg', workers=wk, timeout=900, extra_files=files), None
        if kind == 'deviation':
            m, files = MC[ex](tasks, bulks, cancels, devs=[arg[0]])
            return tlc.run('ExecVariants', m, m + '.cfg', workers=wk, timeout=600, extra_files=files), None
        dump = tlc.scratch('rpxvsim_')
        try:
            m, files = MC[ex](tasks, bulks, cancels, devs=arg[0], invariants=False)
            res = tlc.run('ExecVariants', m, m + '.cfg', workers=1, timeout=300, simulate='num=%d' % nsim,
                          depth=150, seed=arg[1], dump_dir=dump, extra_files=files)
            return res, [script_from_behaviour(ex, f, tasks, len(bulks), len(cancels))
                         for f in sorted(glob.glob(os.path.join(dump, 'tr_*')))]
        finally:
            shutil.rmtree(dump, ignore_errors=True)

    with ThreadPoolExecutor(max_workers=W) as tp:
        outs = list(tp.map(_tlc, todo))
    phases['tlc_models_s'] = round(time.time() - t0, 1)

    jobs = []
    for (ex, kind, name, tasks, bulks, cancels, arg), (res, scripts) in zip(todo, outs):
        chk.add_tlc(res, '%s:%s:%s%s' % (ex, kind, name, ':' + arg[0] if kind == 'deviation' else ''))
        if kind == 'exhaustive' and not res.ok:
            raise Machinery('%s design model violates %s in %s:\n%s' % (ex, res.violated, name, res.trace[:3000]))
        if kind == 'termination' and not res.ok:
            raise Machinery('%s design model does not terminate in %s:\n%s' % (ex, name, res.trace[:3000]))
        if kind == 'deviation':
            dev, inv = arg
            any_of = (F_EXPECT_ANY if ex == 'flux' else D_EXPECT_ANY).get(dev) or {inv}
            if res.ok or res.kind != 'invariant' or res.violated not in any_of:
                raise Machinery('%s deviation %s not detected in %s (got %s)' % (ex, dev, name, res.violated))
            chk.notes.append('%s deviation %s (%s): %s' % (ex, dev, name, res.violated))
        if kind == 'simulate':
            if not scripts:
                raise Machinery('no TLC behaviours for %s scenario %s' % (ex, name))
            sd = {'tasks': tasks, 'bulks': bulks, 'cancels': cancels}
            # identical scripts need one replay only
            uniq, seen = [], set()
            for sc, fin in scripts:
                if tuple(sc) not in seen:
                    seen.add(tuple(sc))
                    uniq.append((sc, fin))
            for lo in range(0, len(uniq), 100):
                jobs.append((ex, 'macro', name, sd, uniq[lo:lo + 100]))
    chk.exhaustive = True

    # ---- 3. fine-grained schedules of the same scenarios, 4. random scenarios ----------
    for ex, scen in (('flux', F_SCEN), ('dragon', D_SCEN)):
        for name, tasks, bulks, cancels, size in scen:
            sd = {'tasks': tasks, 'bulks': bulks, 'cancels': cancels}
            if quick:
                jobs.append((ex, 'random', name, sd, (rng.randrange(10 ** 9), 40)))
                jobs.append((ex, 'dfs', name, sd, (0, 60)))
            else:
                jobs.append((ex, 'random', name, sd, (rng.randrange(10 ** 9), 500)))
                jobs.append((ex, 'dfs', name, sd, (1, 1200)))
        for k in range(W // 2 if quick else W):
            jobs.append((ex, 'randscn', 'random-%d' % k, None, (rng.randrange(10 ** 9), 40 if quick else 500)))
    # long jobs first
    jobs.sort(key=lambda j: 0 if j[1] in ('dfs', 'randscn') else 1)

    pool = mp.get_context('fork').Pool(W)
    try:
        results = pool.map(_job, jobs, chunksize=1)
    finally:
        pool.close()
        pool.join()

    phases['rig_runs_s'] = round(time.time() - t0 - phases['tlc_models_s'], 1)
    traces = {'flux': [], 'dragon': []}
    nruns, ncmp, nmatch = 0, 0, 0
    for ex, kind, name, n, uniq in results:
        nruns += n
        chk.cov.setdefault('rig_runs', []).append({'exec': ex, 'kind': kind, 'scenario': name, 'runs': n,
                                                   'distinct_event_sequences': len(uniq)})
        for sd, tr, expect in uniq:
            traces[ex].append((sd, tr))
            # the real code ends where the as-coded design model ends
            if expect is not None and tr['skipped'] == 0:
                ncmp += 1
                got = handon_summary(ex, tr)
                bad = [u for u in expect if got[u][:2] != expect[u][:2] or
                       (ex == 'dragon' and got[u][2] != expect[u][2])]
                if not bad:
                    nmatch += 1
                elif chk.pid == 'C07':
                    chk.violation('C07.Conformance',
                                  '%s: real code differs from the as-coded design model' % ex,
                                  '%s scenario %s: model ends with %s, code with %s (hand-ons, outcome, releases)'
                                  % (ex, name, {u: expect[u] for u in bad}, {u: got[u] for u in bad}),
                                  {'rig': 'execvariants', 'exec': ex, 'scn': sd, 'schedule': tr['schedule'],
                                   'errs': ['C07.Conformance'], 'expect': expect, 'events': condensed(tr)})
    chk.evaluations += nruns
    chk.notes.append('as-coded model vs code: %d TLC behaviours replayed to quiescence, %d end in the same '
                     'hand-on counts / outcomes' % (ncmp, nmatch))
    if ncmp == 0:
        raise Machinery('no TLC behaviour could be compared with the code')

    # ---- 5. monitors -----------------------------------------------------------------------
    for ex in ('flux', 'dragon'):
        module, consts = MONITOR[ex]
        trs = [tr for _, tr in traces[ex]]
        res, st = tracecheck.validate('ExecVariants', module, consts, trs, max_batch=250, parallel=W)
        chk.states += st['states']
        chk.transitions += st['transitions']
        chk.cmds.append(st['cmd'])
        for (sd, tr), errs in zip(traces[ex], res):
            chk.traces += 1
            hs = handon_summary(ex, tr)
            if any(v[0] != 1 or v[1] != 'DONE' for v in hs.values()) and len(tr['uids']) >= 1:
                chk.nontrivial.add(hash((ex,) + tuple((e['who'], e['ev'], e['uid'], e['name'], e['state'])
                                                      for e in tr['events'])))
            report(chk, ex, tr, sd, errs, 'real %s executor trace violates' % ex)
        if trs:
            chk.sample({'exec': ex, 'schedule': trs[0]['schedule'][:30],
                        'events': [(e['who'], e['ev'], e['uid'], e['name']) for e in trs[0]['events'][:25]]})
    phases['monitors_s'] = round(time.time() - t0 - phases['tlc_models_s'] - phases['rig_runs_s'], 1)
    chk.cov['execvariants_phases'] = phases
    chk.assumptions += [
        'flux: flux-framework is not installed; flux is an in-memory stand-in emitting the RFC 21 job events '
        '(alloc start finish(status) release clean, exception(type, severity) at any point; a fatal exception '
        'on a running job is followed by finish) through the FluxHelper callback interface; events may '
        'overtake the job id of their job (FluxHelperV0)',
        'flux: the partition process is a logical thread running on a snapshot of the launch method and the '
        'executor taken when start_flux() ran (fork semantics of multiprocessing.Process)',
        'dragon: the dragon runtime is not installed; bin/radical-pilot-dragon-executor.py is loaded on '
        'stand-ins of ProcessGroup / ProcessTemplate / Process / mp.Pool; inactive_puids lists the '
        'processes that have exited so far (dragon documentation)',
        'python code between two schedule points (queue / pipe operations, _tasks and _part_map accesses, '
        'locks, advance, publish) touches no state shared between the threads',
        'fine-grained schedules are sampled (seeded random + depth-first enumeration bounded to %s); the '
        'message-level interleavings are covered by TLC (exhaustive on the model, behaviours replayed)'
        % ('0 preemptions, 60 runs' if quick else '1 preemption, 1200 runs'),
    ]


def replay(chk, obj):
    ex = obj['exec']
    X  = _rigmod(ex)
    scn = _mkscn(X, ex, obj['scn'])
    tr  = X.make(scn, 'script', obj['schedule']).run()
    module, consts = MONITOR[ex]
    res, st = tracecheck.validate('ExecVariants', module, consts, [tr])
    chk.traces += 1
    errs = res[0]
    if 'expect' in obj and chk.pid == 'C07':
        got = handon_summary(ex, tr)
        bad = [u for u in obj['expect'] if got[u][:2] != obj['expect'][u][:2]]
        if bad:
            chk.violation('C07.Conformance', '%s: real code differs from the as-coded design model' % ex,
                          'replayed: model %s, code %s' % ({u: obj['expect'][u] for u in bad},
                                                           {u: got[u] for u in bad}),
                          dict(obj, events=condensed(tr)))
    report(chk, ex, tr, obj['scn'], errs, 'replayed %s executor trace violates' % ex)
