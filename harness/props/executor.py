'''
C07 (and the executor part of C03 / C08): Executor design model (PlusCal, TLC
exhaustive + termination under fairness), schedules of the real Popen executor
under the baton controller -- preemption-bounded exhaustive enumeration, TLC
behaviours as schedules, seeded random schedules -- every run validated by the
ExecutorTrace monitor.
'''

import os
import re
import glob
import random
import shutil
import multiprocessing as mp

from .. import tlc, tracecheck
from ..core import Machinery

INVARIANTS = ['StartOnce', 'HandOnOnce', 'ReleaseOnce', 'NotBoth', 'AnnounceOnce',
              'NeverLeftBehind', 'CanceledOnlyIfAsked', 'OutcomeTrue', 'LockFree']
DEVS = ['DevNoMember', 'DevCancelNoMember', 'DevErrNoUnsched', 'DevCancelDone']


def T(uid, exit=0, fault='none', timeout=0):
    return {'uid': uid, 'exit': exit, 'fault': fault, 'timeout': timeout}


# scenarios: (name, tasks, cancels)
SCENARIOS = [
    ('exit0',          [T('t1')], []),
    ('exit1-cancel',   [T('t1', 1)], [['t1']]),
    ('timeout',        [T('t1', 0, timeout=5)], []),
    ('timeout-cancel', [T('t1', 0, timeout=5)], [['t1']]),
    ('spawn-fail',     [T('t1', 0, 'spawn')], [['t1']]),
    ('script-fail',    [T('t1', 0, 'script', 5)], []),
    ('nolauncher',     [T('t1', 0, 'nolauncher')], [['t1']]),
    ('two-one-named',  [T('t1', 0), T('t2', 3)], [['t2']]),
    ('two-both-named', [T('t1', 2), T('t2', 0)], [['t1', 't2']]),
    ('two-two-msgs',   [T('t1', 0), T('t2', 0)], [['t1'], ['t2']]),
    ('fail-then-run',  [T('t1', 0, 'spawn'), T('t2', 0, timeout=5)], [['t1', 't2']]),
    ('three',          [T('t1', 0), T('t2', 1, timeout=5), T('t3', 0, 'script')], [['t3', 't1']]),
]
# intake bulks with more than one task (default: one task per bulk)
BULKS = {'bulk-fail-mid': [['t1', 't2', 't3']], 'bulk-fail-first': [['t1', 't2']],
         'bulk-cancel': [['t1', 't2']], 'bulk-two-timeouts': [['t1', 't2']],
         'bulk-timeouts-mixed': [['t1', 't2', 't3']]}
SCENARIOS += [
    ('bulk-fail-mid',   [T('t1', 0), T('t2', 0, 'nolauncher'), T('t3', 1)], []),
    ('bulk-fail-first', [T('t1', 0, 'spawn'), T('t2', 0)], [['t2']]),
    ('bulk-cancel',     [T('t1', 0), T('t2', 0, timeout=5)], [['t1']]),
    # several run-time limits registered with the timeout watcher in one pass
    ('bulk-two-timeouts',   [T('t1', 0, timeout=5), T('t2', 0, timeout=7)], []),
    ('two-timeouts',        [T('t1', 0, timeout=5), T('t2', 1, timeout=5)], []),
    ('bulk-timeouts-mixed', [T('t1', 0, timeout=5), T('t2', 0), T('t3', 0, timeout=3)], [['t2']]),
    # a process ended by a signal nobody in the executor sent (OOM killer, scancel, a user's kill):
    # Popen.returncode is negative, the task is FAILED with that code (round 6, C05-k)
    ('signal-exit',         [T('t1', -9)], []),
    ('signal-cancel',       [T('t1', -11), T('t2', 0)], [['t1']]),
]


def mc_files(tasks, cancels, devs=(), liveness=False):
    uids = [t['uid'] for t in tasks]
    q = lambda u: '"%s"' % u
    def fn(f):
        return '[t \\in MCT |-> CASE ' + ' [] '.join('t = %s -> %s' % (q(t['uid']), f(t)) for t in tasks) + ']'
    mod = ('---- MODULE MCX ----\nEXTENDS Executor\n'
           'MCT == {%s}\nMCOrder == <<%s>>\nMCFault == %s\nMCExit == %s\nMCTO == %s\nMCCancel == <<%s>>\n====\n'
           % (', '.join(q(u) for u in uids), ', '.join(q(u) for u in uids),
              fn(lambda t: q(t['fault'])), fn(lambda t: str(t['exit'])),
              fn(lambda t: 'TRUE' if t['timeout'] else 'FALSE'),
              ', '.join('{' + ', '.join(q(u) for u in c) + '}' for c in cancels)))
    cfg = ('CONSTANTS\n T <- MCT\n Order <- MCOrder\n Fault <- MCFault\n ExitCode <- MCExit\n'
           ' HasTimeout <- MCTO\n CancelMsgs <- MCCancel\n defaultInitValue = defaultInitValue\n')
    for d in DEVS:
        cfg += ' %s = %s\n' % (d, 'TRUE' if d in devs else 'FALSE')
    cfg += 'SPECIFICATION Spec\nCHECK_DEADLOCK FALSE\n'
    if liveness:
        cfg += 'PROPERTY TerminationX\n'
    else:
        for i in INVARIANTS:
            cfg += 'INVARIANT %s\n' % i
    return {'MCX.tla': mod, 'MCX.cfg': cfg}


_ACT = re.compile(r'^\\\* <(\w+)(?:\((.*)\))? line \d+', re.M)


def schedule_from_behaviour(path):
    '''thread names, one per step of a TLC behaviour of Executor'''
    out = []
    for m in _ACT.finditer(open(path).read()):
        name, args = m.group(1), m.group(2)
        a = re.findall(r'"(\w+)"', args or '')
        if name == 'Init':
            continue
        if name.startswith('K') and a:
            out.append(a[0])
        elif name == 'P0' and a:
            out.append('proc:' + a[0])
        elif name[0] == 'I':
            out.append('intake')
        elif name[0] == 'W':
            out.append('watcher')
        elif name[0] == 'C':
            out.append('control')
        elif name[0] == 'T':
            out.append('timeout')
    return out


# ------------------------------------------------------------------------------
# rig runs happen in worker processes (thread heavy, GIL bound)
def _job(args):
    kind, name, tasks, cancels, arg = args
    import signal
    from ..rigs import exec_rig as X
    from .. import sched_ctl as SC
    # importing popen.py installs SIGTERM/SIGINT handlers which swallow the signal
    signal.signal(signal.SIGTERM, signal.SIG_DFL)
    signal.signal(signal.SIGINT,  signal.SIG_DFL)
    scn = X.Scenario(tasks, cancels, bulks=BULKS.get(name))
    out = []
    if kind == 'dfs':
        bound, limit = arg
        def mk(ch):
            rig = X.ExecRig(scn, ch)
            return rig.ctl, rig.run()
        for tr in SC.explore(mk, max_runs=limit, preempt_bound=bound):
            out.append(tr)
    elif kind == 'random':
        seed, n = arg
        rng = random.Random(seed)
        for i in range(n):
            rig = X.ExecRig(scn, SC.randomised(random.Random(rng.randrange(10 ** 9))))
            out.append(rig.run())
    elif kind == 'script':
        for sched in arg:
            rig = X.ExecRig(scn, SC.scripted(sched))
            out.append(rig.run())
    # de-duplicate identical event sequences, keep one schedule each
    seen, uniq = set(), []
    for tr in out:
        key = hash(tuple((e['who'], e['ev'], e['uid'], str(e.get('res', e.get('code', e.get('state', ''))))
                          ) for e in tr['events']))
        if key in seen:
            continue
        seen.add(key)
        uniq.append(tr)
    return kind, name, len(out), uniq


def classify(tr):
    if any(e['ev'] == 'ProbeEnd' for e in tr['events']):
        return 'real LaunchMethod.cancel_task on real processes (new_session_per_task=%s)' % \
               tr['events'][-1].get('new_session')
    return 'popen executor, scenario faults=%s cancels=%d timeouts=%d' % (
        ','.join(sorted(set(s['fault'] for s in tr['spec'].values()))),
        len(tr['named']), sum(1 for s in tr['spec'].values() if s['timeout']))


def run(chk, tier, seed):
    pid   = chk.pid
    quick = tier == 'quick'
    rng   = random.Random(seed * 104729 + 7)

    # ---- 1. design model ------------------------------------------------------
    mcs = SCENARIOS[:9] + SCENARIOS[-2:] if quick else SCENARIOS[:11] + SCENARIOS[12:]
    for name, tasks, cancels in mcs:
        res = tlc.run('Executor', 'MCX', 'MCX.cfg', workers=16, timeout=1500,
                      extra_files=mc_files(tasks, cancels))
        chk.add_tlc(res, 'exhaustive:' + name)
        if not res.ok:
            raise Machinery('Executor design model violates %s in %s:\n%s'
                            % (res.violated, name, res.trace[:3000]))
    chk.exhaustive = True
    if not quick:
        for name, tasks, cancels in SCENARIOS[:5]:
            res = tlc.run('Executor', 'MCX', 'MCX.cfg', workers=16, timeout=1500,
                          extra_files=mc_files(tasks, cancels, liveness=True))
            chk.add_tlc(res, 'termination:' + name)
            if not res.ok:
                raise Machinery('Executor design model does not terminate in %s:\n%s'
                                % (name, res.trace[:3000]))
        expect = [('DevNoMember', 'exit1-cancel', 'NotBoth'),
                  ('DevCancelNoMember', 'exit1-cancel', 'NotBoth'),
                  ('DevErrNoUnsched', 'spawn-fail', 'NeverLeftBehind'),
                  ('DevCancelDone', 'exit1-cancel', None)]
        for dev, sname, inv in expect:
            _, tasks, cancels = [s for s in SCENARIOS if s[0] == sname][0]
            res = tlc.run('Executor', 'MCX', 'MCX.cfg', workers=16, timeout=900,
                          extra_files=mc_files(tasks, cancels, devs=[dev]))
            chk.add_tlc(res, 'deviation:' + dev)
            if inv and (res.ok or res.violated != inv):
                raise Machinery('deviation %s not detected (got %s)' % (dev, res.violated))
            chk.notes.append('deviation %s: %s' % (dev, res.violated or 'tolerated by the design'))

    # ---- 2. TLC behaviours as schedules ----------------------------------------
    traces, meta = [], []
    jobs = []
    nsim = 60 if quick else 600
    for name, tasks, cancels in SCENARIOS[:11] + SCENARIOS[12:]:
        dump = tlc.scratch('rpxsim_')
        try:
            res = tlc.run('Executor', 'MCX', 'MCX.cfg', workers=1, timeout=600,
                          simulate='num=%d' % nsim, depth=80, seed=rng.randrange(10 ** 6),
                          dump_dir=dump, extra_files=mc_files(tasks, cancels))
            chk.add_tlc(res, 'simulate:' + name)
            scheds = [schedule_from_behaviour(f) for f in sorted(glob.glob(os.path.join(dump, 'tr_*')))]
            jobs.append(('script', name, tasks, cancels, scheds))
        finally:
            shutil.rmtree(dump, ignore_errors=True)

    # ---- 3. preemption bounded exhaustive + random schedules ---------------------
    for name, tasks, cancels in SCENARIOS:
        if quick:
            jobs.append(('dfs', name, tasks, cancels, (1, 700)))
            jobs.append(('random', name, tasks, cancels, (rng.randrange(10 ** 9), 150)))
        else:
            jobs.append(('dfs', name, tasks, cancels, (2, 12000)))
            jobs.append(('random', name, tasks, cancels, (rng.randrange(10 ** 9), 3000)))

    pool = mp.get_context('fork').Pool(14)
    try:
        results = pool.map(_job, jobs, chunksize=1)
    finally:
        pool.close()
        pool.join()

    nruns = 0
    for (kind, name, n, uniq), job in zip(results, jobs):
        nruns += n
        chk.cov.setdefault('rig_runs', []).append({'kind': kind, 'scenario': name, 'runs': n,
                                                   'distinct_event_sequences': len(uniq)})
        for tr in uniq:
            traces.append(tr)
            meta.append({'kind': kind, 'scenario': name, 'tasks': job[2], 'cancels': job[3],
                         'bulks': BULKS.get(name)})
    chk.evaluations = nruns

    # ---- 3b. kill probe: the real LaunchMethod.cancel_task on real processes ----------
    import subprocess, json as _json
    probe = os.path.join(os.path.dirname(os.path.dirname(os.path.abspath(__file__))), 'rigs', 'kill_probe.py')
    for ns, n, mode in ((1, 2, ''), (1, 3, ''), (0, 2, ''), (0, 3, ''), (1, 2, 'gone'), (0, 2, 'gone')):
        if True:
            p = subprocess.run(['/venv/bin/python', probe, str(ns), str(n)] + ([mode] if mode else []),
                               start_new_session=True,
                               stdout=subprocess.PIPE, stderr=subprocess.PIPE, timeout=120,
                               env=dict(os.environ))
            lines = [x for x in p.stdout.decode('utf-8', 'replace').strip().split('\n') if x.startswith('{')]
            if not lines:
                raise Machinery('kill probe gave no result: rc=%s %s' % (p.returncode, p.stderr.decode()[-500:]))
            pr = _json.loads(lines[-1])
            uids = pr.get('uids') or ['t1']
            tr = {'uids': uids, 'spec': {u: {'exit': '0', 'fault': 'none', 'timeout': 0} for u in uids},
                  'named': [uids[0]], 'events': pr['events'], 'schedule': []}
            traces.append(tr)
            meta.append({'kind': 'killprobe', 'scenario': 'killprobe-ns%d-n%d%s' % (ns, n, mode), 'tasks': [],
                         'cancels': [], 'bulks': None, 'probe': [ns, n, mode]})

    # ---- 4. monitor ----------------------------------------------------------------
    res, st = tracecheck.validate('Executor', 'ExecutorTrace', 'Dummy = 0' if False else '',
                                  traces, max_batch=300, parallel=12)
    chk.states += st['states']
    chk.transitions += st['transitions']
    chk.cmds.append(st['cmd'])
    for tr, m, errs in zip(traces, meta, res):
        chk.traces += 1
        evs = tuple((e['who'], e['ev']) for e in tr['events'])
        if any(e['ev'] == 'Kill' for e in tr['events']) or \
           sum(1 for e in tr['events'] if e['ev'] == 'Member') > 1:
            chk.nontrivial.add(hash(evs))
        for err in errs:
            p = err.split('.')[0]
            # executor clauses serve C07; release counting also C03, cancel clauses C08
            owners = {'C07'}
            if err in ('C07.ReleasedTwice', 'C07.NeverReleased', 'C07.ReleaseUnknown'):
                owners.add('C03')
            if p == 'C08':
                owners = {'C08'}
            # C08: 'the resources it held are freed exactly once' for the named tasks
            if err in ('C07.ReleasedTwice', 'C07.NeverReleased', 'C07.LeftBehind') and tr.get('named'):
                owners.add('C08')
            # a task left behind / handed on with a wrong outcome never reaches a truthful final state
            if err in ('C07.LeftBehind', 'C07.OutcomeWrong', 'C07.OutcomeMissing', 'C07.ThreadDiedOrDeadlock'):
                owners.add('C05')
            if pid not in owners:
                continue
            chk.violation(err.replace(p + '.', pid + '.', 1) if p != pid else err, classify(tr),
                          'real Popen executor trace violates %s' % err,
                          {'rig': 'executor', 'tasks': m['tasks'], 'cancels': m['cancels'],
                           'bulks': m['bulks'], 'schedule': tr['schedule'], 'errs': errs, 'trace': tr,
                           'probe': m.get('probe')})
    if traces:
        chk.sample({'scenario': meta[0]['scenario'], 'schedule': traces[0]['schedule'][:40],
                    'events': [(e['who'], e['ev'], e['uid']) for e in traces[0]['events'][:25]]})
    chk.assumptions += [
        'python code between two schedule points touches no state shared between executor threads',
        'processes are fakes: exit code chosen by the scenario, kill makes the exit code -15',
        'schedules with more than 1 (quick) / 2 (thorough) preemptions are only sampled '
        '(random and TLC-derived schedules)']


def replay(chk, obj):
    from ..rigs import exec_rig as X
    from .. import sched_ctl as SC
    if obj.get('probe'):
        # kill probe: run it again (real processes), validate its trace
        import subprocess, json as _json
        ns, n, mode = (list(obj['probe']) + [''])[:3]
        probe = os.path.join(os.path.dirname(os.path.dirname(os.path.abspath(__file__))), 'rigs', 'kill_probe.py')
        p = subprocess.run(['/venv/bin/python', probe, str(ns), str(n)] + ([mode] if mode else []),
                           start_new_session=True, stdout=subprocess.PIPE, stderr=subprocess.PIPE, timeout=120)
        pr = _json.loads([x for x in p.stdout.decode().strip().split('\n') if x.startswith('{')][-1])
        uids = pr.get('uids') or ['t1']
        tr = {'uids': uids, 'spec': {u: {'exit': '0', 'fault': 'none', 'timeout': 0} for u in uids},
              'named': [uids[0]], 'events': pr['events'], 'schedule': []}
        res, st = tracecheck.validate('Executor', 'ExecutorTrace', '', [tr])
        chk.traces += 1
        for err in res[0]:
            chk.violation(err, classify(tr), 'replayed kill probe violates %s' % err,
                          {'rig': 'executor', 'probe': obj['probe'], 'errs': res[0], 'trace': tr})
        return
    scn = X.Scenario(obj['tasks'], obj['cancels'], bulks=obj.get('bulks'))
    rig = X.ExecRig(scn, SC.scripted(obj['schedule']))
    tr  = rig.run()
    res, st = tracecheck.validate('Executor', 'ExecutorTrace', '', [tr])
    chk.traces += 1
    for err in res[0]:
        chk.violation(err, classify(tr), 'replayed executor trace violates %s' % err,
                      {'rig': 'executor', 'tasks': obj['tasks'], 'cancels': obj['cancels'],
                       'schedule': tr['schedule'], 'errs': res[0], 'trace': tr})
