'''
C18: the pilot offers exactly the nodes it was allocated.

1. the RMNodes design model (parse -> block -> cut -> reserve -> publish ->
   recreate) is checked exhaustively by TLC over every allocation shape x
   resource manager x layout of the tier's scope;
2. TLC prints every input it explored (spec -> code): the rig writes the node
   file / environment / qstat answer for it and runs the REAL resource manager
   subclass's `_init_from_scratch`, then the registry round trip;
3. every recorded trace is validated by the RMNodesTrace monitor (code -> spec);
   The input space includes LSF host files with named / unnamed pseudo nodes of
   one or several slots and partially listed hosts (with and without a
   configured node size, SMT 1 / 4), and Slurm allocations whose GPUs are only
   announced through the environment;
4. thorough: a larger scope is model checked and sampled by TLC's simulation
   mode for the rig, and every deviation constant must break its invariant.
'''

import ast
import random

from .. import tlc, tracecheck
from ..core import Machinery
from ..rigs import rmnodes_rig as R

RMS = ['FORK', 'SLURM', 'PBSPRO_VNODE', 'PBSPRO_FILE', 'LSF', 'COBALT_FILE', 'COBALT_PART',
       'TORQUE', 'CCM']

DEVS = ['DevKeepDuplicates', 'DevKeepPseudo', 'DevSmtTwice', 'DevNoCut', 'DevAgentsStay',
        'DevBackupAfterCut', 'DevCopyDropsService', 'DevRegistryKeyCase', 'DevLsfTrustConfig',
        'DevGpusAfterList', 'DevTimeoutIsOk', 'DevSplitByBackup', 'DevCcmByName']

# the invariants of C18 (+ the model's own consistency), and the one that is not (D20)
INVARIANTS = ['TypeOK', 'InvParsedOnePerNode', 'InvOnePerNode', 'InvSized', 'InvDisjoint',
              'InvReserved', 'InvNonEmpty', 'InvNotLonger', 'InvSameEverywhere', 'InvRefusal',
              'InvExpected', 'InvBackupKept', 'InvInfoAgrees', 'InvReachable', 'InvNotShorter']

SMALL = dict(maxhosts=3, orders=['asc', 'rot'], cores=[2], smt=[1, 2], lsfcores=[2, 3], lsfsmt=[1, 4],
             pslots=[1, 3], probebackups=[0, 1, 2, 3],
             gpus=[(0, ()), (2, ()), (2, (1,))], bcs=[(), (0,)], backups=[0, 1], agents=[0, 1, 2])
# the full cross product of the thorough tier leaves out 'GPUs present, none blocked', the host
# orders other than ascending and blocked cores (those are crossed with every allocation shape
# in the parse sweep)
FULL  = dict(SMALL, gpus=[(0, ()), (2, (1,))], orders=['asc'], bcs=[()])
# deviation sensitivity runs
TINY  = dict(SMALL, maxhosts=2, orders=['asc'])
PROBE4 = dict(SMALL, maxhosts=4)
LARGE = dict(maxhosts=4, orders=['asc', 'desc'], cores=[2, 3], smt=[1, 2], lsfcores=[2, 3],
             lsfsmt=[1, 4], pslots=[1, 3], probebackups=[0, 1, 2, 3],
             gpus=[(0, ()), (2, (1,))], bcs=[(), (0,)], backups=[0, 1], agents=[0, 1, 2])

D_PBSSMT = 'PBSPro node file fallback (qstat unavailable) on a platform with SMT > 1'


# ------------------------------------------------------------------------------
def _set(xs, quote=False):
    return '{' + ', '.join(('"%s"' % x) if quote else str(x) for x in xs) + '}'


def mc_files(scope, sweep, devs=(), print_cases=False, invariants=None):
    mod = ('---- MODULE MC ----\nEXTENDS RMNodes\n'
           'MCRM == %s\nMCOrders == %s\nMCCores == %s\nMCSmt == %s\nMCLsfCores == %s\nMCLsfSmt == %s\n'
           'MCPSlots == %s\nMCPB == %s\nMCGpu == %s\nMCBc == %s\n'
           'MCBk == %s\nMCAg == %s\n====\n'
           % (_set(RMS, True), _set(scope['orders'], True), _set(scope['cores']), _set(scope['smt']),
              _set(scope['lsfcores']), _set(scope['lsfsmt']), _set(scope['pslots']),
              _set(scope['probebackups']),
              _set('<<%d, %s>>' % (g, _set(b)) for g, b in scope['gpus']),
              _set(_set(b) for b in scope['bcs']), _set(scope['backups']), _set(scope['agents'])))
    cfg = ('CONSTANTS\n RMKinds <- MCRM\n MaxHosts = %d\n Orders <- MCOrders\n CoreChoices <- MCCores\n'
           ' SmtChoices <- MCSmt\n LsfCoreChoices <- MCLsfCores\n LsfSmtChoices <- MCLsfSmt\n'
           ' PSlotChoices <- MCPSlots\n ProbeBackups <- MCPB\n GpuCfgs <- MCGpu\n BlockedCs <- MCBc\n Backups <- MCBk\n'
           ' AgentCounts <- MCAg\n Sweep = "%s"\n PrintCases = %s\n'
           % (scope['maxhosts'], sweep, 'TRUE' if print_cases else 'FALSE'))
    for d in DEVS:
        cfg += ' %s = %s\n' % (d, 'TRUE' if d in devs else 'FALSE')
    cfg += 'SPECIFICATION Spec\nCHECK_DEADLOCK FALSE\n'
    for i in (INVARIANTS if invariants is None else invariants):
        cfg += 'INVARIANT %s\n' % i
    return {'MC.tla': mod, 'MC.cfg': cfg}


def cases_of(out):
    '''<<"CASE", ...>> tuples printed by the design model -> rig inputs'''
    cases = []
    for txt in tlc.extract_tuples(out, 'CASE'):
        txt = (txt.replace('<<', '[').replace('>>', ']').replace('TRUE', 'True')
                  .replace('FALSE', 'False').replace('{', '[').replace('}', ']'))
        cases.append(R.case_from_tuple(ast.literal_eval(txt)))
    return cases


# ------------------------------------------------------------------------------
def classify(c, clause):
    if c['rm'] == 'PBSPRO_FILE' and c['smt'] > 1 and clause == 'C18.Sized':
        return D_PBSSMT
    cls = 'rm=%s shape=%s pseudo=%s' % (c['rm'], c['shape'], c['pseudo'])
    if c['pslots'] > 1:
        cls += ' with %d slots' % c['pslots']
    if c['uneven']:
        cls += ' uneven'
    if c['refused'] or c['hangs']:
        return 'backup nodes: %s%s' % ('a probe never answers' if c['hangs'] else 'a probe is refused',
                                       '' if c['backup'] < 2 else ', several backup nodes')
    if c['backup'] == 0 and clause in ('C18.Initialises', 'C18.OnePerNode', 'C18.NotShorter',
                                       'C17.AgentNodesAsTold') and c['requested'] < len(c['hosts']):
        return 'allocation larger than the pilot, no backup nodes'
    if c['oldfiles'] != 'none':
        return 'rm=CCM, node files of older jobs present (%s)' % c['oldfiles']
    if c['gpusrc'] != 'config':
        cls += ' gpus from $%s' % R.GPU_ENV[c['gpusrc']]
    return cls


def validate(chk, cases, traces, note):
    '''monitor verdict for every trace; report C18 clauses, note the rest'''
    res, st = tracecheck.validate('RMNodes', 'RMNodesTrace', '', traces, max_batch=12000,
                                  workers=4, timeout=1500)
    chk.states      += st['states']
    chk.transitions += st['transitions']
    chk.cmds.append(st['cmd'])
    other = {}
    for c, tr, errs in zip(cases, traces, res):
        chk.traces += 1
        kinds = tuple(e['ev'] for e in tr['events'])
        chk.nontrivial.add((c['rm'], c['shape'], c['pseudo'], c['pslots'], c['uneven'], c['gpusrc'],
                            c['style'], c['known'], c['smt'] > 1,
                            bool(c['bc']), bool(c['bg']), c['agents'], c['service'], c['backup'],
                            len(c['refused']), len(c['hangs']), c['oldfiles'],
                            c['requested'] < len(c['hosts']), kinds[-1]))
        mine = [e for e in errs if e.split('.')[0] == chk.pid]
        for e in errs:
            if e.split('.')[0] != chk.pid:
                # M18.Partition is implied when an entry is mis-sized
                if e.startswith('M18') and mine:
                    continue
                other[e] = other.get(e, 0) + 1
        for e in mine:
            chk.violation(e, classify(c, e), 'real resource manager start-up violates %s' % e,
                          {'rig': 'rmnodes', 'case': c, 'errs': errs, 'trace': tr})
    for e, n in sorted(other.items()):
        if e.startswith('D20'):
            chk.notes.append('%s: D20 observed in %d traces (backup_list empty although the allocation '
                             'has spare nodes; outside the statement of C18, modelled as '
                             'DevBackupAfterCut, not alarmed)' % (note, n))
        else:
            chk.notes.append('%s: %s in %d traces (code differs from the design model without '
                             'breaking a C18 clause)' % (note, e, n))
    return res


def drive(chk, cases, note):
    rig = R.RMNodesRig()
    try:
        traces = [rig.run(c) for c in cases]
    finally:
        rig.close()
    validate(chk, cases, traces, note)
    return traces


# ------------------------------------------------------------------------------
def run(chk, tier, seed):
    quick = tier == 'quick'
    rng   = random.Random(seed * 6007 + 18)
    w     = 8

    # ---- 1. design model, exhaustive; the explored inputs drive the rig ---------
    cases = []
    # C17 share (C17.AgentNodesAsTold): the probe / backup sweep and the correctly sized
    # LSF jobs (every pseudo node kind, SMT 1 / 4), one TLC run
    only17 = chk.pid == 'C17'
    if only17:
        sweeps = [(SMALL if quick else PROBE4, 'c17')]
    elif quick:
        sweeps = [(SMALL, 'quick')]           # parse + filter + probe sweeps in one TLC run
    else:
        sweeps = [(FULL, 'full'), (SMALL, 'parse'), (PROBE4, 'probe')]
    for scope, sweep in sweeps:
        res = tlc.run('RMNodes', 'MC', 'MC.cfg', workers=w, timeout=1500,
                      extra_files=mc_files(scope, sweep, print_cases=True))
        chk.add_tlc(res, 'exhaustive:small/' + sweep)
        if not res.ok:
            raise Machinery('design model RMNodes violates %s (sweep %s) with all deviations off:\n%s'
                            % (res.violated, sweep, res.trace[:3000]))
        got = cases_of(res.out)
        if not got:
            raise Machinery('design model printed no cases (sweep %s)' % sweep)
        cases += got
    chk.exhaustive = True

    if not quick and not only17:
        for sweep in ('full', 'parse'):
            res = tlc.run('RMNodes', 'MC', 'MC.cfg', workers=w, timeout=1800,
                          extra_files=mc_files(LARGE, sweep))
            chk.add_tlc(res, 'exhaustive:large/' + sweep)
            if not res.ok:
                raise Machinery('design model RMNodes violates %s in the large scope (%s):\n%s'
                                % (res.violated, sweep, res.trace[:3000]))

        # ---- 2. deviation sensitivity ------------------------------------------
        expect = [('DevKeepDuplicates', 'parse', 'InvParsedOnePerNode'),
                  ('DevKeepPseudo', 'parse', 'InvParsedOnePerNode'),
                  ('DevSmtTwice', 'parse', 'InvSized'),
                  ('DevNoCut', 'filter', 'InvNotLonger'),
                  ('DevAgentsStay', 'filter', 'InvDisjoint'),
                  ('DevBackupAfterCut', 'filter', 'InvBackupKept'),
                  ('DevCopyDropsService', 'filter', 'InvSameEverywhere'),
                  ('DevRegistryKeyCase', 'filter', 'InvSameEverywhere'),
                  ('DevLsfTrustConfig', 'parse', 'InvParsedOnePerNode'),
                  ('DevGpusAfterList', 'parse', 'InvInfoAgrees'),
                  ('DevTimeoutIsOk', 'probe', 'InvReachable'),
                  ('DevSplitByBackup', 'probe', 'InvNotShorter'),
                  ('DevCcmByName', 'parse', 'InvParsedOnePerNode')]
        for dev, sweep, inv in expect:
            res = tlc.run('RMNodes', 'MC', 'MC.cfg', workers=w, timeout=900,
                          extra_files=mc_files(SMALL if sweep == 'probe' else TINY, sweep, devs=[dev],
                                               invariants=[inv]))
            chk.add_tlc(res, 'deviation:' + dev)
            if res.ok or res.violated != inv:
                raise Machinery('deviation %s not detected by the model (got %s)' % (dev, res.violated))
            chk.notes.append('deviation %s breaks %s in the design model' % (dev, inv))

        # ---- 3. TLC simulation of the large scope -> more inputs for the rig -----
        for sweep in ('full', 'parse'):
            res = tlc.run('RMNodes', 'MC', 'MC.cfg', workers=1, timeout=900, simulate='num=3000', depth=8,
                          seed=rng.randrange(10 ** 6),
                          extra_files=mc_files(LARGE, sweep, print_cases=True, invariants=['TypeOK']))
            chk.add_tlc(res, 'simulate:large/' + sweep)
            cases += cases_of(res.out)

    # ---- 4. real resource managers on every input, monitor on every trace --------
    # (TLC's workers print in any order: fix it, so that reports do not depend on it)
    uniq  = {tuple(str(c[k]) for k in R.FIELDS): c for c in cases}
    cases = [uniq[k] for k in sorted(uniq)]
    traces = drive(chk, cases, tier)
    for tr in traces[:1] + [t for t in traces if t['in']['rm'] == 'LSF' and t['in']['pseudo'] == 'both'
                            and t['in']['agents'] and len(t['in']['hosts']) == 3][:1]:
        chk.sample({'in': tr['in'], 'events': tr['events']})
    chk.assumptions += [
        'allocations are uniform (same slot count on every host) and host names are zero-padded '
        '(ru.get_hostlist pads "node[8-10]" to node08.. - radical.utils, outside /repo)',
        'backup-node ssh probing is stubbed to "all reachable"; qstat is stubbed (answer generated '
        'from the TLC state, or "not found" for the node file fallback)',
        'the registry is an in-memory stand-in for ru.zmq.RegistryClient (get/put/close on a dict shared '
        'by the components of one pilot, values sent through ru msgpack); both components are built by the '
        'real ResourceManager.__init__, launch method preparation stubbed; between the two constructions '
        'the batch environment is wiped or one node stops answering the reachability probe',
        'RMInfo list/dict defaults are reset between constructions (shared mutable defaults are a '
        'harness artefact: production builds one RMInfo per process)']


def replay(chk, obj):
    c = obj['case']
    rig = R.RMNodesRig()
    try:
        tr = rig.run(c)
    finally:
        rig.close()
    validate(chk, [c], [tr], 'replay')
