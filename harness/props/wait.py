'''
C15: the Wait design model (exhaustive TLC), TLC behaviours of the model turned
into (call, trajectory, timeout) cases for the real wait methods, small-scope
exhaustive and seeded random cases, every recorded trace validated by the
WaitTrace monitor.
'''

import json
import random
import shutil
import itertools

from .. import tlc, tracecheck
from ..core import Machinery
from ..rigs import wait_rig as W

INVARIANTS = ['TypeOK', 'InvPrompt', 'InvNotEarly', 'InvTruthful', 'InvDueOrder']
DEVS       = ['DevTaskDefaultNone', 'DevNoFinalExit', 'DevPilotNoneReturn', 'DevStaleApplied']

# apis for which "in or past a requested state" is what Prompt counts: wait_tasks
# documents and implements it; Task.wait, Pilot.wait and wait_pilots compare for
# the exact state, which the property statement does not forbid
PAST_APIS = '{"tmgr"}'
TRACE_CONSTANTS = 'PastApis = %s' % PAST_APIS


# ------------------------------------------------------------------------------
def mc_cfg(apis, nn=2, ne=2, devs=(), timeouts=(0, 1, 4), maxreq=2, trajend=3,
           maxtick=6, mayclose=True, invariants=None, oddkinds=('contra',), abort_on=(), record=False):
    c = ('CONSTANTS\n NN = %d\n NE = %d\n Apis = {%s}\n Timeouts = {%s}\n MaxReq = %d\n'
         ' TrajEnd = %d\n MaxTick = %d\n MayClose = %s\n PastApis = %s\n'
         % (nn, ne, ', '.join('"%s"' % a for a in apis), ', '.join(str(t) for t in timeouts),
            maxreq, trajend, maxtick, 'TRUE' if mayclose else 'FALSE', PAST_APIS))
    for d in DEVS:
        c += ' %s = %s\n' % (d, 'TRUE' if d in devs else 'FALSE')
    c += ' RecordOdd = %s\n' % ('TRUE' if record else 'FALSE')
    c += ' OddKinds = {%s}\n DevBulkAbortOn = {%s}\n' % (
        ', '.join('"%s"' % k for k in oddkinds), ', '.join('"%s"' % k for k in abort_on))
    c += 'SPECIFICATION Spec\nCHECK_DEADLOCK FALSE\n'
    for i in (INVARIANTS if invariants is None else invariants):
        c += 'INVARIANT %s\n' % i
    return {'MC.cfg': c}


# ------------------------------------------------------------------------------
def case_from_behaviour(path):
    '''one TLC behaviour of Wait -> (abstract case, what the model returned)'''
    steps = tlc.parse_sim_file(path)
    if not steps:
        return None, None
    s0 = steps[0][2]
    def stale_of(s):
        return [v if v != t else -1 for v, t in zip(s['seen'], s['st'])]
    traj, closing, stale, odd = [], [], [stale_of(s0)], [None]
    tick = 0
    for act, args, s in steps[1:]:
        if s['tick'] > tick:                         # a Poll step
            tick = s['tick']
            traj.append(list(s['st']))
            closing.append(bool(s['closing']))
            stale.append(stale_of(s))
            odd.append(list(s['odd']) if s['odd'][0] else None)     # b, kind, k
    case = W.make_case(s0['api'], len(s0['st']), s0['kind'], sorted(s0['awaited']), s0['rform'],
                       list(s0['R']), s0['timeout'], list(s0['st']), traj, s0['closing'], closing)
    last  = steps[-1][2]
    model = None
    if last['pc'] == 'ret':
        model = {'tick': last['rtick'], 'shape': last['rshape'], 'val': list(last['rval'])}
    if any(v >= 0 for vec in stale for v in vec):
        case['stale'] = stale          # the environment of a notification case
    if any(odd):
        case['odd'] = odd              # the odd entries of the notification bulks
    return case, model


# ------------------------------------------------------------------------------
def trajectories(nn, start, n):
    '''all legal trajectories of length n of one entity over codes 0 .. nn+2'''
    def nxt(s):
        if s >= nn:
            return [s]
        return [s] + list(range(s + 1, nn + 3))
    out = [[]]
    for _ in range(n):
        out = [t + [x] for t in out for x in nxt(t[-1] if t else start)]
    return out


def small_scope(nn_model=3, n=3):
    '''every (api, requested set, trajectory, timeout) over an abstract chain with
       nn_model non-final states: one awaited entity for the entity calls, two
       for the manager calls (the second one on a shorter menu)'''
    codes = list(range(nn_model + 3))
    reqs  = [([], 'none')] + [([c], f) for c in codes for f in ('scalar', 'list')] \
          + [(list(p), 'list') for p in itertools.combinations(codes, 2)]
    for api in ('task', 'pilot'):
        for R, rform in reqs:
            for to in (0, 1, 3):
                for s0 in codes:
                    for tr in trajectories(nn_model, s0, n):
                        yield W.make_case(api, 1, 'scalar', [1], rform, R, to, [s0],
                                          [[x] for x in tr])
    second = [(0, [0, 0, 0]), (0, [0, nn_model - 1, nn_model + 1]), (1, [1, 1, nn_model]),
              (nn_model + 2, [nn_model + 2] * 3)]
    for api in ('tmgr', 'pmgr'):
        for R, rform in reqs:
            for to in (0, 2):
                for s0 in codes:
                    for tr in trajectories(nn_model, s0, n):
                        for kind, aw in (('scalar', [1]), ('list', [2, 1]), ('all', [1, 2])):
                            for b0, btr in (second if kind != 'scalar' else second[:1]):
                                yield W.make_case(api, 2, kind, aw, rform, R, to, [s0, b0],
                                                  [[x, y] for x, y in zip(tr, btr)])


# ------------------------------------------------------------------------------
D6  = 'Task.wait without a state argument'
D7T = 'Task.wait: task final in a state that was not awaited'
D7P = 'Pilot.wait: pilot final in a state that was not awaited'
D7N = 'Pilot.wait: pilot already in an awaited final state at the call'


def diverged(trace):
    '''the client-side objects hold something else than the furthest state
       notified (two different final states: a raced task, accepted)'''
    nn = trace['nn']
    return any(a != b and not (a >= nn and b >= nn)
               for e in trace['events'] if 'seen' in e for a, b in zip(e['seen'], e['st']))


NAMES = {'task': 'Task.wait', 'pilot': 'Pilot.wait', 'tmgr': 'TaskManager.wait_tasks',
         'pmgr': 'PilotManager.wait_pilots'}


def classify(trace, clause):
    '''call-site class of a failing trace (for known-findings matching)'''
    api, nn = trace['api'], trace['nn']
    want = trace['R'] or [nn, nn + 1, nn + 2]
    if diverged(trace) and trace.get('notify_raised'):
        return '%s: the rest of a notification bulk was lost (the subscriber callback raised)' % NAMES[api]
    if diverged(trace):
        return '%s: client-side state behind the furthest state notified' % NAMES[api]
    if api == 'task' and trace['rform'] == 'none':
        return D6
    if api in ('task', 'pilot'):
        ent  = trace['awaited'][0] - 1
        sts  = [e['st'][ent] for e in trace['events'] if 'st' in e]
        if clause.startswith('C15.Prompt') and sts and sts[-1] >= nn and sts[-1] not in want:
            return D7T if api == 'task' else D7P
        if api == 'pilot' and clause.startswith('C15.Truthful') and sts and sts[0] >= nn \
                and sts[0] in want:
            return D7N
    return '%s (uids: %s, state: %s)' % (NAMES[api], trace['kind'], trace['rform'])


def signature(trace):
    ev = trace['events']
    return (trace['api'], trace['kind'], trace['rform'], len(trace['R']), bool(trace['timeout']),
            ev[-1]['ev'], min(ev[-1]['tick'], 4), len(ev) > 2)


def key_of(case):
    return json.dumps(case, sort_keys=True)


# ------------------------------------------------------------------------------
def validate(chk, cases, kinds, batch=2000):
    traces = W.run_cases(cases)
    res, st = tracecheck.validate('Wait', 'WaitTrace', TRACE_CONSTANTS, traces,
                                  max_batch=batch, timeout=1200)
    chk.states += st['states']
    chk.transitions += st['transitions']
    chk.cmds.append(st['cmd'])
    for case, kind, tr, errs in zip(cases, kinds, traces, res):
        chk.traces += 1
        if len(tr['events']) > 2:
            chk.nontrivial.add(signature(tr))
        bad = [e for e in errs if e.split('.')[0] == 'X']
        if bad:
            raise Machinery('wait rig produced a malformed trace: %s\n%s' % (bad, json.dumps(tr)[:2000]))
        for err in errs:
            if err.split('.')[0] != chk.pid:
                continue
            chk.violation(err, classify(tr, err),
                          'real %s violates %s' % (classify(tr, err).split(':')[0].split(' (')[0], err),
                          {'rig': 'wait', 'kind': kind, 'case': case, 'errs': errs, 'trace': tr})
    return traces, res


def run(chk, tier, seed):
    rng   = random.Random(seed * 104729 + 15)
    quick = tier == 'quick'

    # ---- 1. design model, exhaustive ------------------------------------------
    nn = 2 if quick else 3
    odds = ('contra',) if quick else ('contra', 'stale', 'dup')
    for apis, ne in ((['task', 'pilot'], 2), (['tmgr'], 2), (['pmgr'], 2)):
        res = tlc.run('Wait', 'Wait', 'MC.cfg', workers=16, timeout=900,
                      extra_files=mc_cfg(apis, nn=nn, ne=ne, oddkinds=odds))
        chk.add_tlc(res, 'exhaustive:' + '+'.join(apis))
        if not res.ok:
            raise Machinery('design model Wait violates %s for %s (intended design must hold):\n%s'
                            % (res.violated, apis, res.trace[:3000]))
    if not quick:
        res = tlc.run('Wait', 'Wait', 'MC.cfg', workers=16, timeout=900,
                      extra_files=mc_cfg(['tmgr', 'pmgr'], nn=2, ne=3, timeouts=(0, 2)))
        chk.add_tlc(res, 'exhaustive:managers-3-entities')
        if not res.ok:
            raise Machinery('design model Wait violates %s (3 entities)\n%s'
                            % (res.violated, res.trace[:3000]))
    chk.exhaustive = True

    # ---- 2. deviation sensitivity ----------------------------------------------
    if not quick:
        # (devs, apis, maxreq, expected violation or None)
        expect = [(['DevNoFinalExit'], ['task', 'pilot'], 2, 'InvPrompt'),
                  (['DevNoFinalExit'], ['task', 'pilot'], 0, None),   # default wait needs no exit
                  (['DevTaskDefaultNone', 'DevNoFinalExit'], ['task'], 0, 'InvPrompt'),
                  (['DevPilotNoneReturn'], ['pilot'], 1, 'InvTruthful'),
                  (['DevStaleApplied'], ['pilot', 'pmgr'], 1, True),
                  (['DevStaleApplied'], ['task', 'tmgr'], 1, True)]
        expect += [(['DevBulkAbortOn=' + k], ['task', 'tmgr'], 1, True)
                   for k in ('contra', 'stale', 'dup')]
        for devs, apis, maxreq, inv in expect:
            abort = tuple(d.split('=')[1] for d in devs if '=' in d)
            res = tlc.run('Wait', 'Wait', 'MC.cfg', workers=16, timeout=600,
                          extra_files=mc_cfg(apis, nn=2, ne=1 if inv is not True else 2,
                                             devs=[d for d in devs if '=' not in d], maxreq=maxreq,
                                             abort_on=abort, oddkinds=abort or ('contra',)))
            chk.add_tlc(res, 'deviation:%s/maxreq=%d' % ('+'.join(devs), maxreq))
            if (inv is True and res.ok) or (inv is not True and res.violated != inv):
                raise Machinery('deviation %s (maxreq %d): expected %s, TLC says %s'
                                % (devs, maxreq, inv, res.violated))
            if inv:
                chk.notes.append('deviation %s breaks %s in the design model'
                                 % ('+'.join(devs), res.violated))

    # ---- 3. TLC behaviours of the model as coded -> cases for the real methods ---
    cases, kinds, seen, models = [], [], set(), {}

    def add(case, kind, model=None):
        k = key_of(case)
        if k in seen:
            return
        seen.add(k)
        cases.append(case)
        kinds.append(kind)
        if model is not None:
            models[len(cases) - 1] = model

    # direct: the model of the intended design (== the code, if no known deviation
    # is left in it); notify: the environment of the model in which stale
    # notifications stick supplies which stale notification arrives when
    nsim = 150 if quick else 2000
    # bulks: the model in which an odd bulk entry aborts the rest of the message
    # supplies which odd entry (contradicting final / stale / duplicate) sits
    # where in which bulk
    ALLODD = ('contra', 'stale', 'dup')
    for apis, mayclose, devs, share in (
            (['task', 'pilot', 'tmgr', 'pmgr'], False, [], 2.0),
            (['task', 'pilot', 'tmgr', 'pmgr'], True, [], 0.6),
            (['task', 'pilot', 'tmgr', 'pmgr'], False, ['DevStaleApplied'], 2.0),
            (['task', 'tmgr'], False, ['bulk'], 2.0),
            (['tmgr'], False, ['bulk', 3], 0.0 if quick else 0.15)):
        if not share:
            continue
        dump = tlc.scratch('rpsim_')
        try:
            res = tlc.run('Wait', 'Wait', 'MC.cfg', workers=1, timeout=900,
                          simulate='num=%d' % max(int(nsim * share), 1), depth=12,
                          seed=rng.randrange(10 ** 6), dump_dir=dump,
                          extra_files=mc_cfg(apis, nn=3, ne=3 if devs[1:] == [3] else 2,
                                             devs=[d for d in devs if d not in ('bulk', 3)],
                                             mayclose=mayclose, timeouts=(0, 1, 2, 4),
                                             invariants=['TypeOK'],
                                             oddkinds=ALLODD if devs[:1] == ['bulk'] else (),
                                             abort_on=ALLODD if devs[:1] == ['bulk'] else (),
                                             record=devs[:1] == ['bulk']))
            chk.add_tlc(res, 'simulate:%s%s' % ('+'.join(apis), '/' + str(devs[0]) if devs else ''))
            for f in tlc.sim_files(dump):
                case, model = case_from_behaviour(f)
                if case is None:
                    continue
                emb   = W.embedding(case['api'], 3, random.Random(rng.randrange(10 ** 9)))
                stale = case.pop('stale', None)
                odd   = case.pop('odd', None)
                real  = W.embed(case, emb)
                if devs[:1] == ['bulk']:
                    add(W.to_notify(real, policy='none', odd=odd, bulk=True),
                        'tlc-behaviour/notify-bulk')
                elif devs:
                    stale = [[emb(v) for v in vec] for vec in stale] if stale else None
                    add(W.to_notify(real, policy='none', stale=stale), 'tlc-behaviour/notify')
                else:
                    if model:
                        model = dict(model, val=[emb(v) for v in model['val']])
                    add(real, 'tlc-behaviour', model)
        finally:
            shutil.rmtree(dump, ignore_errors=True)
    n_tlc = len(cases)

    # ---- 4. small scope: exhaustive (thorough) or a seeded sample of it (quick); --
    #         a sample of it again through the notification paths
    nm = 2 if quick else 3
    pool = list(small_scope(nn_model=nm, n=nm))           # thorough: all 88200
    if quick:
        rng.shuffle(pool)
        pool = pool[:700]
    for c in pool:
        add(W.embed(c, W.embedding(c['api'], nm, random.Random(rng.randrange(10 ** 9)))), 'small-scope')
    for i, c in enumerate(rng.sample(pool, 500 if quick else 15000)):
        erng = random.Random(rng.randrange(10 ** 9))
        real = W.embed(c, W.embedding(c['api'], nm, erng))
        add(W.to_notify(real, erng, policy='echo' if i % 2 else 'random', bulk=i % 4 >= 2),
            'small-scope/notify')
    n_small = len(cases) - n_tlc

    # ---- 5. seeded random cases over the full state chains -----------------------
    for _ in range(500 if quick else 5000):
        add(W.random_case(rng), 'random')
    for i in range(500 if quick else 5000):
        add(W.to_notify(W.random_case(rng), rng, policy='random', bulk=i % 2 == 1), 'random/notify')
    # a cancellation races the execution of one task of a bulk
    for _ in range(400 if quick else 6000):
        add(W.race_case(rng), 'race/notify-bulk')
    n_rand = len(cases) - n_tlc - n_small

    # ---- 6. run the real methods, validate every trace ----------------------------
    traces, res = validate(chk, cases, kinds)
    chk.evaluations = len(cases)
    same = 0
    for i, m in models.items():
        last = traces[i]['events'][-1]
        if last['ev'] == 'Return' and last['tick'] == m['tick'] and \
           (last['shape'], last['val']) == ((m['shape'], m['val']) if m['shape'] != 'none' else ('none', [])):
            same += 1
    chk.notes.append('%d of %d TLC behaviours which end with a return: the real method returned '
                     'at the same tick with the same value as the model of the intended '
                     'design' % (same, len(models)))
    n_not = sum(1 for c in cases if c.get('mode') == 'notify')
    n_div = sum(1 for t in traces if diverged(t))
    n_blk = sum(1 for c in cases if c.get('mode') == 'notify'
                  for tick in [c['notes0']] + c['notes'] for m in tick
                  if m and isinstance(m[0], list) and len(m) > 1)
    n_con = sum(1 for t in traces if any(a for e in t['events'] if e['ev'] == 'Return' for a in e['alt']))
    n_exc = sum(t['notify_raised'] for t in traces)
    chk.notes.append('cases: %d from TLC behaviours, %d small-scope, %d random; %d of them apply '
                     'the trajectory through the real notification paths (duplicates, stale and '
                     'post-final notifications included; %d multi-entry bulks; %d traces with '
                     'contradicting final notifications for an entity); client-side state differed '
                     'from the furthest state notified in %d traces; the notification path raised '
                     '%d times (logged by the listener, rest of that message lost)'
                     % (n_tlc, n_small, n_rand, n_not, n_blk, n_con, n_div, n_exc))
    for i in (0, n_tlc, n_tlc + n_small):
        if i < len(traces):
            chk.sample({'kind': kinds[i], 'call': {k: v for k, v in traces[i].items() if k != 'events'},
                        'events': traces[i]['events'][:8], 'verdict': res[i]})
    chk.assumptions += [
        'the wait loops observe the entities only between two sleeps: the virtual clock moves '
        'the entities inside the fake time.sleep (one tick = the 0.1 s poll interval)',
        'entity trajectories are legal in the state model (forward in the numeric order, a '
        'final state is never left); they are written into Task._state / Pilot._state, or '
        '(notify cases) delivered as state notifications to the real _state_sub_cb of the manager, '
        'one entry per message or (tasks) bulks of several entries, mixed with duplicates, stale, '
        'post-final non-final and contradicting final entries (CANCELED, then DONE / FAILED); there '
        'the actual state is the furthest state ever notified; an entity with contradicting final '
        'notifications may hold any of the final states notified',
        'the pubsub listener is modelled as ru.zmq.Subscriber._listener: an exception leaving the '
        'subscriber callback is logged, the listener goes on, the rest of that message is lost; '
        'every entry of a message counts as notified',
        'pilot notifications are delivered one pilot per message (PilotManager._state_sub_cb leaves '
        'a message after its first pilot: not judged here)',
        'a call is due when every awaited entity has been in a requested state or final at a '
        'poll instant (in or past the earliest requested state for wait_tasks), or the timeout '
        'has elapsed; exact-state matching of Task.wait, Pilot.wait and wait_pilots is accepted',
        'wait_pilots(uids=None) may report only the pilots which were not final at the call']


def replay(chk, obj):
    case = obj['case']
    validate(chk, [case], [obj.get('kind', 'replay')])
