'''
C09: launch commands enact the placement they were given.

1. the command interpreter + monitor are checked against the repository's own
   recorded command lines (accepted) and against mutations of them (rejected);
2. the Launch design model is checked exhaustively by TLC (placement domain x
   configurations x history prefixes); in the thorough tier every deviation
   constant must be detected;
3. TLC behaviours of the model (sequences of generations on one instance, or a
   find_launcher call over a configured order) are replayed on REAL launcher
   instances / a real ResourceManager (spec -> code), with placements scaled
   back across the host-list limit of the code;
4. seeded / exhaustive enumeration: configurations x placements x history
   prefixes of length <= 3; every generation is compared with the generation
   of the same task on a fresh instance (command string + file contents);
5. every recorded trace is judged by the LaunchTrace monitor.
'''

import copy
import random
import shutil
import itertools

from .. import tlc, tracecheck
from ..core import Machinery
from ..rigs import launch_rig as R

INVARIANTS = ['InvProcCount', 'InvExactNodes', 'InvPins', 'InvRefuse', 'InvOrder',
              'InvResFixed']
PROPERTIES = ['ActHistoryFree']
DEVS = ['DevDplaceAccum', 'DevPalsHull', 'DevForkShrink', 'DevForkPrefix', 'DevMptCount',
        'DevSrunFirst', 'DevFindLast', 'DevOptLeak']

# deviation -> (invariants / properties left in the cfg, acceptable verdicts)
DEV_EXPECT = {
    'DevDplaceAccum': (['InvProcCount', 'InvExactNodes', 'InvPins'], ['ActHistoryFree']),
    'DevPalsHull'   : (None, ['InvPins']),
    'DevForkShrink' : (None, ['InvRefuse', 'InvProcCount']),
    'DevForkPrefix' : (None, ['InvRefuse', 'InvExactNodes', 'InvOrder']),
    'DevMptCount'   : (None, ['InvProcCount']),
    'DevSrunFirst'  : (None, ['InvExactNodes']),
    'DevFindLast'   : (None, ['InvOrder']),
    'DevOptLeak'    : (['InvProcCount', 'InvExactNodes', 'InvPins'], ['ActHistoryFree']),
}

CHUNK = 90          # events per monitor trace (a contiguous segment of one instance's life)

# configured launch orders for find_launcher (rig configuration names)
# (order, configurations whose creation fails, host name of the agent's node)
ORDERS = [
    (['fork', 'mpirun'], [], 'n1'),
    (['ssh', 'fork', 'srun'], [], 'n1'),
    (['rsh', 'ssh', 'fork'], [], 'n1'),
    (['mpiexec_std', 'fork'], [], 'n1'),
    (['fork', 'ssh', 'mpirun_mpt', 'prte'], ['ssh'], 'n1'),
    (['jsrun_erf', 'jsrun', 'fork'], ['jsrun_erf'], 'n1'),
    (['aprun', 'fork', 'ibrun'], ['aprun', 'ibrun'], 'n1'),
    (['ibrun+empty', 'fork+pinned'], [], 'n1'),
    (['fork', 'ssh'], ['fork'], 'n1'),
    (['rsh', 'mpirun_dplace', 'ccmrun'], [], 'n1'),
    (['ssh', 'rsh'], [], 'n1'),
    # the agent's host name extends / is the FQDN of another node's name:
    # FORK must not take that node's tasks, the search falls through
    (['fork', 'ssh', 'srun'], [], 'n12'),
    (['fork', 'srun'], [], 'n1.cluster.org'),
    (['fork', 'rsh', 'mpirun'], [], 'c10'),
    (['fork', 'mpiexec_rf'], [], 'n12.cluster.org'),
]

AGENT_HOSTS = ['n1', 'n12', 'n1.cluster.org', 'c10', 'n12.cluster.org', 'n1.cluster']

# name a is a proper prefix of name b (model constant PrefixRel)
PREFIX_REL = [('n', 'n1'), ('n1', 'n12'), ('n1', 'n1.cluster.org')]
MODEL_ALIAS = ['n', 'n12', 'n1.cluster.org']


def tla_cfg(spec):
    return 'CfgO("%s", "%s", "%s", %s, "%s")' % (spec['m'], spec['fl'], spec['mode'],
                                                 'TRUE' if spec['vnew'] else 'FALSE', spec['opt'])


def mc_files(devs=(), maxranks=4, maxhist=3, invariants=None, props=None):
    orders = [o[0] for o in ORDERS[:4]]
    mod = ('---- MODULE MC ----\nEXTENDS Launch\nMCConfigs == AllConfigs\nMCOrders == {%s}\n'
           'MCPrefix == {%s}\n====\n'
           % (', '.join('<<%s>>' % ', '.join(tla_cfg(R.spec_of(c)) for c in o) for o in orders),
              ', '.join('<<"%s", "%s">>' % ab for ab in PREFIX_REL)))
    cfg = ('CONSTANTS\n Nodes = {"n1", "n2", "n3"}\n Local = {"n1", "localhost"}\n'
           ' AliasNodes = {%s}\n PrefixRel <- MCPrefix\n'
           ' MaxRanks = %d\n Thr = 2\n MaxHist = %d\n Configs <- MCConfigs\n Orders <- MCOrders\n'
           ' CoreLayouts = {%s}\n GpuLayouts = {%s}\n'
           % (', '.join('"%s"' % x for x in MODEL_ALIAS), maxranks, maxhist,
              ', '.join('"%s"' % x for x in R.CORE_LAYOUTS),
              ', '.join('"%s"' % x for x in R.GPU_LAYOUTS)))
    for d in DEVS:
        cfg += ' %s = %s\n' % (d, 'TRUE' if d in devs else 'FALSE')
    cfg += 'SPECIFICATION Spec\nCHECK_DEADLOCK FALSE\n'
    for i in (INVARIANTS if invariants is None else invariants):
        cfg += 'INVARIANT %s\n' % i
    for p in (PROPERTIES if props is None else props):
        cfg += 'PROPERTY %s\n' % p
    return {'MC.tla': mod, 'MC.cfg': cfg}


# ------------------------------------------------------------------------------
# placement domain of the design model, in python (same constructor Mk)
#
def all_placements():
    out = []
    for k in range(1, 5):
        for rs in itertools.product(R.BASE_NODES, repeat=k):
            for cl in R.CORE_LAYOUTS:
                for gl in R.GPU_LAYOUTS:
                    for mpi in (False, True):
                        out.append(R.mk(list(rs), 1, cl, gl, mpi))
    for k in range(1, 3):
        for rs in itertools.product(R.BASE_NODES, repeat=k):
            for cl in R.CORE_LAYOUTS:
                for gl in R.GPU_LAYOUTS:
                    out.append(R.mk(list(rs), 2, cl, gl, True))
    return out


def extra_placements():
    '''outside the model's node set: the executor's node under its other name,
       tasks without executable, the host-list limit itself (42 / 43 entries,
       42 / 43 distinct nodes)'''
    out = []
    # nodes whose names are prefix-related to an executor host name: a proper
    # prefix of it, an extension of it, short name vs FQDN
    for a in R.ALIAS_NODES + ['n1', 'n2']:
        out.append(R.mk([a], 1, 'one', 'none', False))
    for a in R.ALIAS_NODES:
        out.append(R.mk([a], 1, 'pair', 'own', True))
    for a, b in [('n1', 'n12'), ('n12', 'n1.cluster.org'), ('n', 'n1'), ('c1', 'c10'),
                 ('n12.cluster.org', 'n12'), ('n1.cluster', 'n1.cluster.org')]:
        out.append(R.mk([a, b, a], 1, 'stride', 'none', True))
    out += [R.mk(['localhost'], 1, 'one', 'none', False),
           R.mk(['localhost'], 1, 'pair', 'own', True),
           R.mk(['localhost', 'n2'], 1, 'one', 'none', True),
           R.mk(['n1'], 1, 'one', 'none', False, exe=False),
           R.mk(['n2', 'n3'], 1, 'pair', 'none', True, exe=False)]
    for nr, nn in [(42, 1), (43, 1), (42, 3), (43, 3), (44, 2), (42, 42), (43, 43), (46, 44),
                   (43, 42), (86, 43)]:
        out.append(R.boundary(nr, nn, 'one', 'none', True))
    out.append(R.boundary(43, 43, 'stride', 'own', False))
    out.append(R.boundary(44, 4, 'gap', 'two', True))
    return out


def hist_tasks():
    '''the history tasks of the design model'''
    n1, n2, n3 = R.BASE_NODES
    return [R.mk([n1], 1, 'one', 'none', False), R.mk([n2], 1, 'rev', 'own', True),
            R.mk([n1, n2], 1, 'pair', 'own', True), R.mk([n3], 2, 'stride', 'shared', True),
            R.mk([n2, n2, n3], 1, 'stride', 'shared', True),
            R.mk([n1, n2, n3, n1], 1, 'gap', 'two', False)]


def contiguous(cores):
    cs = sorted(cores)
    return cs == list(range(cs[0], cs[0] + len(cs))) if cs else True


# ------------------------------------------------------------------------------
def classify(trace, clause, ev):
    '''input class of a failing event (known-findings matching)'''
    spec = trace['cfg']
    name = '%s/%s/%s' % (spec['m'], spec['fl'], spec['mode'])
    if ev.get('ev') == 'Find':
        return 'find_launcher'
    if spec['m'] == 'FORK' and clause in ('C09.RefuseNotShrink', 'C09.ExactNodes') \
            and len(ev['task']['p']) == 1 and ev['task']['p'][0]['node'] not in trace['local']:
        return '%s: task on a node other than the executor\'s' % name
    if clause == 'C09.Pins':
        if any(not contiguous(r['cores']) for r in ev['task']['p']):
            return '%s: rank with a non-contiguous core set' % name
        return '%s: contiguous core sets' % name
    if clause == 'C09.HistoryFree':
        return '%s: after earlier generations' % name
    return name


def describe(trace, detail, ev):
    d = detail or {}
    if ev.get('ev') == 'Find':
        return ('agent host %s, order=%s can_launch=%s returned #%d for a task on %s'
                % (trace['local'][0], ev['order'], ev['cans'], ev['sel'],
                   [r['node'] for r in ev['task']['p']][:6]))
    return ('cfg=%s (executor on %s) placement=%s can_launch=%s cmd=%r files=%r'
            % (trace.get('cfgname'), trace['local'][0], [(r['node'], r['cores'], r['gpus']) for r in ev['task']['p']][:6]
               if 'task' in ev else '-', ev.get('can'), d.get('raw', ''), d.get('files', []))[:900])


class Batch(object):
    '''traces + what is needed to report on them'''

    def __init__(self):
        self.traces, self.details, self.inputs = [], [], []

    def add_instance(self, cfgname, pls, fresh, openmp=False, kind='enum'):
        '''one real instance, generations for pls in order; cut into monitor
           traces of CHUNK events.  The replay input of a chunk is the whole
           history of the instance up to the end of the chunk.'''
        trace, details = R.run_trace(cfgname, pls, fresh, openmp=openmp)
        for lo in range(0, len(pls), CHUNK):
            t = dict(trace)
            t['events'] = trace['events'][lo:lo + CHUNK]
            self.traces.append(t)
            self.details.append(details[lo:lo + CHUNK])
            self.inputs.append({'kind': kind, 'cfgname': cfgname, 'openmp': openmp,
                                'lo': lo, '_pls': pls})

    def add_find(self, order, broken, pls, hostname=R.LOCAL):
        self.traces.append(R.find_trace(order, broken, pls, hostname))
        self.details.append(None)
        self.inputs.append({'kind': 'find', 'order': order, 'broken': broken, '_pls': pls,
                            'hostname': hostname, 'lo': 0})


def report(chk, batch, notes=True):
    '''validate the batch with the monitor and report violations of chk.pid'''
    res, st = tracecheck.validate('Launch', 'LaunchTrace', '', batch.traces, workers=1)
    chk.states      += st['states']
    chk.transitions += st['transitions']
    chk.cmds.append(st['cmd'])
    nviol = 0
    for tr, det, inp, errs in zip(batch.traces, batch.details, batch.inputs, res):
        chk.traces += 1
        for ev in tr['events']:
            chk.evaluations += 1
            if ev['ev'] == 'Gen':
                chk.nontrivial.add((tr['cfgname'], ev['out'], ev['c']['via'], len(ev['task']['p']),
                                    len({r['node'] for r in ev['task']['p']}),
                                    len(ev['task']['p'][0]['cores']), ev['task']['mpi']))
            else:
                chk.nontrivial.add(('find', tuple(ev['order']), tuple(ev['cans']), ev['sel']))
        for err in errs:
            clause, _, idx = err.partition('@')
            if clause.split('.')[0] == 'X':
                raise Machinery('monitor reports %s for trace of %s' % (err, tr['cfgname']))
            if clause.split('.')[0] != chk.pid:
                continue
            i  = int(idx) - 1
            ev = tr['events'][i]
            pls = inp['_pls'][:inp['lo'] + i + 1]
            obj = {'rig': 'launch', 'kind': inp['kind'], 'clause': clause,
                   'pls': pls if inp['kind'] != 'find' else [inp['_pls'][i]]}
            for k in ('cfgname', 'openmp', 'order', 'broken', 'hostname'):
                if k in inp:
                    obj[k] = inp[k]
            obj['event'] = ev
            obj['detail'] = det[i] if det else {}
            nviol += 1
            chk.violation(clause, classify(tr, clause, ev),
                          'real launcher violates %s: %s'
                          % (clause, describe(tr, det[i] if det else None, ev)), obj)
    return nviol


# ------------------------------------------------------------------------------
def selftest(chk):
    '''interpreter + monitor against the repository's recorded command lines'''
    if not R.digest_selftest():
        raise Machinery('config_digest does not see changes of lm_cfg / rm_info')
    traces, labels = R.recorded_traces()
    if len(traces) < 40:
        raise Machinery('only %d recorded launch commands found' % len(traces))
    muts, expect = [], []
    for tr in traces:
        ev, spec = tr['events'][0], tr['cfg']
        m = copy.deepcopy(tr)
        m['events'][0]['c']['np'] += 1
        muts.append(m); expect.append('C09.ProcCount')
        if ev['c']['hosts'] and spec['m'] != 'FORK':
            m = copy.deepcopy(tr)
            m['events'][0]['c']['hosts'].append('zz9')
            muts.append(m); expect.append('C09.ExactNodes')
            m = copy.deepcopy(tr)
            m['events'][0]['c']['hosts'] = m['events'][0]['c']['hosts'][1:]
            muts.append(m); expect.append('C09.ExactNodes')
        if ev['c']['pins']:
            m = copy.deepcopy(tr)
            m['events'][0]['c']['pins'][-1]['cores'].append(63)
            muts.append(m); expect.append('C09.Pins')
    res, st = tracecheck.validate('Launch', 'LaunchTrace', '', traces + muts, workers=1)
    chk.states += st['states']
    chk.transitions += st['transitions']
    for lab, errs in zip(labels, res[:len(traces)]):
        if errs:
            raise Machinery('recorded command %s of the repository is rejected by the '
                            'interpreter / monitor: %s' % (lab, errs))
    for m, exp, errs in zip(muts, expect, res[len(traces):]):
        got = {e.partition('@')[0] for e in errs}
        if exp and exp not in got:
            raise Machinery('mutated recorded command (%s) not rejected: %s / %s'
                            % (exp, m['cfgname'], m['events'][0]['c']))
    chk.notes.append('%d recorded command lines of tests/unit_tests/test_lm/test_cases accepted, '
                     '%d mutations of them rejected' % (len(traces), len(muts)))


# ------------------------------------------------------------------------------
def behaviours_to_batch(dump, rng, batch, fresh):
    '''TLC behaviours -> generations on real instances / find_launcher calls'''
    n = 0
    for f in tlc.sim_files(dump):
        steps = tlc.parse_sim_file(f)
        if not steps:
            continue
        spec = steps[0][2].get('cfg')
        gens, find = [], None
        for act, args, st in steps[1:]:
            cur = st.get('cur')
            if not isinstance(cur, dict):
                continue
            if cur.get('kind') == 'gen':
                gens.append(R.from_spec_task(cur['T']))
            elif cur.get('kind') == 'find':
                find = (cur['ord'], R.from_spec_task(cur['T']))
        if find:
            order = [rng.choice(R.cfgnames_for(dict(o))) for o in find[0]]
            if len({R.CONFIGS[c][0] for c in order}) == len(order):
                batch.add_find(order, [], [find[1]])
                n += 1
        if gens:
            names = R.cfgnames_for(dict(spec))
            if not names:
                raise Machinery('no rig configuration for %s' % spec)
            cfgname = rng.choice(names)
            # the model's limit is 2, the code's 42: scale the placements back
            factor = R.SCALE if R.limit_sensitive(cfgname) and rng.random() < 0.8 else 1
            pls = [R.scale(p, factor) for p in gens]
            batch.add_instance(cfgname, pls + pls[:1], fresh, kind='tlc-behaviour')
            n += 1
    return n


def enum_batch(tier, rng, batch, fresh):
    quick = tier == 'quick'
    plac  = all_placements()
    extra = extra_placements()
    hist  = hist_tasks()
    for ci, base in enumerate(R.BASES):
        sens = R.limit_sensitive(base)
        if quick:
            body = rng.sample(plac, 105)
        else:
            body = list(plac)
            rng.shuffle(body)
        body = body + extra
        if sens:
            sc = rng.sample(plac, 12 if quick else 160)
            body += [R.scale(p) for p in sc]
        # the options section of the launch method config: absent / empty /
        # pinned.  Every method sees two of the classes per run (which two
        # rotates with the configuration), a method that reads an option
        # (IBRUN) all three, each behind two different histories.
        if R.spec_of(base)['m'] == 'IBRUN':
            runs = [(o, plen) for o in R.OPTS for plen in ([1, 3] if quick else [2, 3])]
        else:
            runs = [(R.OPTS[(ci + k) % 3], plen) for k, plen in enumerate([1, 3] if quick else [2, 3])]
        for inst_no, (opt, plen) in enumerate(runs):
            cfgname = R.variant(base, opt)
            # histories: tasks of different sizes, both orders (hist is ordered
            # by size; odd instances run theirs largest first)
            prefix = sorted(rng.sample(hist, plen), key=lambda p: len(p['p']),
                            reverse=bool(inst_no % 2))
            if sens and inst_no % 2 == 1:
                prefix = [R.scale(p) if rng.random() < 0.5 else p for p in prefix]
            seg = list(body) if not quick else rng.sample(body, len(body))
            # every segment of the instance's life (one monitor trace) ends by
            # generating two of its earlier tasks again
            pls, room = list(prefix), CHUNK - 2 - len(prefix)
            while seg:
                part, seg = seg[:room], seg[room:]
                pls += part + [part[0], rng.choice(part)]
                room = CHUNK - 2
            batch.add_instance(cfgname, pls, fresh,
                               openmp=(base.startswith('jsrun') and inst_no % 2 == 1))
    # find_launcher over configured orders
    single = [p for p in extra if len(p['p']) == 1]
    ftasks = hist + single + [p for p in extra if not p['exe'] and len(p['p']) > 1] \
             + extra[-2:] + rng.sample(plac, 10 if quick else 60)
    for order, broken, host in ORDERS:
        batch.add_find(order, broken, ftasks, host)
    if not quick:
        names = sorted(R.CONFIGS)
        for _ in range(60):
            order, seen = [], set()
            for c in rng.sample(names, rng.randint(1, 5)):
                if R.CONFIGS[c][0] not in seen:
                    seen.add(R.CONFIGS[c][0])
                    order.append(R.variant(c, rng.choice(R.OPTS)))
            broken = [c for c in order[1:] if rng.random() < 0.25]     # at least one usable
            rng.shuffle(order)
            batch.add_find(order, broken, single + rng.sample(ftasks, 12), rng.choice(AGENT_HOSTS))


# ------------------------------------------------------------------------------
def run(chk, tier, seed):
    rng   = random.Random(seed * 6151 + 9)
    quick = tier == 'quick'

    # ---- 1. trusted base -------------------------------------------------------
    selftest(chk)

    # ---- 2. design model, exhaustive ---------------------------------------------
    res = tlc.run('Launch', 'MC', 'MC.cfg', workers=8, timeout=900,
                  extra_files=mc_files(maxranks=3 if quick else 4, maxhist=1 if quick else 3))
    chk.add_tlc(res, 'exhaustive')
    if not res.ok:
        raise Machinery('design model Launch violates %s (intended design must hold):\n%s'
                        % (res.violated, res.trace[:3000]))
    chk.exhaustive = True

    if not quick:
        for dev in DEVS:
            invs, want = DEV_EXPECT[dev]
            r = tlc.run('Launch', 'MC', 'MC.cfg', workers=8, timeout=900,
                        extra_files=mc_files(devs=[dev], maxhist=2, invariants=invs))
            chk.add_tlc(r, 'deviation:' + dev)
            if r.ok or r.violated not in want:
                raise Machinery('deviation %s not detected by the model (got %s)'
                                % (dev, r.violated))
            chk.notes.append('deviation %s breaks %s in the design model' % (dev, r.violated))

    fresh = R.FreshCache()
    batch = Batch()
    try:
        # ---- 3. TLC behaviours -> real launchers -----------------------------------
        dump = tlc.scratch('rpsim_')
        try:
            r = tlc.run('Launch', 'MC', 'MC.cfg', workers=1, timeout=600,
                        simulate='num=%d' % (150 if quick else 1500), depth=8,
                        seed=rng.randrange(10 ** 6), dump_dir=dump,
                        extra_files=mc_files(invariants=[], props=[]))
            chk.add_tlc(r, 'simulate')
            nb = behaviours_to_batch(dump, rng, batch, fresh)
        finally:
            shutil.rmtree(dump, ignore_errors=True)
        if nb < (50 if quick else 500):
            raise Machinery('only %d TLC behaviours could be replayed' % nb)
        chk.notes.append('%d TLC behaviours replayed on real launchers' % nb)

        # ---- 4. configurations x placements x history prefixes ---------------------
        enum_batch(tier, rng, batch, fresh)
    finally:
        fresh.close()

    # ---- 5. the monitor judges every recorded trace --------------------------------
    report(chk, batch)
    for tr, det in zip(batch.traces, batch.details):
        if det and tr['cfgname'] in ('mpiexec_rf', 'jsrun_erf', 'mpirun_mpt'):
            i = len(tr['events']) // 2
            chk.sample({'cfgname': tr['cfgname'], 'event': tr['events'][i], 'cmd': det[i]['raw'],
                        'files': det[i]['files']})
    raised = {}
    for tr, det in zip(batch.traces, batch.details):
        for ev, d in zip(tr['events'], det or []):
            if ev.get('out') == 'raise':
                raised.setdefault((tr['cfgname'], d['why'][:80]), 0)
                raised[(tr['cfgname'], d['why'][:80])] += 1
    for (c, why), k in sorted(raised.items()):
        chk.notes.append('get_launch_cmds of %s raised after can_launch accepted (%d x): %s'
                         % (c, k, why))
    chk.assumptions += [
        'the command interpreter of launch_rig.py reads each launcher\'s command line and files as '
        'the launcher executable would (validated against the repository\'s recorded commands)',
        'len(slots) equals description.ranks (guaranteed by the scheduler, C02)',
        'jsrun is given the resource-set slot structure of continuous_jsrun; ERF host numbers are '
        'node indices',
        'ibrun: only the process count, determinism and history-freedom are judged (offset semantics '
        'cannot be established offline)',
        'srun --nodelist / PALS host file + --ppn name distinct hosts only: the per-node '
        'multiplicity is the launcher\'s fill order and not judged']


def replay(chk, obj):
    fresh = R.FreshCache()
    batch = Batch()
    try:
        if obj['kind'] == 'find':
            batch.add_find(obj['order'], obj['broken'], obj['pls'], obj.get('hostname', R.LOCAL))
        else:
            batch.add_instance(obj['cfgname'], obj['pls'], fresh, openmp=obj.get('openmp', False),
                               kind=obj['kind'])
    finally:
        fresh.close()
    report(chk, batch)
