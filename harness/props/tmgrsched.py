'''
C12: each task is bound to exactly one eligible pilot by the client side
scheduler.

 1. TmgrSched design model (both policies) checked exhaustively by TLC,
 2. (thorough) every known deviation switched on must break its invariant,
 3. TLC behaviours of the model (intended design and code-as-is) replayed as
    callback sequences into the REAL RoundRobin / Backfilling objects,
 4. directed small histories + seeded random callback sequences,
 5. every recorded trace validated by the TmgrSchedTrace monitor.
'''

import os
import re
import glob
import random
import shutil
import itertools

from .. import tlc, tracecheck
from ..core import Machinery
from ..rigs import tmgr_rig as R

PID = 'C12'

INVARIANTS = ['TypeOK', 'InvRecords', 'InvNoSchedulerFailure', 'InvForwardOnce', 'InvForwardedIfEligible', 'InvNamed', 'InvOnlyAdded',
              'InvWaitHeld', 'InvRRBalanced', 'InvBFEligible', 'InvBFUsedReturns', 'InvUsedIsGhost']
DEVS = ['DevEarlyNotCleared', 'DevBFRaiseSkipsBatch', 'DevAddForgetsState',
        'DevContradictionRaises', 'DevHalfValidAborts', 'DevKnownPilotRaises']
# behaviours of 'the code as it was / is': everything but the regression class
DEVS_ASIS = ['DevEarlyNotCleared', 'DevBFRaiseSkipsBatch', 'DevContradictionRaises',
             'DevHalfValidAborts']

T4 = ['t1', 't2', 't3', 't4']
T3 = T4[:3]
P3 = ['p1', 'p2', 'p3']
P2 = P3[:2]
ACT, PEND = 'PMGR_ACTIVE', 'PMGR_ACTIVE_PENDING'


def scen(name, policy, tasks, pilots, named, cores, hwm, lo=ACT, hi=ACT,
         addst=('NEW', ACT), notif=(ACT, 'DONE'), maxb=3, maxp=2, half=False):
    '''half: commands may name pilots they cannot be applied to (half-valid commands)'''
    return dict(name=name, policy=policy, tasks=tasks, pilots=pilots, named=named, cores=cores,
                hwm=hwm, lo=lo, hi=hi, addst=addst, notif=notif, maxb=maxb, maxp=maxp, half=half)


# exhaustive scenarios: (quick?, scenario)
SCENARIOS = [
    (True,  scen('rr-3t3p', 'RR', T3, P3, {'t1': 'p1'}, {}, {p: 2 for p in P3},
                 addst=(ACT,), notif=('DONE',))),
    (True,  scen('bf-3t2p', 'BF', T3, P2, {'t1': 'p1'}, {'t2': 2}, {'p1': 2, 'p2': 1}, half=True)),
    (False, scen('bf-4t2p', 'BF', T4, P2, {'t1': 'p1'}, {'t2': 2}, {'p1': 2, 'p2': 1})),
    # bulks mixing tasks bound early to an added pilot / a pilot known through a notification
    # only / an unknown pilot with unbound tasks
    (True,  scen('rr-4t2p-mixed', 'RR', T4, P2, {'t1': 'p1', 't3': 'p2'}, {}, {p: 2 for p in P2},
                 addst=(ACT,), notif=(ACT,), maxp=1)),
    # pilot documents which are stale or contradict a final state already notified
    (True,  scen('rr-2t2p-contradict', 'RR', T3[:2], P2, {'t1': 'p1'}, {}, {p: 2 for p in P2},
                 addst=(ACT, 'FAILED'), notif=('DONE', 'CANCELED'), half=True)),
    (True,  scen('bf-2t2p-stale', 'BF', T3[1:], P2, {}, {}, {'p1': 2, 'p2': 1},
                 addst=('PMGR_LAUNCHING', ACT, 'CANCELED'), notif=(ACT, 'CANCELED', 'DONE'), maxp=1)),
    (False, scen('rr-4t3p', 'RR', T4, P3, {'t1': 'p1'}, {}, {p: 2 for p in P3},
                 addst=(ACT,), notif=('DONE',))),
    (False, scen('rr-4t2p-2named', 'RR', T4, P2, {'t1': 'p1', 't3': 'p2'}, {}, {p: 2 for p in P2},
                 addst=(ACT,), notif=('DONE',))),
    (False, scen('bf-4t2p-nonames', 'BF', T4, P2, {}, {'t2': 2}, {'p1': 2, 'p2': 1},
                 addst=(ACT,), notif=(ACT, 'DONE'), maxp=1)),
    (False, scen('bf-3t3p', 'BF', T3, P3, {'t1': 'p1'}, {'t2': 2}, {'p1': 2, 'p2': 1, 'p3': 2})),
    (False, scen('bf-4t2p-window', 'BF', T4, P2, {'t2': 'p2'}, {'t3': 2}, {'p1': 3, 'p2': 2},
                 lo=PEND, hi=ACT, addst=(PEND, 'DONE'), notif=(PEND, ACT, 'CANCELED'))),
]

# behaviours for the real code: a wider mix, simulation only
SIM_SCENARIOS = [
    scen('sim-rr', 'RR', T4, P3, {'t1': 'p1', 't4': 'p3'}, {}, {p: 2 for p in P3},
         addst=('NEW', ACT, 'FAILED'), notif=(ACT, 'DONE', 'FAILED'), half=True),
    scen('sim-bf', 'BF', T4, P3, {'t1': 'p1'}, {'t2': 2}, {'p1': 2, 'p2': 1, 'p3': 2},
         addst=('PMGR_LAUNCHING', ACT, 'CANCELED'), notif=(PEND, ACT, 'DONE', 'FAILED'), half=True),
    scen('sim-bf-window', 'BF', T4, P3, {'t3': 'p2'}, {'t4': 2}, {'p1': 3, 'p2': 2, 'p3': 1},
         lo=PEND, hi=ACT, addst=('NEW', PEND, ACT, 'DONE'), notif=(PEND, ACT, 'CANCELED', 'DONE'), half=True),
    scen('sim-bf-nonames', 'BF', T4, P3, {}, {'t1': 2}, {'p1': 2, 'p2': 2, 'p3': 4},
         addst=('NEW', ACT), notif=(ACT, 'DONE'), half=True),
]


# ------------------------------------------------------------------------------
def _q(x):
    return '"%s"' % x


def _fn(keys, d, default):
    return '(' + ' @@ '.join('%s :> %s' % (_q(k), _q(d.get(k, default)) if isinstance(default, str)
                                           else d.get(k, default)) for k in keys) + ')'


def mc_files(sc, devs=(), invariants=None):
    mod = ('---- MODULE MC ----\nEXTENDS TmgrSched\n'
           'MCTaskSeq == <<%s>>\nMCPilotSeq == <<%s>>\n'
           'MCNamed == %s\nMCCores == %s\nMCHwm == %s\n'
           'MCAddStates == {%s}\nMCNotif == {%s}\n====\n'
           % (', '.join(map(_q, sc['tasks'])), ', '.join(map(_q, sc['pilots'])),
              _fn(sc['tasks'], sc['named'], 'none'), _fn(sc['tasks'], sc['cores'], 1),
              _fn(sc['pilots'], sc['hwm'], 2),
              ', '.join(map(_q, sc['addst'])), ', '.join(map(_q, sc['notif']))))
    cfg = ('CONSTANTS\n Policy = "%s"\n TaskSeq <- MCTaskSeq\n PilotSeq <- MCPilotSeq\n'
           ' Named <- MCNamed\n Cores <- MCCores\n Hwm <- MCHwm\n BFLo = %d\n BFHi = %d\n'
           ' AddStates <- MCAddStates\n NotifStates <- MCNotif\n MaxBatch = %d\n MaxPBatch = %d\n'
           % (sc['policy'], R.pval(sc['lo']), R.pval(sc['hi']), sc['maxb'], sc['maxp']))
    for d in DEVS:
        cfg += ' %s = %s\n' % (d, 'TRUE' if d in devs else 'FALSE')
    cfg += ' HalfValid = %s\n' % ('TRUE' if sc.get('half') else 'FALSE')
    cfg += 'SPECIFICATION Spec\nCHECK_DEADLOCK FALSE\n'
    for i in (INVARIANTS if invariants is None else invariants):
        cfg += 'INVARIANT %s\n' % i
    return {'MC.tla': mod, 'MC.cfg': cfg}


def rig_cfg(sc, explicit=()):
    '''rig arguments for a scenario: hwm = pilot cores at 100 percent'''
    return {'policy': sc['policy'], 'tasks': list(sc['tasks']), 'pilots': list(sc['pilots']),
            'named': dict(sc['named']), 'cores': dict(sc['cores']), 'pcores': dict(sc['hwm']),
            'hwm_pct': 100, 'lo': sc['lo'], 'hi': sc['hi'], 'explicit_sandbox': list(explicit)}


# ------------------------------------------------------------------------------
_ACT = re.compile(r'^\\\* <(\w+)(?:\((.*)\))? line \d+', re.M)


def script_from_behaviour(path):
    '''callback sequence of one TLC behaviour'''
    ops = []
    for m in _ACT.finditer(open(path).read()):
        name, args = m.group(1), m.group(2)
        if name == 'Submit':
            ops.append(['submit', list(tlc.parse_value(args))])
        elif name == 'AddPilots':
            f, rev = tlc.parse_value('<<%s>>' % args)
            ops.append(['add', [[p, f[p]] for p in sorted(f, reverse=bool(rev))]])
        elif name == 'RemovePilots':
            P, rev = tlc.parse_value('<<%s>>' % args)
            ops.append(['remove', sorted(P, reverse=bool(rev))])
        elif name == 'PilotState':
            p, s = tlc.parse_value('<<%s>>' % args)
            ops.append(['pstate', p, s])
        elif name == 'TaskStates':
            ops.append(['tstates', list(tlc.parse_value(args)), 'DONE'])
    return ops


# directed small histories (small-scope, independent of the seed)
def directed():
    base = scen('directed', 'RR', T4, P3, {'t1': 'p1'}, {'t2': 2}, {'p1': 2, 'p2': 1, 'p3': 2})
    hist = [
        # a named task waits for its pilot; the pilot is added, removed, added again
        [['submit', ['t1']], ['add', [['p1', ACT]]], ['remove', ['p1']], ['add', [['p1', ACT]]]],
        # a named task and an unnamed one finish in the same notification
        [['submit', ['t1']], ['submit', ['t3']], ['add', [['p1', ACT]]], ['tstates', ['t1', 't3'], 'DONE']],
        # a task placed before its pilot was removed and added again finishes together
        # with one placed afterwards
        [['add', [['p1', ACT]]], ['submit', ['t3']], ['remove', ['p1']], ['add', [['p1', ACT]]],
         ['submit', ['t4']], ['tstates', ['t3', 't4'], 'DONE']],
        # the same while a third task waits for the pilot, which is at its high-water mark
        [['add', [['p1', ACT]]], ['submit', ['t3']], ['remove', ['p1']], ['add', [['p1', ACT]]],
         ['submit', ['t2']], ['submit', ['t4']], ['tstates', ['t2', 't3'], 'DONE']],
        # named task for a pilot which is already added / removed
        [['add', [['p1', ACT], ['p2', ACT]]], ['submit', ['t1', 't2', 't3']], ['remove', ['p1']],
         ['submit', ['t4']], ['tstates', ['t1', 't2', 't3', 't4'], 'DONE']],
        # tasks wait for an eligible pilot, the pilot becomes active later, fills up, drains
        [['submit', ['t2', 't3', 't4']], ['add', [['p2', 'NEW']]], ['pstate', 'p2', ACT],
         ['add', [['p3', ACT]]], ['tstates', ['t2'], 'DONE'], ['tstates', ['t3', 't4'], 'FAILED'],
         ['pstate', 'p2', 'DONE'], ['pstate', 'p2', 'FAILED']],
        # a removed pilot dies; it is added again with a document which still says ACTIVE
        [['add', [['p1', ACT]]], ['remove', ['p1']], ['pstate', 'p1', 'CANCELED'],
         ['add', [['p1', ACT]]], ['submit', ['t3', 't4']]],
        [['submit', ['t3']], ['add', [['p2', ACT]]], ['tstates', ['t3'], 'DONE'], ['remove', ['p2']],
         ['pstate', 'p2', 'FAILED'], ['submit', ['t4']], ['add', [['p2', ACT]]]],
        # the ACTIVE notification overtakes the add message, whose document says LAUNCHING
        [['pstate', 'p1', ACT], ['add', [['p1', 'PMGR_LAUNCHING']]], ['submit', ['t3', 't4']]],
        [['submit', ['t3', 't1']], ['pstate', 'p1', ACT], ['add', [['p1', 'NEW']]]],
        # the document contradicts a final state which was already notified
        [['pstate', 'p1', 'DONE'], ['submit', ['t1', 't3']], ['add', [['p1', 'FAILED']]],
         ['submit', ['t4']], ['remove', ['p1']]],
        [['pstate', 'p2', 'DONE'], ['submit', ['t3']], ['add', [['p1', ACT], ['p2', 'CANCELED']]]],
        # ... while another pilot serves: a task named to the half added pilot finishes
        # together with another one; a batch is spread over the added pilots
        [['add', [['p2', ACT]]], ['pstate', 'p1', 'DONE'], ['add', [['p1', 'FAILED']]],
         ['submit', ['t1', 't3']], ['tstates', ['t1', 't3'], 'DONE']],
        [['add', [['p2', ACT]]], ['pstate', 'p1', 'DONE'], ['add', [['p1', 'CANCELED']]],
         ['submit', ['t3', 't4']]],
        # half-valid remove commands: a pilot which was never added / is removed already,
        # after or before a valid one; tasks arrive afterwards
        [['add', [['p1', ACT], ['p2', ACT]]], ['remove', ['p1', 'p3']], ['submit', ['t3', 't4']]],
        [['add', [['p1', ACT], ['p2', ACT]]], ['remove', ['p3', 'p1']], ['submit', ['t3', 't4']]],
        [['add', [['p1', ACT], ['p2', ACT]]], ['remove', ['p2']], ['submit', ['t3']], ['remove', ['p1', 'p2']],
         ['submit', ['t4']], ['add', [['p3', ACT]]]],
        [['submit', ['t2', 't3']], ['add', [['p1', ACT]]], ['remove', ['p1', 'p2']], ['tstates', ['t2'], 'DONE']],
        # half-valid add commands: a pilot which is added already, after or before a new one
        [['add', [['p2', ACT]]], ['submit', ['t1']], ['add', [['p2', ACT], ['p1', ACT]]], ['submit', ['t3', 't4']]],
        [['add', [['p2', ACT]]], ['submit', ['t1']], ['add', [['p1', ACT], ['p2', ACT]]], ['submit', ['t3', 't4']],
         ['remove', ['p1']]],
        [['add', [['p1', ACT]]], ['add', [['p1', 'DONE']]], ['submit', ['t3']], ['remove', ['p2']], ['submit', ['t4']]],
        # round robin over a changing pilot list
        [['add', [['p1', ACT], ['p2', ACT], ['p3', ACT]]], ['submit', ['t2', 't3']], ['remove', ['p2']],
         ['submit', ['t4']], ['submit', ['t1']]],
    ]
    # early bound tasks of several bulks wait for the same pilot
    two = {'t1': 'p1', 't3': 'p1'}
    hist2 = [
        (two, [['submit', ['t1']], ['submit', ['t3']], ['submit', ['t2']], ['add', [['p1', ACT]]]]),
        (two, [['submit', ['t1', 't2']], ['add', [['p2', ACT]]], ['submit', ['t3', 't4']],
               ['add', [['p1', 'NEW']]], ['tstates', ['t1', 't3'], 'DONE']]),
    ]
    out = []
    for pol in ('RR', 'BF'):
        for ops in hist:
            sc = dict(base, policy=pol)
            out.append((rig_cfg(sc, explicit=['p3']), ops))
        for named, ops in hist2:
            sc = dict(base, policy=pol, named=named)
            out.append((rig_cfg(sc, explicit=['p3']), ops))
    return out


def mixed_bulks():
    '''one bulk mixing the four kinds of task - bound early to an added pilot (p1), to a
       pilot known through a state notification only (p2), to an unknown pilot (p3), not
       bound - in every order, for both policies; the two pilots are added afterwards'''
    out = []
    for k, perm in enumerate(itertools.permutations(['p1', 'p2', 'p3', 'none'])):
        named = {t: p for t, p in zip(T4, perm) if p != 'none'}
        for pol in ('RR', 'BF'):
            sc  = scen('mixed', pol, T4, P3, named, {}, {'p1': 2, 'p2': 2, 'p3': 2})
            sub = [['submit', T4]] if (k + (pol == 'BF')) % 2 == 0 else \
                  [['submit', T4[:k % 3 + 1]], ['submit', T4[k % 3 + 1:]]]
            ops = [['pstate', 'p2', ACT], ['add', [['p1', ACT]]]] + sub + \
                  [['add', [['p2', 'NEW']]], ['add', [['p3', ACT]]], ['tstates', T4, 'DONE']]
            out.append((rig_cfg(sc), ops))
    return out


# clauses about the fate of a task inside the scheduler, as C05 reports them
C05_NAME = {'C12.FailedByScheduler' : 'C05.BulkFailedByScheduler',
            'C12.WaitWithoutPilot'  : 'C05.TaskLostInScheduler',
            'C12.ForwardOnceMissing': 'C05.TaskStuckInScheduler',
            'C12.ForwardOnce'       : 'C05.TaskForwardedTwice'}


# ------------------------------------------------------------------------------
D14 = 'early-bound task, pilot added again (base.control_cb leaves _early[pid])'
D15 = 'backfilling: final notification of an early-bound task (update_tasks raises)'
D15R = 'backfilling: final notification of a task placed before its pilot was re-added (update_tasks raises)'
CTR  = ('add_pilots document contradicts a final state already notified '
        '(ValueError from _pilot_state_progress leaves the pilot half added)')
STALE = 'pilot added with a document older than the state already notified or added'
BULK  = 'a bulk is failed by the scheduler component (an exception left work(), work_cb fails the bulk)'
OTHER = 'other history'
POLICY_NAME = {'RR': 'RoundRobin', 'BF': 'Backfilling'}


def classify(trace, clause):
    '''history class of a failing trace (for known-findings matching)'''
    evs = trace['events']
    if any(e['ev'] == 'Submit' and e['failed'] for e in evs):
        return BULK
    if any(e['ev'] == 'AddPilots' and e['raised'] == 'ValueError' for e in evs):
        return CTR
    if clause == 'C12.ForwardOnce':
        cnt, only_add = {}, True
        for e in evs:
            for f in e['fwd']:
                cnt[f['t']] = cnt.get(f['t'], 0) + 1
                if cnt[f['t']] > 1 and not (e['ev'] == 'AddPilots' and trace['named'][f['t']] == f['p']):
                    only_add = False
        return D14 if only_add and any(v > 1 for v in cnt.values()) else OTHER
    if clause in ('C12.BFUsedReturns', 'C12.ForwardOnceMissing') and trace['policy'] == 'BF':
        for i, e in enumerate(evs):
            if e['ev'] == 'TaskStates' and e['raised'] == 'RuntimeError' and i > 0:
                before = evs[i - 1]['st']
                bound  = {}
                for x in evs[:i]:
                    for f in x['fwd']:
                        bound[f['t']] = f['p']
                for t in e['batch']:
                    p = bound.get(t)
                    if p and t not in before['tasks'][p] and t not in before['done'][p]:
                        return D15 if trace['named'][t] != 'none' else D15R
    # a document older than what was known before
    far = {p: 'none' for p in trace['pilots']}
    for e in evs:
        if e['ev'] == 'AddPilots':
            for p, st in e['add']:
                if R.pval(st) < R.pval(far[p]):
                    return STALE
                far[p] = st if R.pval(st) > R.pval(far[p]) else far[p]
        elif e['ev'] == 'PilotState' and R.pval(e['s']) > R.pval(far[e['p']]):
            far[e['p']] = e['s']
    return OTHER


def _interesting(trace):
    '''non-trivial: some task had to wait and was bound by a later callback, or a
       pilot was added again'''
    waited, sub, readd, seen = False, {}, False, set()
    for i, e in enumerate(trace['events']):
        if e['ev'] == 'Submit':
            for t in e['batch']:
                sub[t] = i
        for f in e['fwd']:
            if sub.get(f['t'], i) < i:
                waited = True
        if e['ev'] == 'AddPilots':
            for p, _ in e['add']:
                if p in seen:
                    readd = True
                seen.add(p)
    return waited or readd


def _validate(chk, items, report=True):
    '''items: list of (rig_cfg, ops, trace, kind)'''
    if not items:
        return []
    res, st = tracecheck.validate('TmgrSched', 'TmgrSchedTrace', '', [it[2] for it in items])
    chk.states += st['states']
    chk.transitions += st['transitions']
    chk.cmds.append(st['cmd'])
    found, model_dev, outside = [], 0, {}
    for (cfg, ops, tr, kind), errs in zip(items, res):
        chk.traces += 1
        if _interesting(tr):
            chk.nontrivial.add(hash((tr['policy'], tuple((e['ev'], len(e['fwd'])) for e in tr['events']))))
        bad = [e for e in errs if e.startswith('M.') and e != 'M.Conformance' and not e.startswith('N.')]
        if bad:
            raise Machinery('tmgr rig / monitor inconsistency %s on %s' % (bad, ops))
        if 'M.Conformance' in errs:
            model_dev += 1
        for err in errs:
            if err.startswith('N.'):
                outside[err] = outside.get(err, 0) + 1
        for err in errs:
            name = C05_NAME.get(err, '') if chk.pid == 'C05' else err
            if name.split('.')[0] == chk.pid:
                found.append((len(ops), name, classify(tr, err), cfg, ops, errs, kind))
    if model_dev:
        chk.notes.append('%d of %d traces: some callback of the real scheduler matched the design '
                         'model under no setting of the known deviations (M.Conformance)'
                         % (model_dev, len(items)))
    if outside:
        # not producible through the task manager: reported, never alarming
        chk.notes.append('outside the input space (a command names a pilot it cannot be applied to; '
                         'the task manager refuses such commands before publishing): '
                         + ', '.join('%s in %d histories' % kv for kv in sorted(outside.items())))
    # shortest history first: the replay file of a (clause, class) is its smallest witness
    for n, err, cls, cfg, ops, errs, kind in sorted(found, key=lambda x: (x[0], x[1])):
        if report:
            chk.violation(err, cls, 'real %s scheduler violates %s (%s, %d callbacks)'
                          % (cfg['policy'], err, kind, n),
                          {'rig': 'tmgrsched', 'cfg': cfg, 'ops': ops, 'errs': errs})
    return found


# ------------------------------------------------------------------------------
def run_c05(chk, tier, seed):
    '''C05 share: the scheduler fails nobody and loses nobody, whatever a bulk mixes.
       A cheap subset: one small exhaustive scenario, the directed and mixed-bulk
       histories, some seeded random ones; the clauses about task fate only'''
    rng = random.Random(seed * 7919 + 5)
    sc  = [s for _, s in SCENARIOS if s['name'] == 'rr-4t2p-mixed'][0]
    res = tlc.run('TmgrSched', 'MC', 'MC.cfg', workers=8, timeout=600, extra_files=mc_files(sc))
    chk.add_tlc(res, 'exhaustive:' + sc['name'])
    if not res.ok:
        raise Machinery('design model TmgrSched violates %s in %s' % (res.violated, sc['name']))
    items = [(cfg, ops, R.TmgrRig(**cfg).run(ops), 'mixed bulk') for cfg, ops in mixed_bulks()]
    items += [(cfg, ops, R.TmgrRig(**cfg).run(ops), 'directed history') for cfg, ops in directed()]
    for i in range(60 if tier == 'quick' else 600):
        cfg = random_cfg(rng)
        ops, tr = R.TmgrRig(**cfg).run_random(rng.randrange(10 ** 9), nops=rng.randint(6, 14), p_half=0.0)
        items.append((cfg, ops, tr, 'seeded random'))
    _validate(chk, items)
    chk.evaluations += sum(len(it[1]) for it in items)
    chk.assumptions += ['bulks reach work() through the real Component.work_cb: an exception leaving '
                        'work() fails the whole bulk, as in production',
                        'a pilot is added, known through a state notification only, or unknown; '
                        'commands and notifications as for C12']


def run(chk, tier, seed):
    if chk.pid == 'C05':
        return run_c05(chk, tier, seed)
    rng   = random.Random(seed * 7919 + 12)
    quick = tier == 'quick'

    # ---- 1. design model, exhaustive -------------------------------------------
    for q, sc in SCENARIOS:
        if quick and not q:
            continue
        res = tlc.run('TmgrSched', 'MC', 'MC.cfg', workers=16, timeout=1500,
                      extra_files=mc_files(sc))
        chk.add_tlc(res, 'exhaustive:' + sc['name'])
        if not res.ok:
            raise Machinery('design model TmgrSched violates %s in scenario %s '
                            '(intended design must hold):\n%s'
                            % (res.violated, sc['name'], res.trace[:3000]))
    chk.exhaustive = True

    # ---- 2. deviation sensitivity -------------------------------------------------
    if not quick:
        byname = {sc['name']: sc for _, sc in SCENARIOS}
        expect = [('DevEarlyNotCleared',   'rr-3t3p', 'InvForwardOnce'),
                  ('DevEarlyNotCleared',   'bf-3t2p', 'InvForwardOnce'),
                  ('DevBFRaiseSkipsBatch', 'bf-3t2p', 'InvBFUsedReturns'),
                  ('DevBFRaiseSkipsBatch', 'bf-3t2p', 'InvForwardedIfEligible'),
                  ('DevBFRaiseSkipsBatch', 'bf-4t2p-nonames', 'InvBFUsedReturns'),
                  ('DevAddForgetsState',   'bf-2t2p-stale', 'InvBFEligible'),
                  ('DevAddForgetsState',   'bf-2t2p-stale', 'InvForwardedIfEligible'),
                  ('DevAddForgetsState',   'bf-3t2p', 'InvRecords'),
                  ('DevContradictionRaises', 'rr-2t2p-contradict', 'InvForwardedIfEligible'),
                  ('DevHalfValidAborts', 'rr-2t2p-contradict', 'InvOnlyAdded'),
                  ('DevHalfValidAborts', 'rr-2t2p-contradict', 'InvForwardedIfEligible'),
                  ('DevHalfValidAborts', 'bf-3t2p', 'InvOnlyAdded'),
                  ('DevHalfValidAborts', 'bf-3t2p', 'InvRecords'),
                  ('DevKnownPilotRaises', 'rr-4t2p-mixed', 'InvNoSchedulerFailure'),
                  ('DevKnownPilotRaises', 'bf-3t2p', 'InvNoSchedulerFailure')]
        for dev, sname, inv in expect:
            res = tlc.run('TmgrSched', 'MC', 'MC.cfg', workers=16, timeout=900,
                          extra_files=mc_files(byname[sname], devs=[dev], invariants=[inv]))
            chk.add_tlc(res, 'deviation:%s/%s' % (dev, sname))
            if res.ok or res.violated != inv:
                raise Machinery('deviation %s not detected by %s in %s (got %s)'
                                % (dev, inv, sname, res.violated))
            chk.notes.append('deviation %s breaks %s in the design model (%s)' % (dev, inv, sname))

    items = []

    # ---- 3. TLC behaviours -> callback sequences for the real schedulers ----------
    nsim = 25 if quick else 250
    for k, sc in enumerate(SIM_SCENARIOS):
        # half-valid commands: quick keeps them to the (deterministic) directed histories and
        # the exhaustive scenarios, so that the verdict does not depend on the seed
        sc = dict(sc, half=not quick)
        # quick: alternate between the intended design and the code as it is
        for devs in ([[], DEVS_ASIS][k % 2:k % 2 + 1] if quick else [[], DEVS_ASIS]):
            dump = tlc.scratch('rpsim_')
            try:
                res = tlc.run('TmgrSched', 'MC', 'MC.cfg', workers=1, timeout=600,
                              simulate='num=%d' % nsim, depth=16, seed=rng.randrange(10 ** 6),
                              dump_dir=dump,
                              extra_files=mc_files(sc, devs=devs, invariants=['TypeOK']))
                chk.add_tlc(res, 'simulate:%s%s' % (sc['name'], '+devs' if devs else ''))
                for f in sorted(glob.glob(os.path.join(dump, 'tr_*'))):
                    ops = script_from_behaviour(f)
                    cfg = rig_cfg(sc, explicit=sc['pilots'][-1:])
                    items.append((cfg, ops, R.TmgrRig(**cfg).run(ops), 'TLC behaviour of ' + sc['name']))
            finally:
                shutil.rmtree(dump, ignore_errors=True)

    # ---- 4. directed histories and seeded random callback sequences ---------------
    for cfg, ops in directed():
        items.append((cfg, ops, R.TmgrRig(**cfg).run(ops), 'directed history'))
    for cfg, ops in mixed_bulks():
        items.append((cfg, ops, R.TmgrRig(**cfg).run(ops), 'mixed bulk'))

    nrand = 250 if quick else 4000
    for i in range(nrand):
        cfg = random_cfg(rng)
        rig = R.TmgrRig(**cfg)
        ops, tr = rig.run_random(rng.randrange(10 ** 9), nops=rng.randint(6, 16),
                                 p_half=0.0 if quick else 0.15)
        items.append((cfg, ops, tr, 'seeded random'))

    # ---- 5. validate everything with the monitor -----------------------------------
    _validate(chk, items)
    chk.evaluations = sum(len(it[1]) for it in items)
    nraised = sum(1 for it in items for e in it[2]['events'] if e['raised'] != 'none')
    chk.notes.append('%d callbacks run against the real schedulers in %d histories; %d of them '
                     'left with an exception' % (chk.evaluations, len(items), nraised))
    tr = items[0][2]
    chk.sample({'kind': items[0][3], 'policy': tr['policy'], 'ops': items[0][1][:10],
                'events': [{k: e[k] for k in ('ev', 'fwd', 'raised')} for e in tr['events'][:10]]})
    # ---- 6. lock granularity: work() against control_cb(add_pilots) -----------------
    locks(chk, quick)

    chk.assumptions += [
        'TmgrSched treats the callbacks of the scheduler (work, control_cb, _base_state_cb) as atomic; '
        'that assumption is checked separately for work() against control_cb(add_pilots) (TmgrLocks '
        '+ all schedules of the two real callbacks over instrumented _pilots_lock / _wait_lock); '
        'other pairs (work() against _base_state_cb) are covered by reading only',
        'the task manager facade never adds an added pilot again and only removes added pilots '
        '(TaskManager.add_pilots / remove_pilots check this); a removed pilot may be added again',
        'one final notification per forwarded task; only notifications with a full task dict '
        '(final states, $all) carry the pilot id, as Component.advance publishes them',
        'the pilot document of an add message carries any state, older or newer than what the '
        'notifications said or contradicting it; eligibility is judged on the furthest state '
        'ever notified or added and on the role as commanded, not on the scheduler\'s records',
        'sandboxes come from the real Session._get_*_sandbox methods on a Session.__new__ object '
        'with the real local.localhost resource config; pilot descriptions name an absolute sandbox']


def random_cfg(rng):
    nt  = rng.randint(3, 6)
    tasks  = ['t%d' % (i + 1) for i in range(nt)]
    pilots = list(P3)
    named  = {t: rng.choice(pilots) for t in tasks if rng.random() < 0.3}
    cores  = {t: rng.choice([1, 1, 2, 3]) for t in tasks}
    pcores = {p: rng.choice([1, 2, 2, 4]) for p in pilots}
    pct    = rng.choice([50, 100, 200])
    lo, hi = rng.choice([(ACT, ACT), (ACT, ACT), (PEND, ACT), ('NEW', ACT)])
    return {'policy': rng.choice(['RR', 'BF', 'BF']), 'tasks': tasks, 'pilots': pilots,
            'named': named, 'cores': cores, 'pcores': pcores, 'hwm_pct': pct, 'lo': lo, 'hi': hi,
            'explicit_sandbox': [p for p in pilots if rng.random() < 0.3]}


LOCK_DL = 'work() concurrent with control_cb(add_pilots): lock order inversion in %s.add_pilots (deadlock)'
LOCK_LW = 'RoundRobin: work() concurrent with add_pilots: task parked after the pilot was added (lost wakeup)'
LOCK_RM = ('%s: work() between the role flip and the policy hook of control_cb(remove_pilots) '
           'binds a task to the pilot already marked removed')
LOCK_INVS = ['InvNoLostWakeup', 'InvAllForwarded']


def lock_cfg(policy, init_wait, dev, invs):
    cfg = ('CONSTANTS\n Policy = "%s"\n InitWait = %d\n DevAddLockOrder = %s\nSPECIFICATION Spec\n'
           % (policy, init_wait, 'TRUE' if dev else 'FALSE'))
    for i in invs:
        cfg += 'INVARIANT %s\n' % i
    return {'Locks.cfg': cfg}


def lock_verdict(res):
    '''what a schedule of the two real callbacks ended in'''
    if res['deadlock']:
        return 'deadlock'
    if res.get('late'):
        return 'late'
    if any(v > 1 for v in res['fwd'].values()):
        return 'twice'
    if res['wait'] and res['pids']:
        return 'lost'
    return 'ok'


def _lock_report(chk, res, kind):
    v = lock_verdict(res)
    obj = {'rig': 'tmgrsched', 'kind': 'locks', 'policy': res['policy'], 'mode': res.get('mode', 'add'),
           'init_wait': res['init_wait'], 'schedule': res['schedule'], 'outcome': res}
    if v == 'late':
        chk.violation('C12.OnlyAdded', LOCK_RM % POLICY_NAME[res['policy']],
                      'real %s scheduler binds %s to p1 after control_cb(remove_pilots [p1]) marked it '
                      'removed (%s); schedule %s' % (res['policy'], res['late'], kind, res['steps']), obj)
    if v == 'deadlock':
        chk.violation('C12.ForwardOnceMissing', LOCK_DL % POLICY_NAME[res['policy']],
                      'real %s scheduler deadlocks (%s): W blocked on %s holding %s, C blocked on %s '
                      'holding %s; schedule %s'
                      % (res['policy'], kind, res['blocked']['W'], res['held']['W'],
                         res['blocked']['C'], res['held']['C'], res['steps']), obj)
    elif v == 'lost':
        chk.violation('C12.ForwardOnceMissing', LOCK_LW,
                      'real %s scheduler leaves %s waiting although %s is added (%s); schedule %s'
                      % (res['policy'], res['wait'], res['pids'], kind, res['steps']), obj)
    elif v == 'twice':
        chk.violation('C12.ForwardOnce', LOCK_DL % POLICY_NAME[res['policy']],
                      'task forwarded twice: %s' % res['fwd'], obj)


def locks(chk, quick):
    cases = [('RR', 0), ('RR', 1), ('BF', 0), ('BF', 1)]
    # design level: one lock order (intended) is free of deadlock and lost wakeups
    for pol, iw in cases:
        res = tlc.run('TmgrSched', 'TmgrLocks', 'Locks.cfg', workers=1, timeout=300,
                      extra_files=lock_cfg(pol, iw, False, LOCK_INVS))
        chk.add_tlc(res, 'locks:%s/%d' % (pol, iw))
        if not res.ok:
            raise Machinery('TmgrLocks (intended lock order) violates %s for %s/%d'
                            % (res.violated, pol, iw))
    if not quick:
        expect = [('RR', 0, ['InvNoLostWakeup'], 'InvNoLostWakeup'), ('RR', 1, [], 'deadlock'),
                  ('BF', 0, [], 'deadlock'), ('BF', 1, [], 'deadlock')]
        for pol, iw, invs, want in expect:
            res = tlc.run('TmgrSched', 'TmgrLocks', 'Locks.cfg', workers=1, timeout=300,
                          extra_files=lock_cfg(pol, iw, True, invs))
            chk.add_tlc(res, 'deviation:DevAddLockOrder/%s/%d' % (pol, iw))
            if res.ok or res.violated != want:
                raise Machinery('deviation DevAddLockOrder not detected for %s/%d (got %s)'
                                % (pol, iw, res.violated))
            chk.notes.append('deviation DevAddLockOrder gives %s in TmgrLocks (%s, %d parked)'
                             % (want, pol, iw))
    # remove_pilots: role and pid list change in one critical section (intended); the code
    # flips the role first and calls the policy hook outside the lock, which only a policy
    # that re-checks the role (Backfilling) survives
    def rm_cfg(checked, dev):
        return {'R.cfg': 'CONSTANTS\n RoleChecked = %s\n DevHookOutsideLock = %s\n'
                         'SPECIFICATION Spec\nINVARIANT InvOnlyAdded\n'
                         % (str(checked).upper(), str(dev).upper())}
    for checked, dev, want in [(False, False, True), (True, True, True)] + \
                              ([] if quick else [(True, False, True), (False, True, False)]):
        res = tlc.run('TmgrSched', 'TmgrRemove', 'R.cfg', workers=1, timeout=300,
                      extra_files=rm_cfg(checked, dev))
        chk.add_tlc(res, 'locks:remove/checked=%s/dev=%s' % (checked, dev))
        if res.ok != want:
            raise Machinery('TmgrRemove RoleChecked=%s DevHookOutsideLock=%s: expected %s, got %s'
                            % (checked, dev, 'ok' if want else 'InvOnlyAdded', res.violated))
    # code level: all schedules of the two real callbacks
    total, kinds = 0, {}
    for pol, iw, mode in [c + ('add',) for c in cases] + [('RR', 0, 'remove'), ('BF', 0, 'remove')]:
        for res in sorted(R.lock_schedules(pol, iw, mode=mode), key=lambda r: len(r['steps'])):
            total += 1
            v = lock_verdict(res)
            iw = iw if mode == 'add' else mode
            kinds[(pol, iw, v)] = kinds.get((pol, iw, v), 0) + 1
            chk.nontrivial.add(hash((pol, iw, tuple(res['steps']))))
            _lock_report(chk, res, 'all schedules, %s' % ('%d task(s) parked before' % iw
                                                         if mode == 'add' else 'p1 and p2 added'))
    chk.evaluations += total
    chk.notes.append('lock granularity: %d schedules of real work() against real control_cb(add_pilots / remove_pilots): %s'
                     % (total, ', '.join('%s/%s %s=%d' % (k + (n,)) for k, n in sorted(kinds.items(), key=str))))


def replay(chk, obj):
    if obj.get('kind') == 'locks':
        res = R.LockProbe(obj['policy'], obj['init_wait'], obj['schedule'],
                          mode=obj.get('mode', 'add')).run()
        _lock_report(chk, res, 'replay')
        return
    cfg = obj['cfg']
    ops = obj['ops']
    tr  = R.TmgrRig(**cfg).run(ops)
    _validate(chk, [(cfg, ops, tr, 'replay')])
