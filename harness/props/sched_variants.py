'''
C01 C02 C03 C04 for the agent schedulers which share AgentSchedulingComponent's
loop with Continuous: ContinuousJsrun, ContinuousOrdered, ContinuousColo,
ContinuousReconfig, Hombre, Noop (adapters: rigs/sched_variants_rig.py).

Same specification, same monitor as the `sched` part: TLC behaviours of the
AgentSched design model (sched.mc_files / script_from_behaviour / SCENARIOS) and
seeded random environments are driven through the real class, every recorded
trace is validated by AgentSchedTrace.  The design model itself is checked by
the `sched` part, not again here.  The policies ContinuousOrdered / ContinuousColo
add (start order, bags) are only noted (SchedVariantsTrace, N.*).

The rigs patch `time` of the scheduler module: they run in forked workers, so
that this part can run next to the `sched` part of the same ./check process.
'''

import os
import glob
import random
import shutil
import multiprocessing as mp

from concurrent.futures import ThreadPoolExecutor

from .. import tlc, tracecheck
from . import sched as P
from ..rigs import sched_rig as R
from ..rigs import sched_variants_rig as V

WORKERS = 8

QUICK_SCEN = ['lfs-prio', 'colo', 'gpu-share', 'blocked', 'invalid', 'nodes3', 'exclusive']

# requests whose ranks share GPUs (gpr in share units, see sched_rig.shape)
RS_SHAPES = [P.S(4, 1, 1), P.S(6, 1, 1), P.S(5, 1, 1), P.S(4, 1, 1, 1, 0), P.S(3, 1, 1, 0, 1),
             P.S(4, 2, 1), P.S(2, 2, 1, prio=1), P.S(4, 1, 3), P.S(4, 1, 2)]

# ---- GPU sets: pilots on which several multi-rank resource sets fit one node ----------
# (variants only; the monitor's cost grows with cores x GPUs per node, so few and small)
GS_LAYOUTS = [R.Layout(1, 8, 4, 8, 8, su=4), R.Layout(2, 8, 4, 6, 8, su=4),
              R.Layout(2, 6, 3, 4, 6, su=2), R.Layout(1, 6, 3, 6, 6, su=2),
              R.Layout(2, 4, 2, 4, 4, su=2)]


def gs_shape(rng, lay):
    '''ranks sharing GPUs (shares of a quarter / a half), with lfs / mem per rank; non-integral
       requests above one GPU (1.25, 1.5, 2.5 GPUs per rank); rank counts which are no multiple
       of the GPUs needed (3 x 0.5, 5 x 0.5, 7 x 0.25); some plain requests in between'''
    su, k = lay.su, rng.random()
    if k < 0.5:
        gpr   = rng.choice([1, 2] if su == 4 else [1])
        ranks = rng.choice([2, 2, 3, 4, 4, 5, 7] if gpr * 2 <= su else [2, 2, 3, 4, 5])
        return P.S(ranks, rng.choice([1, 1, 1, 2]), gpr, rng.choice([0, 0, 1, 2]), rng.choice([0, 1, 1, 2, 2]),
                   prio=rng.choice([0, 0, 1]))
    if k < 0.8:
        gpr   = rng.choice([su + su // 2, su + su // 2, 2 * su + su // 2] + ([su + 1] if su == 4 else []))
        return P.S(rng.choice([1, 1, 2, 2, 3, 4]), rng.choice([1, 1, 2]), gpr, rng.choice([0, 0, 1]),
                   rng.choice([0, 0, 1, 2]), prio=rng.choice([0, 0, 1]))
    return P.S(rng.choice([1, 1, 2, 3]), rng.choice([1, 2]), rng.choice([0, 0, su, 2 * su]),
               rng.choice([0, 1]), rng.choice([0, 1, 2]), prio=rng.choice([0, 1]))


def gs_case(rng):
    lay    = rng.choice(GS_LAYOUTS)
    shapes = {'t%d' % (i + 1): gs_shape(rng, lay) for i in range(rng.randint(3, 6))}
    return lay, shapes, [u for u in shapes if rng.random() < 0.15]


# ---- exclusive colocate tags: more tag values than nodes, nodes filled up by the tagged tasks, so
#      that a task with a new tag waits (alone) for a release on a pilot whose nodes are all tagged
EX_LAYOUTS = [R.Layout(2, 2, 0, 0, 0), R.Layout(2, 3, 0, 0, 0), R.Layout(3, 2, 0, 0, 0), R.Layout(2, 4, 1, 2, 2)]


def ex_case(rng):
    lay    = rng.choice(EX_LAYOUTS)
    tags   = ['a', 'b', 'c', 'd', 'e'][:rng.randint(lay.nn + 1, 5)]
    shapes = {}
    for i in range(rng.randint(lay.nn + 1, lay.nn + 4)):
        full = rng.random() < 0.6           # a request which takes a whole node
        shapes['t%d' % (i + 1)] = P.S(1, lay.nc if full else rng.choice([1, 1, 2]),
                                      colo=rng.choice(tags) if rng.random() < 0.85 else 'none',
                                      excl=rng.random() < 0.8, prio=rng.choice([0, 0, 1]))
    return lay, shapes, [u for u in shapes if rng.random() < 0.1]


# fixed ones (layout, shapes): all arrive at once, completions in uid order
GS_FIXED = [
    # sets of 2 / 4 / 3 ranks with memory and lfs, more than one of them per node
    (R.Layout(1, 8, 4, 8, 8, su=4),
     {'t1': P.S(2, 1, 2, 1, 2), 't2': P.S(4, 1, 1, 1, 2), 't3': P.S(2, 1, 2, 0, 2), 't4': P.S(3, 1, 2, 2, 1)}),
    (R.Layout(2, 6, 3, 4, 6, su=2),
     {'t1': P.S(2, 1, 1, 1, 2), 't2': P.S(2, 2, 1, 0, 2), 't3': P.S(3, 1, 1, 1, 1), 't4': P.S(2, 1, 1, 2, 2)}),
    # 1.5 / 2.5 / 1.25 GPUs per rank
    (R.Layout(2, 6, 3, 4, 6, su=2),
     {'t1': P.S(2, 1, 3), 't2': P.S(1, 2, 3, 0, 1), 't3': P.S(1, 1, 5), 't4': P.S(2, 1, 3, 1, 1)}),
    (R.Layout(2, 8, 4, 6, 8, su=4),
     {'t1': P.S(2, 1, 6), 't2': P.S(2, 1, 5, 0, 1), 't3': P.S(1, 1, 10), 't4': P.S(4, 1, 6)}),
    # rank counts which are no multiple of the GPUs needed
    (R.Layout(2, 8, 4, 6, 8, su=4),
     {'t1': P.S(3, 1, 2), 't2': P.S(5, 1, 2, 0, 1), 't3': P.S(7, 1, 1), 't4': P.S(3, 2, 2, 1, 0)}),
]


# environment schedules worth having every time (scenario, script)
def directed(quick):
    out = [d for i, d in enumerate(P.directed()) if not quick or i % 4 == 0]
    # a ranks_per_node request on a pilot with room for two ranks per node
    out.append(('invalid', [(1, ('arrive', ['t3'])), (6, ('complete', 't3'))]))
    out.append(('blocked', [(1, ('arrive', ['t3'])), (2, ('arrive', ['t1', 't2'])),
                            (9, ('complete', 't3')), (12, ('complete', 't1'))]))
    # several ranks sharing GPUs (one jsrun resource set), then whole GPUs
    out.append(('gpu-share', [(1, ('arrive', ['t1'])), (2, ('arrive', ['t3', 't2'])),
                              (8, ('complete', 't1')), (14, ('complete', 't3'))]))
    out.append(('mem-gpu', [(1, ('arrive', ['t1', 't2', 't3'])), (9, ('complete', 't1')),
                            (13, ('complete', 't3')), (17, ('complete', 't2'))]))
    # exclusive colocate tags, one tag value more than nodes: the third tag shares a node
    if any(x[0] == 'exclusive' for x in P.SCENARIOS):
        for k in (8, 11, 14):
            out.append(('exclusive', [(1, ('arrive', ['t1', 't2'])), (k, ('arrive', ['t3'])),
                                      (k + 8, ('complete', 't1')), (k + 14, ('complete', 't2')),
                                      (k + 20, ('complete', 't3'))]))
            out.append(('exclusive', [(1, ('arrive', ['t1', 't2'])), (k, ('complete_bulk', ['t1', 't2'])),
                                      (k + 8, ('arrive', ['t3']))]))
    return out


# ------------------------------------------------------------------------------
def _adapter(name):
    return V.REFERENCE if name == V.REFERENCE.name else V.ADAPTERS[name]


def _job(inp):
    '''one real run; inp is the replayable input record'''
    ad  = _adapter(inp['cls'])
    lay = R.Layout(**inp['layout'])
    kw  = dict(scattered=inp['scattered'], cancelable=inp['cancelable'], dead=inp.get('dead') or [])
    if inp['kind'] == 'random':
        kw.update(seed=inp['seed'], p_env=inp['p_env'])
    else:
        kw.update(seed=0, script=[(k, tuple(a)) for k, a in inp['script']])
    if 'rec' in inp:
        rig = V.remake_rig(ad, lay, inp['rec'], **kw)
    else:
        rig, rec = V.make_rig(ad, lay, inp['shapes'], random.Random(inp['aseed']), **kw)
        inp = dict(inp, rec=rec)
    tr = rig.run()
    return tr, inp, bool(rig.unpackable)


def _inputs(chk, tier, rng):
    quick = tier == 'quick'
    names = list(V.ADAPTERS) + [V.REFERENCE.name]
    inputs = []

    def add(name, **kw):
        kw.update(cls=name, aseed=rng.randrange(10 ** 9))
        inputs.append(kw)

    def gaps(i):
        # every third case runs on a pilot whose RM dropped unreachable nodes: node indexes
        # with gaps ([0, 2, ..], [1, 2, ..], [1, 3, ..]), positions in the node list without
        return [[1], [0], [0, 2]][(i // 3) % 3] if i % 3 == 1 else []

    def modes(ad, i):
        return [ad.scattered[i % len(ad.scattered)]] if quick else list(ad.scattered)

    # ---- TLC behaviours of the design model as environment schedules ---------------
    scen = [s for s in P.SCENARIOS if not quick or s[0] in QUICK_SCEN]
    nsim = 6 if quick else 100

    def simulate(arg):
        (name, lay, shapes, canc), sseed = arg
        dump = tlc.scratch('rpvsim_')
        try:
            res = tlc.run('AgentSched', 'MC', 'MC.cfg', workers=1, timeout=600,
                          simulate='num=%d' % nsim, depth=70, seed=sseed, dump_dir=dump,
                          extra_files=P.mc_files(lay, shapes, canc, invariants=['TypeOK'], props=[]))
            return res, [P.script_from_behaviour(f)
                         for f in sorted(glob.glob(os.path.join(dump, 'tr_*')))]
        finally:
            shutil.rmtree(dump, ignore_errors=True)

    with ThreadPoolExecutor(max_workers=WORKERS) as pool:
        sims = list(pool.map(simulate, [(s, rng.randrange(10 ** 6)) for s in scen]))
    for (name, lay, shapes, canc), (res, scripts) in zip(scen, sims):
        chk.add_tlc(res, 'variants simulate:' + name)
        for i, script in enumerate(scripts):
            for cname in names:
                if cname == V.REFERENCE.name and i % 3:
                    continue
                for sc in modes(_adapter(cname), i):
                    add(cname, kind='tlc-behaviour', scenario=name, script=script,
                        layout=lay.__dict__, shapes=shapes, cancelable=canc, scattered=sc, dead=gaps(i))

    # ---- directed schedules -----------------------------------------------------------
    for i, (sname, script) in enumerate(directed(quick)):
        _, lay, shapes, canc = [x for x in P.SCENARIOS if x[0] == sname][0]
        for cname in names:
            if cname == V.REFERENCE.name and i % 3:
                continue
            for sc in modes(_adapter(cname), i):
                add(cname, kind='tlc-behaviour', scenario=sname, script=script,
                    layout=lay.__dict__, shapes=shapes, cancelable=canc, scattered=sc, dead=gaps(i))

    # ---- seeded random environments over the catalogue of layouts / shapes -------------
    for i in range(24 if quick else 1000):
        lay, shapes, canc = P.random_case(rng, with_supplied=False)
        if lay.ng and i % 3 == 0:
            # several ranks sharing GPUs: resource sets of more than one rank under jsrun
            sh = dict(rng.choice(RS_SHAPES))
            if lay.su == 2 and sh['gpr'] == 3:
                sh['gpr'] = 1
            shapes['t%d' % (len(shapes) + 1)] = sh
        s, pe = rng.randrange(10 ** 9), rng.choice([0.1, 0.25, 0.4])
        for cname in names:
            if cname == V.REFERENCE.name and i % 4:
                continue
            ad = _adapter(cname)
            sc = ad.scattered[0] if (len(ad.scattered) == 1 or rng.random() < 0.65) else ad.scattered[1]
            add(cname, kind='random', seed=s, p_env=pe, layout=lay.__dict__, shapes=shapes,
                cancelable=canc, scattered=sc, dead=gaps(i))

    # ---- GPU sets: the jsrun scheduler first of all, the others on a sample -------------
    def gs_classes(i):
        return ['ContinuousJsrun'] + ([V.REFERENCE.name, 'ContinuousOrdered'] if i % 4 == 0 else [])

    for i, (lay, shapes) in enumerate(GS_FIXED):
        uids   = sorted(shapes)
        script = [(1, ('arrive', uids))] + [(12 + 9 * j, ('complete', u)) for j, u in enumerate(uids)]
        for cname in gs_classes(i):
            for sc in _adapter(cname).scattered:
                add(cname, kind='tlc-behaviour', scenario='gpu-sets-%d' % i, script=script,
                    layout=lay.__dict__, shapes=shapes, cancelable=[], scattered=sc, dead=gaps(i))
    for i in range(16 if quick else 500):
        lay, shapes, canc = gs_case(rng)
        s, pe = rng.randrange(10 ** 9), rng.choice([0.1, 0.25, 0.4])
        for cname in gs_classes(i):
            for sc in modes(_adapter(cname), i):
                add(cname, kind='random', seed=s, p_env=pe, layout=lay.__dict__, shapes=shapes,
                    cancelable=canc, scattered=sc, dead=gaps(i))

    # ---- exclusive colocate tags (Continuous' rule, copied by the jsrun scheduler) -------
    for i in range(12 if quick else 300):
        lay, shapes, canc = ex_case(rng)
        s, pe = rng.randrange(10 ** 9), rng.choice([0.1, 0.25])
        for cname in ['ContinuousJsrun', V.REFERENCE.name] + (['ContinuousReconfig'] if i % 4 == 0 else []):
            ad = _adapter(cname)
            # mostly scattered: only there the monitor asks for 'alone starts' of a jsrun task
            sc = ad.scattered[0] if i % 4 else ad.scattered[-1]
            add(cname, kind='random', seed=s, p_env=pe, layout=lay.__dict__, shapes=shapes,
                cancelable=canc, scattered=sc, dead=gaps(i))
    return inputs


# ------------------------------------------------------------------------------
def _validate(chk, runs):
    '''runs: list of (trace, input, unpackable) -> list of error lists, notes per run'''
    groups = {}
    for i, (tr, inp, _) in enumerate(runs):
        groups.setdefault(R.Layout(**inp['layout']).key(), []).append(i)
    errs  = [None] * len(runs)
    notes = [[] for _ in runs]

    def one(idxs):
        lay = R.Layout(**runs[idxs[0]][1]['layout'])
        return tracecheck.validate('AgentSched', 'AgentSchedTrace', lay.cfg_constants(),
                                   [runs[i][0] for i in idxs])

    pol = [i for i, (tr, inp, _) in enumerate(runs)
           if inp['cls'] in ('ContinuousOrdered', 'ContinuousColo')]

    def policy(idxs):
        if not idxs:
            return [], None
        slim = [{'uids': runs[i][0]['uids'], 'order': runs[i][0]['order'], 'bag': runs[i][0]['bag'],
                 'events': [{k: e[k] for k in ('ev', 'uid', 'state', 'slots') if k in e}
                            for e in runs[i][0]['events']]} for i in idxs]
        return tracecheck.validate('AgentSched', 'SchedVariantsTrace', '', slim)

    with ThreadPoolExecutor(max_workers=WORKERS) as pool:
        fpol = pool.submit(policy, pol)
        outs = list(pool.map(one, list(groups.values())))
        pres, pst = fpol.result()
    for idxs, (res, st) in zip(groups.values(), outs):
        chk.states += st['states']
        chk.transitions += st['transitions']
        chk.cmds.append(st['cmd'])
        for i, e in zip(idxs, res):
            errs[i] = e
    if pst:
        chk.states += pst['states']
        chk.transitions += pst['transitions']
        chk.cmds.append(pst['cmd'])
        for i, n in zip(pol, pres):
            notes[i] = n
    return errs, notes


def _report(chk, runs, errs, what):
    pid = chk.pid
    for (tr, inp, unpackable), el in zip(runs, errs):
        ad = _adapter(inp['cls'])
        chk.traces += 1
        evs = [e['ev'] + ':' + e.get('res', e.get('state', '')) for e in tr['events']]
        if any(e.startswith('Try:nofit') for e in evs) or any(e.startswith('Adv:canceled') for e in evs):
            chk.nontrivial.add(hash((inp['cls'],) + tuple(evs)))
        for err in el:
            if err.split('.')[0] != pid:
                continue
            if err in ad.skip:
                continue
            if unpackable and err == 'C02.GpusPerRank':
                continue        # the shares of a resource set do not pack one GPU per rank
            msg = [e.get('msg') for e in tr['events'] if e.get('msg')]
            chk.violation(err, ad.classify(tr, err),
                          '%s: %s %s%s' % (ad.name, what, err, (' (%s)' % msg[0]) if msg else ''),
                          {'rig': 'sched_variants', 'cls': inp['cls'], 'input': inp, 'errs': el,
                           'trace': tr})


def run(chk, tier, seed):
    rng  = random.Random(seed * 104729 + 71)
    # fork the workers first: the other parts of this ./check process have hardly started
    pool = mp.get_context('fork').Pool(WORKERS)
    try:
        inputs = _inputs(chk, tier, rng)
        runs   = pool.map(_job, inputs, chunksize=4)
    finally:
        pool.close()
        pool.join()

    errs, notes = _validate(chk, runs)
    _report(chk, runs, errs, 'real scheduler trace violates')

    # ---- what was driven, per class; policy notes --------------------------------------
    per = {}
    for (tr, inp, _), el, nl in zip(runs, errs, notes):
        d = per.setdefault(inp['cls'], {'traces': 0, 'grants': 0, 'releases': 0, 'notes': {}})
        d['traces']   += 1
        d['grants']   += sum(1 for e in tr['events'] if e['ev'] == 'Try' and e.get('res') == 'grant')
        d['releases'] += sum(1 for e in tr['events'] if e['ev'] == 'Release')
        for n in nl:
            d['notes'][n] = d['notes'].get(n, 0) + 1
    for cname in sorted(per):
        d  = per[cname]
        ad = _adapter(cname)
        chk.notes.append('variants %s: %d traces, %d grants, %d releases; quiescence obligations %s%s%s'
                         % (cname, d['traces'], d['grants'], d['releases'],
                            'asked' if ad.base_pool else 'not asked (own placement bookkeeping)',
                            ('; skipped ' + ', '.join(sorted(ad.skip))) if ad.skip else '',
                            ('; policy notes ' + ', '.join('%s x%d' % kv for kv in sorted(d['notes'].items())))
                            if d['notes'] else ''))
    chk.cov.setdefault('variants', {}).update(per)
    for tr, inp, _ in runs:
        if inp['cls'] == 'ContinuousJsrun' and any(e.get('res') == 'grant' for e in tr['events']):
            chk.sample({'kind': inp['kind'], 'cls': inp['cls'], 'events': [
                {k: v for k, v in e.items() if k not in ('nodes',)} for e in tr['events'][:10]]})
            break
    chk.assumptions += [
        'variant schedulers: same fabric assumptions as the sched part (FIFO lossless queues, '
        'single-threaded loop, cancel steps at schedule points); application-supplied slots are '
        'not driven here (base class code, sched part)',
        'ContinuousJsrun: a resource set is projected rank by rank (cores per rank, shares below one '
        'GPU packed first-fit onto the GPUs of the set, every rank of a multi-rank set holding the lfs / '
        'mem it asked for); non-integral requests above one GPU (1.5) are judged set by set against the '
        'request folded into gcd(ranks, ceil(ranks x gpus_per_rank)) equal sets']


def replay(chk, obj):
    run1 = _job(obj['input'])
    errs, _ = _validate(chk, [run1])
    _report(chk, [run1], errs, 'replayed trace violates')
