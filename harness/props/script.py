'''
C10: the generated launch / exec scripts run what the user described.

1. design model `Script` (launch script + one exec-script machine per rank,
   outcomes chosen by TLC) checked exhaustively over bounded task shapes: the
   properties of C10 as invariants, plus agreement of the step machine with the
   functional reference semantics (ScriptOps!LaunchRun) the monitor uses;
2. every terminal state TLC prints (<<"RUN", cfg, F, xrc>>) is a task shape with
   outcomes; the rig instantiates it (token classes -> concrete strings chosen
   by the seed), lets the REAL executor write both scripts and runs them with
   real shells (thorough: all printed states, quick: a seeded sample that covers
   every feature of the shapes);
3. every run's trace is validated by the `ScriptTrace` monitor.
'''

import re
import json
import random

from concurrent.futures import ThreadPoolExecutor

from .. import tlc, tracecheck
from ..core import Machinery
from ..rigs import script_rig as R

INVARIANTS = ['TypeOK', 'InvOrder', 'InvPerRank', 'InvNoneSkipped', 'InvFailPre', 'InvExitCode',
              'InvPostNeedsExec', 'InvBarrier', 'InvEnv', 'InvDescribedEnv', 'InvLaunch', 'InvOutFiles', 'InvStartup',
              'InvGpuEnv', 'InvRankId', 'InvAgree',
              'InvProgress']
DEVS = ['DevEnvUnescaped', 'DevIgnorePreFail', 'DevRetAfterPost', 'DevErrDirFromOut',
        'DevNamedEnvLast', 'DevStartupAbortsOthers', 'DevGpuWholeOnly', 'DevPalsByVersionLine',
        'DevGenericLast', 'DevSameFileDup']


# ------------------------------------------------------------------------------
def cfgset(ranks='1..2', pre=2, post=1, prel='{0}', postl='{0}', sync='BOOLEAN',
           argv='{<<"plain">>}', env='{<<>>}', omp='{FALSE}', gq='{0}', gtype='{""}',
           out='{"default"}', err='{"default"}', lm=None, pre_set=None, nenv='{FALSE}', envk=None,
           sto='{FALSE}', svc='{FALSE}', cfgpre='{FALSE}', prof='{FALSE}',
           stale='{<<"none", 0>>}', wr='{"both"}', where='TRUE'):
    '''TLA+ set expression of task shapes (see ScriptOps.tla for the fields);
       envk: set of key-kind sequences for the environment ev (default: all fresh)'''
    lm    = lm or ('(IF n = 1 THEN {<<"fork", "none">>, <<"mpi", "ompi">>} '
                   'ELSE {<<"mpi", "ompi">>})')
    pre_s = pre_set or 'SeqsUpTo(Entries(n), %d)' % pre
    envk  = envk or '{[i \\in 1 .. Len(ev) |-> "fresh"]}'
    return ('UNION { UNION { { c \\in { [ranks |-> n, lm |-> lm[1], fl |-> lm[2], pre |-> p, post |-> q, prel |-> a, '
            'postl |-> b, sync |-> s, argv |-> av, env |-> ev, envk |-> ek, nenv |-> ne, '
            'omp |-> om, gq |-> g, gtype |-> gt, out |-> o, err |-> oe, sto |-> st, svc |-> sv, '
            'cfgpre |-> cp, prof |-> pf, sv |-> sl[1], sval |-> sl[2], wr |-> w] : '
            'lm \\in %s, p \\in %s, q \\in SeqsUpTo(Entries(n), %d), a \\in %s, b \\in %s, '
            's \\in %s, av \\in %s, ek \\in %s, ne \\in %s, om \\in %s, g \\in %s, gt \\in %s, '
            'o \\in %s, oe \\in %s, st \\in %s, sv \\in %s, cp \\in %s, pf \\in %s, '
            'sl \\in %s, w \\in %s } : %s } '
            ': ev \\in %s } : n \\in %s }'
            % (lm, pre_s, post, prel, postl, sync, argv, envk, nenv, omp, gq, gtype, out, err,
               sto, svc, cfgpre, prof, stale, wr, where, env, ranks))


_ONE  = dict(ranks='{1}', pre=0, post=0, sync='{FALSE}', lm='{<<"fork", "none">>}')
# MPI flavor of the launcher x what makes the exec script switch on the rank id
_FLAV = dict(lm='{<<"mpi", f>> : f \\in MpiFlavors}', pre=1, post=0, sync='{FALSE}',
             gq='{0, 4}', gtype='{"CUDA"}')
# GPU environment: share / number of GPUs per rank x GPU type x what else makes the
# script switch per rank (OpenMP export, per-rank pre_exec), every launcher
_RES  = dict(pre_set='{<<>>, <<REntry({0})>>}', post=0, sync='{FALSE}',
             omp='BOOLEAN', gq='{0, 1, 2, 4, 8}', gtype='{"", "CUDA", "ROCm"}')
# description / configuration attributes that add lines to the exec script only
# when set, on every rank of single- and multi-rank tasks
_OPT  = dict(pre_set='{<<>>, <<GEntry>>}', post=0, sto='BOOLEAN', svc='BOOLEAN',
             cfgpre='BOOLEAN', prof='BOOLEAN', nenv='BOOLEAN')
# named environment x described keys it also defines / the agent has and it lacks
_NENV = dict(pre=0, post=0, sync='{FALSE}', nenv='BOOLEAN',
             env='SeqsUpTo({"plain", "space"}, 2)', envk='[1 .. Len(ev) -> KeyKinds]')
_KINDS = '{"default", "rel", "abs"}'
# td.stdout x td.stderr, independently: all nine combinations, every launcher
_IO   = dict(pre_set='{<<>>, <<GEntry>>}', post=0, sync='{FALSE}', out=_KINDS, err=_KINDS)

# a stale generic rank variable (another launcher layer started the sub-agent) next
# to the flavor's own announcement x what makes the script switch on the rank id
_STALE = dict(lm='{<<"mpi", f>> : f \\in MpiFlavors}', pre_set='{<<>>, <<REntry({n - 1})>>}',
              post=0, sync='{FALSE}',
              stale='{<<"PMIX_RANK", 0>>, <<"PMIX_RANK", 5>>, <<"MPI_RANK", 0>>, <<"MPI_RANK", 5>>}',
              where='Decidable(c)')
_WR   = '{"both", "out", "err"}'
# td.stderr = td.stdout (one file for both streams), the executable writing to one
# stream or both, a failing pre / post_exec (rp_error writes to stderr), one and
# several ranks: the shared file holds every line of both streams
_SAME = dict(pre_set='{<<>>, <<GEntry>>}', post=1, sync='{FALSE}',
             out='{"rel", "abs"}', err='{"same"}', wr=_WR)

# the bounded domain is a union of slices: control flow x data would be a product
# of dimensions that do not interact in the scripts
SLICES = {
    'quick': {
        'ctl1'  : cfgset(ranks='{1}', pre=2, post=1),
        'ctl2'  : cfgset(ranks='{2}', pre=2, post=0, sync='{FALSE}'),
        'ctl2p' : cfgset(ranks='{2}', pre=1, post=1, sync='{FALSE}'),
        'ctl2s' : cfgset(ranks='{2}', pre=2, post=0, sync='{TRUE}'),
        'launch': cfgset(pre=1, post=0, prel='0..1', postl='0..1', sync='{FALSE}'),
        'argv'  : cfgset(argv='SeqsUpTo(Classes, 2)', **_ONE),
        'env'   : cfgset(env='SeqsUpTo(Classes, 2)', **_ONE),
        'res'   : cfgset(**_RES),
        'io'    : cfgset(**_IO),
        'iowr'  : cfgset(pre=0, post=0, sync='{FALSE}', out='{"default", "abs"}',
                         err='{"default", "rel"}', wr='{"out", "err"}'),
        'same'  : cfgset(**_SAME),
        'nenv'  : cfgset(**_NENV),
        'opt'   : cfgset(sync='{FALSE}', **_OPT),
        'flavor': cfgset(**_FLAV),
        'stale' : cfgset(**_STALE),
    },
    'thorough': {
        'ctl1'  : cfgset(ranks='{1}', pre=3, post=2),
        'ctl2'  : cfgset(ranks='{2}', pre=2, post=1),
        'ctl2p' : cfgset(ranks='{2}', pre=1, post=2),
        'launch': cfgset(pre=1, post=0, prel='0..2', postl='0..2', sync='{FALSE}'),
        'argv'  : cfgset(argv='SeqsUpTo(Classes, 3)', **_ONE),
        'env'   : cfgset(env='SeqsUpTo(Classes, 2)', **_ONE),
        'envarg': cfgset(env='SeqsUpTo(Alarmed, 1)', argv='SeqsUpTo(Alarmed, 1)', **_ONE),
        'res'   : cfgset(**_RES),
        'io'    : cfgset(gq='{0, 4}', gtype='{"CUDA"}', **_IO),
        'nenv'  : cfgset(**dict(_NENV, pre_set='{<<>>, <<GEntry>>}')),
        'opt'   : cfgset(omp='BOOLEAN', **_OPT),
        'flavor': cfgset(**_FLAV),
        'stale' : cfgset(**dict(_STALE, gq='{0, 4}', gtype='{"CUDA"}')),
        'iowr'  : cfgset(pre=0, post=0, sync='{FALSE}', out=_KINDS, err=_KINDS, wr='{"out", "err"}'),
        'same'  : cfgset(**dict(_SAME, sto='BOOLEAN', nenv='BOOLEAN')),
        'flavorp': cfgset(**dict(_FLAV, post=1, gq='{0}', gtype='{""}')),
        'optgpu': cfgset(pre=0, post=0, sync='{FALSE}', sto='BOOLEAN', cfgpre='BOOLEAN',
                         gq='{0, 2, 4}', gtype='{"", "CUDA"}', out=_KINDS),
    },
}


def mc_files(slices, devs=(), invariants=None):
    mod = '---- MODULE MC ----\nEXTENDS Script\n'
    for name, expr in slices.items():
        mod += 'S_%s == %s\n' % (name, expr)
    mod += 'MCCfgs == %s\n====\n' % ' \\cup '.join('S_%s' % n for n in slices)
    cfg  = 'CONSTANTS\n Cfgs <- MCCfgs\n ExecCodes = {0, 3}\n'
    for d in DEVS:
        cfg += ' %s = %s\n' % (d, 'TRUE' if d in devs else 'FALSE')
    cfg += 'SPECIFICATION Spec\nCHECK_DEADLOCK FALSE\n'
    for i in (INVARIANTS if invariants is None else invariants):
        cfg += 'INVARIANT %s\n' % i
    return {'MC.tla': mod, 'MC.cfg': cfg}


# ------------------------------------------------------------------------------
_TOK = re.compile(r'<<|>>|\[|\]|\{|\}|\|->|\bTRUE\b|\bFALSE\b|(\w+)(?=\s*\|->)')
_MAP = {'<<': '[', '>>': ']', '[': '{', ']': '}', '{': '[', '}': ']', '|->': ':',
        'TRUE': 'true', 'FALSE': 'false'}


def parse_runs(out):
    '''the <<"RUN", cfg, F, xrc>> tuples TLC printed -> [(cfg, F, xrc)] (records
       become dicts, sets and sequences lists), in a canonical order'''
    dec  = json.JSONDecoder()
    runs = {}
    for chunk in re.split(r'<<\s*"RUN",', out)[1:]:
        txt = _TOK.sub(lambda m: '"%s"' % m.group(1) if m.group(1) else _MAP[m.group(0)], chunk)
        try:
            v, _ = dec.raw_decode('["RUN",' + txt)
        except ValueError as e:
            raise tlc.TLCError('cannot parse RUN tuple: %s\n%s' % (e, chunk[:400]))
        cfg, F, xrc = v[1], v[2], v[3]
        for e in cfg['pre'] + cfg['post']:
            e['on'] = sorted(e['on'])
        F = sorted(F, key=lambda f: (f['sig'], f['i'], f['r']))
        runs[json.dumps([cfg, F, xrc], sort_keys=True)] = (cfg, F, xrc)
    return [runs[k] for k in sorted(runs)]


def features(run):
    '''what a run exercises: the sample must contain every feature'''
    cfg, F, xrc = run
    fs = {'ranks%d' % cfg['ranks'], 'lm:' + cfg['lm'], 'fl:%s/%d' % (cfg['fl'], cfg['ranks']),
          'flgpu:%s/%d/%d' % (cfg['fl'], cfg['ranks'], cfg['gq']),
          'stale:%s=%d/%s/%d' % (cfg['sv'], cfg['sval'], cfg['fl'], cfg['ranks']),
          'wr:%s/%s/%s/%s%d' % (cfg['wr'], cfg['out'], cfg['err'], cfg['lm'], cfg['ranks']), 'sync%d' % cfg['sync'],
          'prel%d' % cfg['prel'], 'postl%d' % cfg['postl'], 'omp%d' % cfg['omp'],
          'gpu:%d/%s/%s%d' % (cfg['gq'], cfg['gtype'], cfg['lm'], cfg['ranks']), 'io:%s/%s/%s%d' % (cfg['out'], cfg['err'], cfg['lm'], cfg['ranks']),
          'argc%d' % len(cfg['argv']),
          'envc%d' % len(cfg['env']), 'xrc:%s' % ('ok' if not any(xrc) else 'nonzero')}
    for sig in ('pre', 'post'):
        fs.add('%s-len%d' % (sig, len(cfg[sig])))
        for i, e in enumerate(cfg[sig]):
            fs.add('%s[%d]:%s%s/%d' % (sig, i, e['k'], ''.join(str(r) for r in e['on']), cfg['ranks']))
            fs.add('fl%s:%s/%d/%s%s' % (sig, cfg['fl'], cfg['ranks'], e['k'],
                                        ''.join(str(r) for r in e['on'])))
    for i, c in enumerate(cfg['argv']):
        fs.add('arg[%d]:%s' % (i, c))
    for i, c in enumerate(cfg['env']):
        fs.add('env[%d]:%s' % (i, c))
        fs.add('envk[%d]:%s/nenv%d/%s%d' % (i, cfg['envk'][i], cfg['nenv'], cfg['lm'], cfg['ranks']))
    for k in ('nenv', 'sto', 'svc', 'cfgpre', 'prof'):
        fs.add('%s%d/%s%d' % (k, cfg[k], cfg['lm'], cfg['ranks']))
    for f in F:
        fs.add('fail:%s[%d]@%d/%d' % (f['sig'], f['i'], f['r'], cfg['ranks']))
    if not F:
        fs.add('nofail')
    return fs


def select(runs, n, rng):
    '''seeded sample of n runs that covers every feature of the full set'''
    if n >= len(runs):
        return list(runs)
    order = list(range(len(runs)))
    rng.shuffle(order)
    todo, picked = set(), []
    feats = [features(r) for r in runs]
    for f in feats:
        todo |= f
    rest = []
    for i in order:
        if feats[i] & todo:
            picked.append(i)
            todo -= feats[i]
        else:
            rest.append(i)
    picked += rest[:max(0, n - len(picked))]
    return [runs[i] for i in sorted(picked)]


def hostile(cfg):
    return [c for c in cfg['argv'] + cfg['env'] if c != 'plain']


def build_cases(runs, rng, per_data_run):
    '''concrete cases: every run once; runs with hostile tokens several times
       with different strings; sandbox / name / probe / cores variants by the seed'''
    cases, counters = [], {}
    for cfg, F, xrc in runs:
        k = per_data_run if hostile(cfg) else 1
        for _ in range(k):
            kw = {}
            if rng.random() < 0.12:
                kw['sbox'] = 'out'
            if rng.random() < 0.2:
                kw['name'] = rng.choice(['my.task', 'stage-2', 'sim_000017'])
            if rng.random() < 0.04:
                kw['probe'] = 'c10_exe_py'
            if cfg['omp']:
                kw['cpr'] = rng.choice([1, 2, 4])
            if cfg['gq']:
                kw['gbase'] = rng.choice([0, 0, 1, 4])
            cases.append(R.make_case('task.%06d' % len(cases), cfg, F, xrc, rng, counters, **kw))
    return cases


# ------------------------------------------------------------------------------
ENV_UNESCAPED = 'environment value with a double quote or a trailing / doubled backslash'
NAMED_ENV_KEY = 'named environment and a described key it defines or its activation unsets'
GPU_SHARE     = 'ranks sharing a GPU (fractional gpus_per_rank)'
GPU_WHOLE     = 'whole GPUs per rank or none'
STARTUP_MULTI = 'startup_timeout set on a multi-rank task'
MIXED_IO      = 'exactly one of td.stdout / td.stderr is an absolute path'
ANY_TASK      = 'every task'
OTHER         = 'task without hostile environment value'


def classify(case, clause):
    '''input class of a failing run (for known-findings matching)'''
    if clause.startswith('C10.RpEnv.') and clause != 'C10.RpEnv.RP_RANK':
        return ANY_TASK
    for val in case['env']:
        if '"' in val or val.endswith('\\') or '\\\\' in val:
            return ENV_UNESCAPED
    cfg = case['cfg']
    if cfg.get('nenv') and any(k != 'fresh' for k in cfg.get('envk', [])):
        return NAMED_ENV_KEY
    if cfg.get('err') == 'same':
        return 'td.stderr names the same file as td.stdout'
    if (cfg['out'] == 'abs') != (cfg.get('err', cfg['out']) == 'abs'):
        return MIXED_IO
    if cfg.get('sv', 'none') != 'none':
        return 'stale %s in the environment of the ranks, launcher flavor %s' % (cfg['sv'], cfg['fl'])
    if cfg.get('fl') not in (None, 'none', 'ompi'):
        return 'MPI launcher of flavor ' + cfg['fl']
    if clause.startswith('C10.Gpu'):
        return GPU_SHARE if 0 < cfg.get('gq', 0) < 4 else GPU_WHOLE
    if cfg.get('sto') and cfg['ranks'] > 1:
        return STARTUP_MULTI
    return OTHER


def check_cases(chk, cases, workers):
    '''run the cases through the real code + shells, validate, report'''
    traces = R.run_cases(cases, workers=workers)
    # one monitor run per batch of traces, a few batches at a time
    size   = 1500
    chunks = [traces[k:k + size] for k in range(0, len(traces), size)]
    with ThreadPoolExecutor(max(1, min(4, workers // 2))) as tp:
        parts = list(tp.map(lambda ch: tracecheck.validate('Script', 'ScriptTrace', '',
                                                            [dict(t) for t in ch], max_batch=size,
                                                            timeout=1800), chunks))
    res = []
    for r, st in parts:
        res += r
        chk.states      += st['states']
        chk.transitions += st['transitions']
        chk.cmds.append(st['cmd'])
    info = {}
    for case, tr, errs in zip(cases, traces, res):
        chk.traces += 1
        if case['F'] or hostile(case['cfg']) or case['cfg']['ranks'] > 1:
            chk.nontrivial.add(json.dumps([case['cfg'], case['F'], case['argv'], case['env']],
                                          sort_keys=True))
        for err in errs:
            pfx = err.split('.')[0]
            if pfx == 'I10':
                info[err] = info.get(err, 0) + 1
            elif pfx == chk.pid or pfx == 'X' or (chk.pid == 'C09' and err.startswith('C10.Gpu')):
                # C09 share: the GPUs of the placement are pinned through the rank's environment
                err = err.replace('C10.Gpu', 'C09.Gpu', 1) if chk.pid == 'C09' else err
                chk.violation(err, classify(case, err),
                              'generated scripts of %s (argv %r, env %r, F %r) violate %s'
                              % (json.dumps(case['cfg'], sort_keys=True), case['argv'],
                                 case['env'], case['F'], err),
                              {'rig': 'script', 'case': case, 'errs': errs,
                               'events': [{k: v for k, v in e.items() if k != 'items'}
                                          for e in tr['events']]})
    return traces, info


def run(chk, tier, seed):
    rng     = random.Random(seed * 104729 + 10)
    quick   = tier == 'quick'
    slices  = SLICES['quick' if quick else 'thorough']
    if chk.pid == 'C09':
        slices = {k: v for k, v in slices.items() if k in ('res', 'flavor')}     # the GPU / rank slices
    workers = 8 if quick else 12

    # ---- 1. design model, exhaustive; terminal states printed ---------------------
    res = tlc.run('Script', 'MC', 'MC.cfg', workers=workers, timeout=1500,
                  extra_files=mc_files(slices))
    chk.add_tlc(res, 'exhaustive:' + '+'.join(slices))
    if not res.ok:
        raise Machinery('design model Script violates %s (intended design must hold):\n%s'
                        % (res.violated, res.trace[:3000]))
    chk.exhaustive = True
    runs = parse_runs(res.out)
    if not runs:
        raise Machinery('TLC printed no terminal state of Script')

    # ---- 2. deviation sensitivity of the model's invariants ------------------------
    if not quick:
        small = {'ctl': cfgset(pre=1, post=1), 'env': SLICES['quick']['env'],
                 'io': SLICES['quick']['io'], 'nenv': SLICES['quick']['nenv'],
                 'res': SLICES['quick']['res'], 'opt': SLICES['quick']['opt'],
                 'flavor': SLICES['quick']['flavor'], 'stale': SLICES['quick']['stale'],
                 'same': SLICES['quick']['same']}
        for dev in DEVS:
            r2 = tlc.run('Script', 'MC', 'MC.cfg', workers=workers, timeout=900,
                         extra_files=mc_files(small, devs=[dev]))
            chk.add_tlc(r2, 'deviation:' + dev)
            if r2.ok:
                raise Machinery('deviation %s not detected by the design model' % dev)
            chk.notes.append('deviation %s breaks %s in the design model' % (dev, r2.violated))

    # ---- 3. TLC's terminal states -> concrete runs of the real scripts -------------
    todo  = select(runs, 800, rng) if quick else runs
    cases = build_cases(todo, rng, per_data_run=2)
    traces, info = check_cases(chk, cases, workers)

    chk.evaluations = len(cases)
    chk.notes.append('%d terminal states of Script, %d instantiated, %d concrete runs'
                     % (len(runs), len(todo), len(cases)))
    if info:
        chk.notes.append('informational (shell expands these token classes on purpose, not alarmed): '
                         + ', '.join('%s x%d' % (k, info[k]) for k in sorted(info)))
    if traces:
        t = traces[0]
        chk.sample({'cfg': t['cfg'], 'F': t['F'], 'xrc': t['xrc'],
                    'events': [{k: v for k, v in e.items() if k not in ('items', 'argv', 'env')}
                               for e in t['events']]})
    chk.assumptions += [
        'the shell named in the scripts\' #! line (bash, else /bin/sh) of this machine stands for the '
        'compute node\'s shell',
        'multi-rank launchers are represented by a stand-in that starts n instances of the exec script '
        'with PMIX_RANK set and returns the first non-zero exit code; the rank id is read by the real '
        'MPIRun.get_rank_cmd; placement options of real launchers are C09',
        'quoting fidelity is decided over the enumerated token classes only (2-6 concrete strings per '
        'class); $, back-tick and newline tokens are run but only reported',
        'pre_exec_sync is exercised without failing pre_exec commands (a rank that fails before the '
        'barrier leaves the others waiting for the launcher to kill them)',
        'the named environment is an env dump in the pilot sandbox turned into an activation script '
        'by the real LaunchMethod.get_task_named_env / ru.env_prep; virtualenv creation itself is not run',
        'startup_timeout and services are not exercised']


def replay(chk, obj):
    case = obj['case']
    _, _ = check_cases(chk, [case], workers=1)
