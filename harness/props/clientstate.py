'''
C06, C13 and the notification half of C14 (C14a): ClientState design model
(exhaustive TLC), TLC behaviours replayed as operation sequences against the
real TaskManager / PilotManager / Task / Pilot, exhaustive small-scope
enumerations and seeded random operation sequences (pilot notifications carry
pilot documents whose optional fields come absent, None and present); every recorded trace is
validated by the ClientStateTrace monitor.  Only errors of the property under
check (prefix == chk.pid) are reported; "N.*" entries are notes that tell which
named deviation of the design model explains an observation.
'''

import os
import glob
import random
import shutil
import itertools

from .. import tlc, tracecheck
from ..core import Machinery
from ..rigs import client_rig as R

NT, NP = R.NT, R.NP
TD, TF, TC = R.T_DONE, R.T_FAILED, R.T_CANCELED
PD, PF, PC = R.P_DONE, R.P_FAILED, R.P_CANCELED

DEVS = ['DevFinalRaise', 'DevPilotCbAll', 'DevPilotCbCanceled', 'DevPBatchFirst', 'DevPFinalRaise',
        'DevRemovedUnwatched', 'DevApplyNoRecheck', 'DevApplyOverCanceled', 'DevLoopAborts',
        'DevAddLastWatched', 'DevAnnounceUnapplied', 'DevWaitExtendsFinal', 'DevInfoMerge',
        'DevSubmitOtherLock', 'DevRegisterWipes', 'DevBulkOverwrites']

INV_C06 = ['Monotone', 'AtMostOnce', 'GapsFilled', 'BatchIsolation', 'CbAgrees', 'TablesUntouched']
INV_C13 = ['OwnFail', 'OthersKeep']
INV_C14 = ['PMonotone', 'PGapsFilled', 'PFinalNotLeft', 'UnknownIgnored']
INVARIANTS = ['TypeOK'] + INV_C06 + INV_C13 + INV_C14 + ['PBatchComplete', 'EveryCallback']
# bulk dispatch announces where a task stands after a batch, not the way there
INV_BULK   = [i if i != 'GapsFilled' else 'GapsFilledBulk' for i in INVARIANTS]
PROPERTIES = ['FinalSticky', 'PFinalNotLeftAct']

WORKERS = 8


def _scen(NT=NT, NP=NP, tasks=('t1', 't2'), unk=(), pilots=(), punk=(), ptypes=('pilot',),
          mb=1, mpb=0, bindat=R.BIND_AT, early=False, direct=False, remove=False,
          race=False, lateadd=False, services=(), api=False, latesubmit=False, cbs=(), bulk=False):
    return dict(cbs=cbs, bulk=bulk, NT=NT, NP=NP, tasks=tasks, unk=unk, pilots=pilots, punk=punk, ptypes=ptypes,
                mb=mb, mpb=mpb, bindat=bindat, early=early, direct=direct, remove=remove,
                race=race, lateadd=lateadd, services=services, api=api, latesubmit=latesubmit)


# small-scope instances of the design model, exhaustive
SCENARIOS = {
    # C06: two tasks + an unknown uid, every batch of <= 2 entries
    'tasks-q' : _scen(NT=6,  tasks=('t1', 't2'), unk=('tx',), mb=2),
    'tasks-t' : _scen(NT=15, tasks=('t1', 't2'), unk=('tx',), mb=2),
    # C06: application calls and service info between the batches; t2 is a service
    'api-q'   : _scen(NT=3,  tasks=('t1', 't2'), unk=('tx',), mb=2, services=('t2',), api=True),
    # C06: two application callbacks registered / unregistered per scope between the
    # batches, per state and bulk dispatch
    'cbs-q'   : _scen(NT=1,  tasks=('t1', 't2'), mb=1, cbs=('A', 'B')),
    'cbs-b'   : _scen(NT=1,  tasks=('t1', 't2'), mb=2, cbs=('A',), bulk=True),
    # C13: tasks in the middle of their submission when a pilot ends
    'submit-q': _scen(NT=2, NP=2, tasks=('t1', 't2'), pilots=('p1', 'p2'), mb=1, bindat=1,
                      early=True, direct=True, latesubmit=True),
    # C13: every assignment x every task state x every order of pilot deaths
    'death-q' : _scen(NT=4, NP=2, tasks=('t1', 't2'), pilots=('p1', 'p2'), mb=1, bindat=2,
                      early=True, direct=True),
    # C13 through the pmgr -> pilot -> tmgr chain; pilots reach the task manager
    # through add_pilots (alone or as a list) and may be removed from it, in any
    # order relative to bindings and deaths
    'chain-q' : _scen(NT=3, NP=2, tasks=('t1',), pilots=('p1', 'p2'), mb=1, mpb=1, bindat=1,
                      early=True, remove=True, lateadd=True),
    'chain-t' : _scen(NT=3, NP=2, tasks=('t1', 't2'), pilots=('p1', 'p2'), mb=1, mpb=1, bindat=1,
                      early=True, remove=True),
    'death-t' : _scen(NT=4, NP=2, tasks=('t1', 't2', 't3'), pilots=('p1', 'p2'), mb=1, bindat=2,
                      early=True, direct=True),
    # C06 / C13: the pilot callback as a second writer of Task.state (select, then
    # apply FAILED task by task), notifications in between; Task._update on final tasks
    # and _update_tasks step by step (select, apply, fire) with the callback in between
    'race-q'  : _scen(NT=2, NP=2, tasks=('t1', 't2'), pilots=('p1',), mb=1, bindat=1,
                      early=True, direct=True, race=True),
    'race-t'  : _scen(NT=3, NP=2, tasks=('t1', 't2'), pilots=('p1', 'p2'), mb=1, bindat=1,
                      early=True, direct=True, race=True),
    # C13: add_pilots with three pilots, any grouping, any time
    'add-t'   : _scen(NT=2, NP=2, tasks=('t1', 't2'), pilots=('p1', 'p2', 'p3'), mb=0, mpb=1,
                      bindat=1, early=True, lateadd=True),
    # C14a: two pilots + an unknown one, every batch of <= 2 entries; the task
    # manager's callback hangs on the pilots
    'pilots-q': _scen(NT=2, tasks=('t1',), pilots=('p1', 'p2'), punk=('px',), mb=0, mpb=2,
                      bindat=1, early=True),
    'pilots-t': _scen(NT=2, tasks=('t1',), pilots=('p1', 'p2'), punk=('px',),
                      ptypes=('pilot', 'task'), mb=0, mpb=2, bindat=1, early=True),
}

# instances with the real state chains, simulated to obtain behaviours
SIM = {
    'sim-tasks' : _scen(tasks=('t1', 't2', 't3'), unk=('tx',), pilots=('p1', 'p2'), mb=4,
                        early=True, direct=True, remove=True, race=True, services=('t3',), api=True,
                        cbs=('A', 'B')),
    'sim-bulk'  : _scen(tasks=('t1', 't2', 't3'), unk=('tx',), mb=4, services=('t3',), api=True,
                        cbs=('A', 'B'), bulk=True),
    'sim-pilots': _scen(tasks=('t1', 't2'), pilots=('p1', 'p2'), punk=('px',),
                        ptypes=('pilot', 'task', 'none'), mb=2, mpb=3, early=True, remove=True),
    'sim-all'   : _scen(tasks=('t1', 't2', 't3'), unk=('tx',), pilots=('p1', 'p2', 'p3'), punk=('px',),
                        mb=3, mpb=2, early=True, direct=True, remove=True, race=True, lateadd=True,
                        services=('t3',), api=True),
}

PLAN = {   # property -> (exhaustive scenarios quick / thorough only, simulated instances)
    'C06': (['tasks-q', 'race-q', 'api-q', 'cbs-q', 'cbs-b'],  ['tasks-t', 'race-t'],
            ['sim-tasks', 'sim-bulk']),
    'C13': (['death-q', 'chain-q', 'submit-q'],  ['death-t', 'chain-t', 'race-t', 'add-t'],  ['sim-all']),
    'C14': (['pilots-q'], ['pilots-t'], ['sim-pilots']),
}

# deviation -> (scenario, invariants, properties, expected violation or None)
DEVIATIONS = {
    'C06': [('DevFinalRaise',      'tasks-q',  ['BatchIsolation'], [], 'BatchIsolation'),
            ('DevFinalRaise',      'tasks-q',  ['GapsFilled'],     [], 'GapsFilled'),
            ('DevPilotCbCanceled', 'death-q',  [], ['FinalSticky'],    'FinalSticky'),
            ('DevApplyNoRecheck',    'race-q', [], ['FinalSticky'],    'FinalSticky'),
            ('DevApplyOverCanceled', 'race-q', [], ['FinalSticky'],    'FinalSticky'),
            ('DevAnnounceUnapplied', 'race-q', ['CbAgrees'], [],       'CbAgrees'),
            ('DevWaitExtendsFinal',  'api-q',  ['TablesUntouched'], [], 'TablesUntouched'),
            ('DevInfoMerge',         'api-q',  ['BatchIsolation'], [],  'BatchIsolation'),
            ('DevRegisterWipes',     'cbs-q',  ['EveryCallback'], [],   'EveryCallback'),
            ('DevBulkOverwrites',    'cbs-b',  ['EveryCallback'], [],   'EveryCallback')],
    'C13': [('DevPilotCbAll',      'death-q',  INV_C13, [], 'OthersKeep'),
            ('DevPilotCbCanceled', 'death-q',  INV_C13, [], 'OthersKeep'),
            ('DevRemovedUnwatched', 'chain-q', INV_C13, [], 'OwnFail'),
            ('DevLoopAborts',       'race-q',  INV_C13, [], 'OwnFail'),
            ('DevAddLastWatched',   'chain-q', INV_C13, [], 'OwnFail'),
            ('DevSubmitOtherLock',  'submit-q', INV_C13, [], 'OwnFail')],
    # D19 and the raise on DONE -> FAILED lose notifications but leave what C14
    # states intact: the C14 invariants hold, PBatchComplete (no property) fails
    'C14': [('DevPBatchFirst',     'pilots-q', INV_C14, ['PFinalNotLeftAct'], None),
            ('DevPBatchFirst',     'pilots-q', ['PBatchComplete'], [], 'PBatchComplete'),
            ('DevPFinalRaise',     'pilots-q', INV_C14, ['PFinalNotLeftAct'], None),
            ('DevPFinalRaise',     'pilots-q', ['PBatchComplete'], [], 'PBatchComplete')],
}


# ------------------------------------------------------------------------------
def _set(xs):
    return '{' + ', '.join('"%s"' % x for x in xs) + '}'


def _bool(b):
    return 'TRUE' if b else 'FALSE'


def cfg_constants(sc, devs=()):
    c = ('CONSTANTS\n NT = %d\n NP = %d\n Tasks = %s\n UnknownTasks = %s\n Pilots = %s\n'
         ' UnknownPilots = %s\n PTypes = %s\n MaxBatch = %d\n MaxPBatch = %d\n BindAt = %d\n'
         ' EarlyBind = %s\n DirectFinal = %s\n AllowRemove = %s\n Race = %s\n LateAdd = %s\n'
         ' Services = %s\n Api = %s\n LateSubmit = %s\n Cbs = %s\n Bulk = %s\n'
         % (sc['NT'], sc['NP'], _set(sc['tasks']), _set(sc['unk']), _set(sc['pilots']),
            _set(sc['punk']), _set(sc['ptypes']), sc['mb'], sc['mpb'], sc['bindat'],
            _bool(sc['early']), _bool(sc['direct']), _bool(sc['remove']),
            _bool(sc['race']), _bool(sc['lateadd']),
            _set(sc['services']), _bool(sc['api']), _bool(sc['latesubmit']),
            _set(sc['cbs']), _bool(sc['bulk'])))
    for d in DEVS:
        c += ' %s = %s\n' % (d, _bool(d in devs))
    return c


def mc_files(sc, devs=(), invariants=None, props=None):
    cfg = cfg_constants(sc, devs) + 'SPECIFICATION Spec\nCHECK_DEADLOCK FALSE\n'
    for i in ((INV_BULK if sc['bulk'] else INVARIANTS) if invariants is None else invariants):
        cfg += 'INVARIANT %s\n' % i
    for p in (PROPERTIES if props is None else props):
        cfg += 'PROPERTY %s\n' % p
    return {'MC.cfg': cfg}


# simulation wrapper: the kind of the next operation is picked first, so that
# the few Bind / PilotFinal steps are not drowned by the many Notify batches;
# `last` names the operation for the rig
MCSIM = r'''---- MODULE MCSim ----
EXTENDS ClientState
VARIABLES pick, last
Kinds == IF dying # None THEN {"N", "A", "E"}          \* a pilot callback is in progress
         ELSE IF nphase # "idle" THEN {"T", "F"}         \* _update_tasks is in progress
         ELSE (IF Race THEN {"NB"} ELSE {}) \cup {"N", "B"} \cup (IF DirectFinal THEN {"F"} ELSE {}) \cup (IF MaxPBatch > 0 THEN {"P"} ELSE {})
              \cup (IF AllowRemove THEN {"R"} ELSE {}) \cup (IF Race THEN {"S", "U"} ELSE {})
              \cup (IF LateAdd THEN {"G"} ELSE {}) \cup (IF Api THEN {"Q", "I"} ELSE {})
              \cup (IF Cbs # {} THEN {"CR", "CU"} ELSE {})
\* random batches (simulation only): one successor per batch length
RandT(k) == [i \in 1 .. k |-> RandomElement(TEntries)]
RandP(k) == [i \in 1 .. k |-> RandomElement(PEntries)]
SimInit == Init /\ pick = "none" /\ last = <<"skip">>
SimNext ==
  \/ /\ pick = "none" /\ pick' \in Kinds /\ last' = <<"skip">> /\ UNCHANGED vars
  \/ /\ pick = "N" /\ pick' = "none"
     /\ \E k \in 1 .. MaxBatch : \E b \in {RandT(k)} : Notify(b) /\ last' = <<"notify", b>>
  \/ /\ pick = "B" /\ pick' = "none"
     /\ \E t \in Tasks, p \in Pilots : Bind(t, p) /\ last' = <<"bind", t, p>>
  \/ /\ pick = "F" /\ pick' = "none"
     /\ \E p \in Pilots : PilotFinal(p) /\ last' = <<"final", p>>
  \/ /\ pick = "P" /\ pick' = "none"
     /\ \E k \in 1 .. MaxPBatch : \E b \in {RandP(k)} : PNotify(b) /\ last' = <<"pnotify", b>>
  \/ /\ pick = "R" /\ pick' = "none"
     /\ \E p \in Pilots : RemovePilots(p) /\ last' = <<"remove", p>>
  \/ /\ pick = "NB" /\ pick' = "none"
     /\ \E k \in 1 .. MaxBatch : \E b \in {RandT(k)} : NBegin(b) /\ last' = <<"nbegin", b>>
  \/ /\ pick = "T" /\ pick' = "none"
     /\ \/ NSelect /\ last' = <<"nsel">>
        \/ NApply  /\ last' = <<"napply", plan[1]>>
        \/ NToFire /\ last' = <<"ntofire">>
        \/ NFire   /\ last' = <<"nfire">>
  \/ /\ pick = "CR" /\ pick' = "none"
     /\ \E c \in Cbs, sc \in Tasks \cup {"*"} : CbRegister(c, sc) /\ last' = <<"cbreg", c, sc>>
  \/ /\ pick = "CU" /\ pick' = "none"
     /\ \E c \in Cbs, sc \in Tasks \cup {"*"} : CbUnregister(c, sc) /\ last' = <<"cbunreg", c, sc>>
  \/ /\ pick = "Q" /\ pick' = "none"
     /\ \E s \in {RandomElement(AllStates(NT))} : ApiCall(s) /\ last' = <<"api", s>>
  \/ /\ pick = "I" /\ pick' = "none"
     /\ \E t \in Tasks, k \in {"str", "dict"} : SetInfo(t, k) /\ last' = <<"info", t, k>>
  \/ /\ pick = "S" /\ pick' = "none"
     /\ \E p \in Pilots : DeathSelect(p) /\ last' = <<"select", p>>
  \/ /\ pick = "A" /\ pick' = "none"
     /\ \E t \in Tasks : DeathApply(t) /\ last' = <<"apply", t>>
  \/ /\ pick = "E" /\ pick' = "none" /\ DeathEnd /\ last' = <<"end">>
  \/ /\ pick = "U" /\ pick' = "none"
     /\ \E t \in Tasks, s \in AllStates(NT) : DirectUpdate(t, s) /\ last' = <<"update", t, s>>
  \/ /\ pick = "G" /\ pick' = "none"
     /\ \E G \in SUBSET Pilots : AddPilots(G) /\ last' = <<"add", G>>
  \/ /\ pick # "none" /\ pick' = "none" /\ last' = <<"skip">> /\ UNCHANGED vars
SimSpec == SimInit /\ [][SimNext]_<<vars, pick, last>>
====
'''


def sim_files(sc):
    cfg = cfg_constants(sc) + 'SPECIFICATION SimSpec\nCHECK_DEADLOCK FALSE\n'
    for i in (INV_BULK if sc['bulk'] else INVARIANTS):
        cfg += 'INVARIANT %s\n' % i
    return {'MCSim.tla': MCSIM, 'MCSim.cfg': cfg}


def ops_from_behaviour(path, rng, rich=True):
    '''(init_bound, ops) of one simulated behaviour of MCSim'''
    steps = tlc.parse_sim_file(path)
    if not steps:
        return None, []
    bound = steps[0][2].get('bound', {})
    ops   = []
    race  = None          # death_race operation under construction
    held  = []            # notifications since the last step of the callback
    nrace = None          # notify_race operation under construction
    done  = {}            # ... Task._update calls per uid / callbacks fired so far
    for _, _, st in steps[1:]:
        last = st.get('last')
        if not isinstance(last, list) or not last or last[0] == 'skip':
            continue
        if last[0] in ('cbreg', 'cbunreg'):
            ops.append(['cb_register' if last[0] == 'cbreg' else 'cb_unregister', last[1], last[2], 'state'])
            if rng.random() < 0.2:        # another metric on the same scope is none of their business
                ops.append(['cb_register', rng.choice(['A', 'B', 'W']), last[2], 'wait'])
            continue
        if last[0] == 'api':
            r = rng.random()
            ops.append(['api', 'wait_tasks', {'state': last[1], 'timeout': 0.3}] if r < 0.5 else
                       ['api', 'wait_tasks', {'timeout': 0.2}] if r < 0.65 else
                       ['api', 'list_tasks', {}] if r < 0.8 else ['api', 'get_tasks', {}])
            continue
        if last[0] == 'info':
            ops.append(['service_info', last[1], last[2], rng.choice(['control', 'direct'])])
            continue
        if last[0] == 'nbegin':
            nrace = ['notify_race', [[e[0], e[1], random_tdoc(rng, rich)] for e in last[1]], []]
            done  = {'fire': 0}
        elif last[0] == 'napply' and nrace:
            done[last[1]] = done.get(last[1], 0) + 1
        elif last[0] == 'nfire' and nrace:
            done['fire'] += 1
        elif last[0] == 'final' and nrace:
            # where _update_tasks stands when the pilot callback runs
            plan, rest = st.get('plan') or [], st.get('nb') or []
            if st.get('nphase') == 'fire':
                point = ['fire', done['fire']]
            elif plan:
                point = [plan[0], done.get(plan[0], 0)]
            elif rest:
                point = [rest[0][0], done.get(rest[0][0], 0)]
            else:
                point = ['fire', 0]
            nrace[2].append([point, ['pilot_final', last[1], rng.choice([PD, PF, PC]),
                                     rng.choice(['list', 'single']), False]])
        if nrace and st.get('nphase') == 'idle' and last[0] in ('ntofire', 'nfire'):
            ops.append(nrace)
            nrace = None
        if last[0] in ('nbegin', 'nsel', 'napply', 'ntofire', 'nfire') or (last[0] == 'final' and nrace):
            continue
        if last[0] == 'notify':
            batch = [[e[0], e[1], random_tdoc(rng, rich)] for e in last[1]]
            if race:
                held += batch
            else:
                ops.append(['notify', batch])
        elif last[0] == 'select':
            race, held = ['death_race', last[1], rng.choice([PD, PF, PC]),
                          rng.choice(['list', 'single']), []], []
        elif last[0] == 'apply' and race:
            if held:                       # delivered when the callback is about to fail this task
                race[4].append([last[1], held])
                held = []
        elif last[0] == 'end' and race:
            ops.append(race)
            if held:
                ops.append(['notify', held])
            race, held = None, []
        elif last[0] == 'update':
            ops.append(['task_update', last[1], last[2],
                        {'exception': 'RuntimeError("late")', 'exception_detail': 'late update'}])
        elif last[0] == 'add':
            group = sorted(last[1])
            ops.append(['add_pilots', group[0] if len(group) == 1 and rng.random() < 0.5 else group])
        elif last[0] == 'remove':
            ops.append(['remove_pilots', rng.choice([last[1], [last[1]]])])
        elif last[0] == 'bind':
            ops.append(['bind', last[1], last[2]])
        elif last[0] == 'final':
            ops.append(['pilot_final', last[1], rng.choice([PD, PF, PC]),
                        rng.choice(['list', 'single']), rng.random() < 0.5])
        elif last[0] == 'pnotify':
            ops.append(['pnotify', [[e[0], e[1], e[2], random_doc(rng)] for e in last[1]]])
    if race:
        ops.append(race)
        if held:
            ops.append(['notify', held])
    if nrace:
        ops.append(nrace)
    return bound, ops


# ------------------------------------------------------------------------------
# contents of the pilot documents (pmgr -> pilot -> tmgr chain): every optional
# field the real update chain reads comes absent, None and present
#
def doc_variants():
    fields = R.PILOT_DOC_FIELDS
    out = [{}]
    for k in sorted(fields):
        for v in fields[k]:
            out.append({k: v})
    out.append({k: None for k in fields})
    out.append({k: fields[k][-1] for k in fields})
    return out


DOCS = doc_variants()


def random_doc(rng):
    if rng.random() < 0.4:
        return {}
    if rng.random() < 0.2:
        return rng.choice(DOCS)
    keys = rng.sample(sorted(R.PILOT_DOC_FIELDS), rng.randint(1, 3))
    return {k: rng.choice(R.PILOT_DOC_FIELDS[k]) for k in keys}


def tdoc_variants():
    fields = R.TASK_DOC_FIELDS
    out = [{}]
    for k in sorted(fields):
        for v in fields[k]:
            out.append({k: v})
    out.append({k: None for k in fields})
    # a task that failed on the agent and is handed back for output staging
    out.append({'exception': fields['exception'][-1], 'exception_detail': fields['exception_detail'][-1],
                'exit_code': 1, 'stderr': 'task stderr', 'target_state': 'FAILED'})
    out.append({k: fields[k][-1] for k in fields})
    return out


TDOCS = tdoc_variants()


def random_tdoc(rng, rich=True):
    '''rich: include documents that make Task.as_dict raise (slots as one dict)'''
    if rng.random() < 0.6:
        return {}
    if rng.random() < 0.3:
        doc = rng.choice(TDOCS)
    else:
        keys = rng.sample(sorted(R.TASK_DOC_FIELDS), rng.randint(1, 3))
        doc  = {k: rng.choice(R.TASK_DOC_FIELDS[k]) for k in keys}
    if not rich and isinstance(doc.get('slots'), dict):
        doc = {k: v for k, v in doc.items() if k != 'slots'}
    return doc


def enum_taskdocs():
    '''non-final tasks that already carry error information (every document
       variant, at three states) when their pilot ends, on all three routes'''
    init = {'t1': 'p1', 't2': 'p2'}
    deaths = [['pilot_final', 'p1', PF, 'list', True], ['pilot_final', 'p1', PC, 'single', False],
              ['pnotify', [['pilot', 'p1', PD]]]]
    n = 0
    for doc in TDOCS:
        for s in (10, NT - 2, NT - 1):            # AGENT_EXECUTING, TMGR_STAGING_OUTPUT(_PENDING)
            n += 1
            ops = [['bind', 't3', 'p1'],
                   ['notify', [['t1', s, doc], ['t2', s, doc], ['t3', s - 1, doc]]],
                   ['notify', [['t3', s, TDOCS[n % len(TDOCS)]]]],
                   deaths[n % 3],
                   ['notify', [['t1', TD], ['t2', s + 1 if s + 1 < NT else TD]]]]
            yield (['t1', 't2', 't3', 't4'], ['p1', 'p2'], init, ops)


def enum_remove(quick):
    '''remove_pilots in every order relative to late binding, progress and the
       deaths of both pilots; tasks of a removed pilot are still its tasks'''
    init  = {'t1': 'p1', 't2': 'p2'}
    fixed = {'b': ['bind', 't3', 'p1'], 'n': ['notify', [['t1', 9], ['t2', 4], ['t4', 2]]]}
    n = 0
    for rm in (['remove_pilots', 'p1'], ['remove_pilots', ['p1']], ['remove_pilots', ['p2']],
               ['remove_pilots', ['p1', 'p2']], ['remove_pilots', ['p2', 'p1']]):
        for fin, route in ([(PF, 'pmgr'), (PC, 'list'), (PD, 'pmgr'), (PF, 'single')] if quick else
                           itertools.product((PF, PC, PD), ('pmgr', 'list', 'single'))):
            if True:
                def death(pid, k):
                    if route == 'pmgr':
                        return ['pnotify', [['pilot', pid, fin, DOCS[(n + k) % len(DOCS)]]]]
                    return ['pilot_final', pid, fin, route, k % 2 == 0]
                for order in itertools.permutations(['b', 'n', 'r', 'd1', 'd2']):
                    # a pilot that left or ended gets no new tasks; p1 ends before p2
                    if order.index('b') > order.index('d1') or order.index('d1') > order.index('d2'):
                        continue
                    if 'p1' in ru_list(rm[1]) and order.index('b') > order.index('r'):
                        continue
                    n += 1
                    ops = []
                    for o in order:
                        ops.append(rm if o == 'r' else death('p1', n) if o == 'd1'
                                   else death('p2', n + 1) if o == 'd2' else fixed[o])
                    yield (['t1', 't2', 't3', 't4'], ['p1', 'p2'], init, ops)


def ru_list(x):
    return x if isinstance(x, list) else [x]


def enum_race(quick):
    '''two writers of Task.state.  (a) the pilot callback has selected a victim,
       the state subscriber delivers a notification (for the victim, for a later
       or an earlier victim, for a bystander), then the callback applies FAILED:
       every victim position x every notification kind x both call forms;
       (b) Task._update called directly on a final task, every target state'''
    tasks, pilots = ['t1', 't2', 't3', 't4'], ['p1', 'p2']
    init = {'t1': 'p1', 't2': 'p1', 't3': 'p1', 't4': 'p2'}
    pres = [9, NT - 1] if quick else [1, 9, NT - 2, NT - 1]
    n = 0
    for pre in pres:
        setup = ['notify', [[u, pre] for u in tasks]]
        for victim in ('t1', 't2', 't3'):
            others = [u for u in ('t1', 't2', 't3') if u != victim]
            batches = [[[victim, TD]], [[victim, TC]], [[victim, TF]],
                       [[victim, min(pre + 1, NT - 1)]],
                       [[victim, TD, {'exit_code': 0, 'stdout': 'result'}], [others[0], TC]],
                       [[others[1], TD], [victim, TC, {'stderr': 'canceled'}]],
                       [['t4', TC], [victim, NT - 1], [victim, TD]]]
            for batch in batches:
                n += 1
                ops = [setup, ['death_race', 'p1', [PF, PC, PD][n % 3], ['list', 'single'][n % 2],
                               [[victim, batch]]],
                       ['notify', [[u, TD] for u in tasks]]]
                yield (tasks, pilots, init, ops)
        # two windows in one callback
        yield (tasks, pilots, init,
               [setup, ['death_race', 'p1', PF, 'list', [['t1', [['t2', TC]]], ['t3', [['t3', TD]]]]]])
        yield (tasks, pilots, init,
               [setup, ['death_race', 'p1', PC, 'single', [['t2', [['t1', TD], ['t3', TC]]]]]])
    extras = {'exception': 'RuntimeError("pilot died")', 'exception_detail': 'pilot p1 is final'}
    for fin in (TD, TF, TC):
        for tgt in range(NT + 3):
            yield (['t1', 't2'], ['p1'], {'t1': 'p1'},
                   [['notify', [['t1', fin], ['t2', 5]]], ['task_update', 't1', tgt, extras],
                    ['notify', [['t1', TD], ['t2', 6]]]])


def enum_registry(quick):
    '''the callback registry between the batches: several callback objects per
       scope (all tasks, one task), the same object on several scopes, another
       metric on the same scope, unregistration; per state and bulk dispatch.
       Batches with skips, duplicates, several tasks, contradictory finals.'''
    tasks = ['t1', 't2', 't3']
    b1 = ['notify', [['t1', 2], ['t2', 1]]]
    b2 = ['notify', [['t1', 5], ['t2', 5], ['t3', 2], ['t1', 5]]]
    b3 = ['notify', [['t2', TD], ['t1', NT - 1], ['t3', TC]]]
    b4 = ['notify', [['t1', TD], ['t2', TF], ['t3', TD]]]
    R_ = lambda n, sc, m='state': ['cb_register', n, sc, m]
    U_ = lambda n, sc, m='state': ['cb_unregister', n, sc, m]
    plans = [
        [R_('A', '*'), b1, R_('B', '*'), b2, b3, b4],                       # B must not silence A
        [R_('A', 't1'), b1, R_('B', 't1'), b2, R_('C', 't1'), b3, b4],
        [R_('A', 't1'), R_('A', 't2'), R_('A', 't3'), b1, b2, b3, b4],      # one object, several tasks
        [R_('A', 't1'), R_('A', 't2'), b1, R_('B', '*'), b2, R_('B', 't2'), b3, b4],
        [R_('A', '*'), R_('B', 't1'), b1, R_('W', 't1', 'wait'), R_('W', '*', 'wait'), b2, b3, b4],
        [R_('A', '*'), R_('B', '*'), b1, U_('A', '*'), b2, R_('A', '*'), b3, U_('B', '*'), b4],
        [R_('A', 't1'), R_('B', 't1'), b1, U_('A', 't1'), b2, R_('C', 't2'), R_('C', 't1'), b3, b4],
        [R_('A', 't2'), b1, R_('A', 't2'), b2, R_('B', 't2'), R_('B', 't3'), b3, b4],   # re-registration
        [R_('A', 'tx'), U_('A', '*'), U_('B', 't1'), b1, R_('A', '*'), b2, b3, b4],     # calls that raise
    ]
    orders = [list(range(4))] if quick else [list(range(4)), [1, 0, 2, 3]]
    for plan in plans:
        for bulk in (False, True):
            yield (tasks, ['p1'], {}, list(plan), None, None, None, bulk)
    # registration at every point of a history, for every scope
    for k in range(4):
        for sc in ('*', 't1', 't2'):
            for bulk in (False, True):
                hist = [R_('A', sc), b1, b2, b3, b4]
                hist.insert(k + 1, R_('B', sc))
                yield (tasks, ['p1'], {}, hist, None, None, None, bulk)


def enum_gapfinal(quick):
    '''the final notification of a pilot arrives over a gap: from every earlier
       state to each of the three final states; its tasks are failed all the same'''
    tasks = ['t1', 't2', 't3', 't4']
    init  = {'t1': 'p1', 't2': 'p1', 't3': 'p2'}
    for pre in range(NP):
        for fin in (PD, PF, PC):
            for how in ('steps', 'jump'):
                ops = [['notify', [['t1', 10], ['t2', 3], ['t3', 10], ['t4', 2]]]]
                if pre and how == 'steps':
                    ops += [['pnotify', [['pilot', 'p1', s]]] for s in range(1, pre + 1)]
                elif pre:
                    ops += [['pnotify', [['pilot', 'p1', pre]]]]
                ops += [['pnotify', [['pilot', 'p1', fin]]], ['notify', [['t3', 11]]],
                        ['pnotify', [['pilot', 'p2', fin]]]]
                yield (tasks, ['p1', 'p2'], init, ops)


def enum_pregister(quick):
    '''another thread registers a callback on the pilot while Pilot._update
       dispatches its callbacks (k-th dispatch of the notification): all callbacks
       registered earlier are served, the pilot's tasks are failed'''
    tasks = ['t1', 't2', 't3']
    init  = {'t1': 'p1', 't2': 'p1', 't3': 'p2'}
    for pre in (0, 2, NP - 1):
        for fin in (PD, PF, PC):
            for k in (1, 2, 3):
                ops = [['notify', [['t1', 10], ['t2', 3], ['t3', 10]]]]
                if pre:
                    ops.append(['pnotify', [['pilot', 'p1', pre]]])
                ops += [['pnotify_race', [['pilot', 'p1', fin]], ['p1', k, ['pilot_register', 'p1', 'X']]],
                        ['pnotify', [['pilot', 'p2', PF]]]]
                yield (tasks, ['p1', 'p2'], init, ops)
    yield (tasks, ['p1', 'p2'], init,
           [['pilot_register', 'p1', 'Y'], ['pnotify', [['pilot', 'p1', PF]]]])


def enum_api(quick):
    '''application calls between the notification batches of one history: every
       awaited state x what the tasks have reached x the call forms; the later
       batches (single steps, skips, a duplicate, the final batch) are applied as
       if nobody had asked'''
    tasks = ['t1', 't2', 't3']
    calls = lambda s: [['api', 'wait_tasks', {'uids': list(tasks), 'state': s, 'timeout': 0}],
                       ['api', 'wait_tasks', {'uids': 't1', 'state': s, 'timeout': 0.3}],
                       ['api', 'wait_tasks', {'state': [s, TD], 'timeout': 0.2}],
                       ['api', 'wait_tasks', {'state': min(s + 2, NT - 1), 'timeout': 0.3}]]
    rest  = lambda s: [['notify', [['t1', min(s + 1, NT - 1)], ['t2', min(s + 2, NT - 1)],
                                   ['t3', NT - 2]]],
                       ['notify', [['t2', min(s + 2, NT - 1)]]],
                       ['api', 'list_tasks', {}], ['api', 'get_tasks', {'uids': ['t1', 't3']}],
                       ['notify', [[u, NT - 1] for u in tasks]],
                       ['api', 'wait_tasks', {'timeout': 0.2}], ['api', 'get_tasks', {}],
                       ['notify', [['t1', TD], ['t2', TF], ['t3', TD]]],
                       ['api', 'wait_tasks', {}]]
    for s in (range(1, NT, 3) if quick else range(1, NT)):
        for k, call in enumerate(calls(s)):
            yield (tasks, ['p1'], {}, [['notify', [[u, 1] for u in tasks]],
                                       ['notify', [[u, s] for u in tasks]], call] + rest(s))
    for call in (['api', 'wait_tasks', {'timeout': 0.2}], ['api', 'list_tasks', {}],
                 ['api', 'get_tasks', {}], ['api', 'get_tasks', {'uids': 'tx'}],
                 ['api', 'wait_tasks', {'uids': ['tx'], 'timeout': 0.2}]):
        yield (tasks, ['p1'], {}, [['notify', [[u, 4] for u in tasks]], call] + rest(4))


def enum_service(quick):
    '''service tasks that reported their startup info (a string, a dict, through
       the service_up handler or Task._set_info, once or twice) before their
       final notification arrives in a batch with other tasks, at every position
       of that batch'''
    tasks = ['t1', 's1', 't2']
    modes = {'s1': 'service'}
    n = 0
    for infos in ([], [('str', 'control')], [('dict', 'control')], [('dict', 'direct')],
                  [('str', 'control'), ('dict', 'control')], [('dict', 'control'), ('dict', 'direct')],
                  [('dict', 'control'), ('str', 'direct')], [('none', 'control')]):
        for fin in (TC, TD, TF):
            for pos in (0, 1, 2):
                n += 1
                if quick and n % 2 and len(infos) != 1:
                    continue
                batch = [['t1', TD], ['t2', TD]]
                batch.insert(pos, ['s1', fin])
                ops  = [['notify', [[u, 10] for u in tasks]]]
                ops += [['service_info', 's1', what, via] for what, via in infos]
                ops += [['notify', [['t1', NT - 1], ['t2', NT - 1]]], ['notify', batch],
                        ['notify', batch]]
                yield (tasks, ['p1'], {'s1': 'p1'}, ops, modes, None)


def enum_submit(quick):
    '''the pilot ends while tasks are submitted to it: after the k-th Task object
       was created and before any is registered; both submission paths, every
       k, both call forms of the callback; other tasks around'''
    tasks = ['t1', 't2', 't3', 'a', 'b', 'c']
    init  = {'t1': 'p1', 't2': 'p2', 'a': 'p1', 'b': 'p1', 'c': 'p1'}
    n = 0
    for via in ('pilot', 'tmgr'):
        for k in (1, 2, 3):
            for fin, how in ((PF, 'list'), (PC, 'single'), (PD, 'list')):
                n += 1
                if quick and n % 2 and k == 3:
                    continue
                yield (tasks, ['p1', 'p2'], init,
                       [['notify', [['t1', 10], ['t2', 10], ['t3', 2]]],
                        ['submit', via, 'p1', ['a', 'b', 'c'], k, ['pilot_final', 'p1', fin, how, False]],
                        ['notify', [['t2', TD], ['a', 5]]],
                        ['pnotify', [['pilot', 'p2', PC]]]],
                       {}, None, ['a', 'b', 'c'])
    # the other pilot ends during the submission; a submission with nobody interfering
    yield (tasks, ['p1', 'p2'], init,
           [['notify', [['t1', 10], ['t2', 10]]],
            ['submit', 'pilot', 'p1', ['a', 'b', 'c'], 2, ['pilot_final', 'p2', PF, 'list', False]],
            ['pnotify', [['pilot', 'p1', PF]]]], {}, None, ['a', 'b', 'c'])
    yield (tasks, ['p1', 'p2'], init,
           [['submit', 'tmgr', 'p1', ['a', 'b', 'c'], 0, None], ['notify', [['a', 5], ['b', TD]]],
            ['pilot_final', 'p1', PC, 'single', True]], {}, None, ['a', 'b', 'c'])


def enum_appcb(quick):
    '''an application callback that cancels the pilot of a FAILED task (and so
       calls into the pilot manager from the state subscriber thread) while the
       pilot manager's thread delivers that pilot's final state: the acquisition
       order of the locks has no cycle, nobody waits forever, and the pilot's
       other tasks are FAILED'''
    tasks = ['t1', 't2', 't3', 't4']
    init  = {'t1': 'p1', 't2': 'p1', 't3': 'p2'}
    for batch in ([['t1', TF]], [['t3', 12], ['t1', TF], ['t4', 3]], [['t1', TF], ['t2', TF]],
                  [['t1', TF], ['t3', TF]], [['t2', TD], ['t1', TF]]):
        yield (tasks, ['p1', 'p2'], init,
               [['notify', [['t1', 10], ['t2', 10], ['t3', 10], ['t4', 2]]],
                ['app_cb', 'cancel_pilot'], ['notify', batch],
                ['notify', [['t3', NT - 1]]], ['pilot_cancel', 'p2']])
    yield (tasks, ['p1', 'p2'], init,
           [['notify', [['t1', 10], ['t2', 10], ['t3', 10]]], ['pilot_cancel', 'p1'],
            ['app_cb', 'cancel_pilot'], ['notify', [['t3', TF]]]])


def enum_revrace(quick):
    '''the same two writers the other way round: _update_tasks is under way (the
       passed states are computed / some are applied / callbacks are being
       fired) when the pilot callback runs: every point of a batch x kinds of
       batches x the pilot of the task or another one, both call forms'''
    tasks, pilots = ['t1', 't2', 't3'], ['p1', 'p2']
    init = {'t1': 'p1', 't2': 'p1', 't3': 'p2'}
    n = 0
    for pre in ([NT - 3] if quick else [2, NT - 3, NT - 1]):
        setup = ['notify', [['t1', pre], ['t2', 3], ['t3', pre]]]
        steps = NT - pre                                   # Task._update calls up to DONE
        for batch in ([['t1', TD]], [['t2', 5], ['t1', TD]], [['t1', TD], ['t2', TD]],
                      [['t1', TF]], [['t1', TC]], [['t1', pre + 1]], [['t1', TD], ['t3', TD]]):
            pts  = [['t1', k] for k in range(min(steps, 3))] + [['t2', 0], ['fire', 0], ['fire', 1]]
            for pt in pts:
                for death in (['pilot_final', 'p1', PF, 'list', False],
                              ['pilot_final', 'p1', PC, 'single', True],
                              ['pilot_final', 'p2', PD, 'list', False]):
                    n += 1
                    if quick and n % 2 and death[1] == 'p2':
                        continue
                    yield (tasks, pilots, init,
                           [setup, ['notify_race', batch, [[pt, death]]],
                            ['notify', [[u, TD] for u in tasks]]])
        # two interruptions of one call
        yield (tasks, pilots, init,
               [setup, ['notify_race', [['t1', TD], ['t3', TD]],
                        [[['t1', 1], ['pilot_final', 'p2', PF, 'list', False]],
                         [['t3', 1], ['pilot_final', 'p1', PC, 'single', False]]]]])


def enum_modes(quick):
    '''the pilot's tasks are of all kinds: a service task (still starting up)
       and / or a task whose document cannot be built (as_dict raises: slots
       published as one dict by the hombre scheduler, or an injected fault)
       before, between and after ordinary tasks; every later non-final task of
       the pilot is still FAILED and handed on'''
    tasks, pilots = ['t1', 't2', 't3', 't4', 't5'], ['p1', 'p2']
    init   = {'t1': 'p1', 't2': 'p1', 't3': 'p1', 't4': 'p2'}
    legacy = R.TASK_DOC_FIELDS['slots'][2]
    deaths = [['pilot_final', 'p1', PF, 'list', True], ['pilot_final', 'p1', PC, 'single', False],
              ['pnotify', [['pilot', 'p1', PF]]], ['death_race', 'p1', PD, 'list', []]]
    n = 0
    for svc in (None, 't1', 't2', 't3', 't4'):
        for bad, how in ((None, None), ('t1', 'slots'), ('t2', 'slots'), ('t3', 'slots'),
                         ('t1', 'fault'), ('t2', 'fault'), ('t3', 'fault'), ('t4', 'fault')):
            for death in deaths:
                n += 1
                if quick and bad and svc and (n % 2):
                    continue
                modes = {svc: 'service'} if svc else {}
                ops = [['notify', [['t1', 10], ['t2', 8], ['t3', 10], ['t4', 10], ['t5', 2]]]]
                if how == 'slots':
                    ops.append(['notify', [[bad, 11, {'slots': legacy}]]])
                if how == 'fault':
                    ops.append(['fault', bad])
                ops += [death, ['fault', 'none'], ['pnotify', [['pilot', 'p2', PC]]]]
                yield (tasks, pilots, init, ops, modes, None)


def _compositions(n):
    if n == 0:
        yield []
    for k in range(1, n + 1):
        for rest in _compositions(n - k):
            yield [k] + rest


def enum_add(quick):
    '''add_pilots with lists of 1..3 pilots in every grouping and order, some
       groups when the session starts, the others later; then each pilot ends:
       every one of them is watched, not only the last of a list'''
    tasks = ['t1', 't2', 't3', 't4']
    n = 0
    for perm in itertools.permutations(['p1', 'p2', 'p3']):
        for comp in _compositions(3):
            groups, i = [], 0
            for k in comp:
                groups.append(list(perm[i:i + k]))
                i += k
            for late in range(len(groups) + 1):          # the last `late` groups join later
                n += 1
                if quick and len(comp) == 3 and n % 2:
                    continue
                # a list of one and the bare object are both legal
                form   = lambda g, j: g[0] if len(g) == 1 and (n + j) % 2 else g
                first  = [form(g, j) for j, g in enumerate(groups[:len(groups) - late])]
                rest   = [form(g, j) for j, g in enumerate(groups[len(groups) - late:])]
                ops    = [['add_pilots', g] for g in rest]
                ops   += [['bind', 't%d' % (j + 1), pid] for j, pid in enumerate(perm)]
                ops   += [['notify', [['t1', 9], ['t2', 6], ['t3', 12], ['t4', 2]]]]
                order  = list(perm) if n % 2 else list(reversed(perm))
                for j, pid in enumerate(order):
                    ops.append(['pnotify', [['pilot', pid, [PF, PC, PD][(n + j) % 3],
                                             DOCS[(n + j) % len(DOCS)]]]])
                yield (tasks, ['p1', 'p2', 'p3'], {}, ops, {}, first)


def enum_docs():
    '''every document variant on a final notification (from NEW and from
       ACTIVE, where the variant also rode on the non-final notification) with
       bound, foreign and unbound tasks in flight; a second pilot ends later'''
    init = {'t1': 'p1', 't2': 'p2'}
    for k, doc in enumerate(DOCS):
        for j, fin in enumerate((PF, PC, PD)):
            for active in (False, True):
                ops = [['notify', [['t1', 9], ['t2', 4]]], ['bind', 't3', 'p1']]
                if active:
                    ops.append(['pnotify', [['pilot', 'p1', NP - 1, doc]]])
                ops.append(['pnotify', [['pilot', 'p1', fin, doc]]])
                ops.append(['notify', [['t4', 5]]])
                ops.append(['pnotify', [['pilot', 'p2', [PC, PD, PF][j], DOCS[(k + j) % len(DOCS)]]]])
                yield (['t1', 't2', 't3', 't4'], ['p1', 'p2'], init, ops)


# ------------------------------------------------------------------------------
# exhaustive small-scope enumerations (python side)
#
def _reach(uid, code, prefix=None):
    '''notification entries that bring a NEW task to `code`; FAILED / CANCELED
       are entered after `prefix` announced states'''
    if code in (TF, TC) and prefix:
        return [[uid, prefix], [uid, code]]
    return [[uid, code]] if code else []


def enum_c06(quick):
    '''pre-state catalogue x every batch of <= 2 entries over 2 tasks + unknown'''
    if quick:
        pre1 = [(0, 0), (3, 0), (TD, 0), (TF, 2), (TC, 0)]
        pre2 = [(0, 0), (TD, 0)]
        tgts = [0, 1, 4, NT - 1, TD, TF, TC]
    else:
        pre1 = [(0, 0), (1, 0), (9, 0), (NT - 1, 0), (TD, 0), (TF, 3), (TC, 0)]
        pre2 = [(0, 0), (5, 0), (TD, 0), (TC, 2)]
        tgts = list(range(NT + 3))
    entries = [[u, s] for u in ('t1', 't2', 'tx') for s in tgts]
    batches = [[e] for e in entries] + [[a, b] for a in entries for b in entries]
    for (s1, x1), (s2, x2) in itertools.product(pre1, pre2):
        setup = _reach('t1', s1, x1) + _reach('t2', s2, x2)
        for b in batches:
            ops = ([['notify', setup]] if setup else []) + [['notify', b]]
            yield (['t1', 't2'], ['p1'], {}, ops)
    # a final task stays what it is also when a pilot ends (both routes), and
    # late notifications after that change nothing
    for s in range(NT + 3):
        for k, death in enumerate((['pilot_final', 'p1', PF, 'list', True],
                                   ['pilot_final', 'p1', PC, 'single', False],
                                   ['pnotify', [['pilot', 'p1', PD]]])):
            yield (['t1', 't2'], ['p1', 'p2'], {'t1': 'p1', 't2': 'p2'},
                   ([['notify', [['t1', s]]]] if s else []) +
                   [['notify', [['t2', (s + k) % (NT + 3)]]], death,
                    ['notify', [['t1', TD], ['t2', NT - 1]]]])
    for case in enum_race(quick):
        yield case
    for case in enum_revrace(quick):
        yield case
    for case in enum_api(quick):
        yield case
    for case in enum_service(quick):
        yield case
    for case in enum_registry(quick):
        yield case


def enum_c13(quick):
    '''assignments x task states x order of pilot deaths'''
    def confs(states, binds):
        out = []
        for s in states:
            for b in binds:
                if b[1] == 'late' and s < R.BIND_AT:
                    continue
                out.append((s, b))
        return out

    allb = [('none', 'none'), ('p1', 'early'), ('p1', 'late'), ('p2', 'early'), ('p2', 'late')]
    c1 = confs(range(NT + 3), allb)
    if quick:
        c2 = confs([0, 10, TD, TC], [('none', 'none'), ('p1', 'early'), ('p2', 'late')])
        c3 = [(0, ('none', 'none'))]
    else:
        c2 = confs([0, 2, 10, TD, TF, TC], [('none', 'none'), ('p1', 'early'), ('p2', 'late')])
        c3 = confs([0, 12, TD, TC], [('none', 'none'), ('p1', 'late'), ('p2', 'early')])
    orders = [['p1'], ['p2', 'p1']]
    routes = ['list', 'single', 'pmgr']
    n = 0
    for cf in itertools.product(c1, c2, c3):
        init, ops = {}, []
        for uid, (s, (pid, mode)) in zip(('t1', 't2', 't3'), cf):
            if mode == 'early':
                init[uid] = pid
            if mode == 'late':
                ops.append(['bind', uid, pid])
            if s and not (mode == 'late' and s == R.BIND_AT):
                ops.append(['notify', [[uid, s]]])
        for order in orders:
            n += 1
            death = []
            for k, pid in enumerate(order):
                fin   = [PF, PC, PD][(n + k) % 3]
                route = routes[(n + k) % 3]
                if route == 'pmgr':
                    death.append(['pnotify', [['pilot', pid, fin, DOCS[(n + k) % len(DOCS)]]]])
                else:
                    death.append(['pilot_final', pid, fin, route, n % 2 == 0])
            yield (['t1', 't2', 't3'], ['p1', 'p2'], init, ops + death)
    for case in enum_docs():
        yield case
    for case in enum_taskdocs():
        yield case
    for case in enum_remove(quick):
        yield case
    for case in enum_modes(quick):
        yield case
    for case in enum_add(quick):
        yield case
    for case in enum_race(True):
        yield case
    for case in enum_revrace(True):
        yield case
    for case in enum_submit(quick):
        yield case
    for case in enum_appcb(quick):
        yield case
    for case in enum_gapfinal(quick):
        yield case
    for case in enum_pregister(quick):
        yield case


def enum_c14(quick):
    '''every notification sequence of length <= L for one pilot, as single
       notifications and as one batch; a second pilot and an unknown one mixed in'''
    L = 3 if quick else 4
    states = list(range(NP + 3))
    init = {'t1': 'p1', 't2': 'p2'}
    for n in range(1, L + 1):
        for seq in itertools.product(states, repeat=n):
            yield (['t1', 't2'], ['p1', 'p2'], init,
                   [['pnotify', [['pilot', 'p1', s]]] for s in seq])
            yield (['t1', 't2'], ['p1', 'p2'], init,
                   [['pnotify', [['pilot', 'p1', s] for s in seq]]])
            if n <= (2 if quick else 3):
                head = [['pnotify', [['pilot', 'p1', s]]] for s in seq[:-1]]
                s, x = seq[-1], seq[0]
                for last in ([['pilot', 'px', x], ['pilot', 'p1', s]],          # unknown pilot first
                             [['pilot', 'px', x], ['pilot', 'px', s]],          # only unknown pilots
                             [['task', 'p1', x], ['none', 'p1', x], ['pilot', 'p1', s]],   # other types
                             [['pilot', 'p2', x], ['pilot', 'p1', s]],          # two pilots, one batch
                             [['pilot', 'p1', s], ['pilot', 'p2', x], ['pilot', 'px', x]]):
                    yield (['t1', 't2'], ['p1', 'p2'], init, head + [['pnotify', last]])
    for case in enum_docs():
        yield case
    for case in enum_gapfinal(quick):
        yield case
    for case in enum_pregister(quick):
        yield case


# ------------------------------------------------------------------------------
# seeded random operation sequences, biased towards progress
#
def _pick_state(rng, cur, n):
    r = rng.random()
    if cur >= n:
        return rng.randrange(n + 3)
    if r < 0.45:
        return min(cur + rng.randint(1, 3), n)
    if r < 0.60:
        return rng.randrange(n + 3)
    if r < 0.70:
        return cur
    if r < 0.80:
        return rng.randrange(0, cur + 1)
    return rng.choice([n, n + 1, n + 2])


def random_case(rng, rich=True):
    nt     = rng.randint(2, 4)
    tasks  = ['t%d' % (i + 1) for i in range(nt)]
    pilots = ['p1', 'p2', 'p3'][:rng.randint(1, 3)]
    init   = {t: rng.choice(pilots) for t in tasks if rng.random() < 0.3}
    modes  = {t: 'service' for t in tasks if rng.random() < 0.15}
    # how the pilots reach the task manager: one call each, or lists, or later
    add, later = None, []
    if rng.random() < 0.4:
        order = rng.sample(pilots, len(pilots))
        k     = rng.randint(0, len(order))
        add   = [order[:k]] if k > 1 else list(order[:k])
        later = order[k:]
    bulk   = rng.random() < 0.2       # bulk dispatch: registry, notifications, calls only
    if bulk:
        add, later = None, []
    rig    = R.ClientRig(tasks, pilots, init, modes, add, None, bulk)   # scratch instance to follow the states
    ops    = []
    for _ in range(rng.randint(3, 8)):
        r = rng.random()
        tst = {t: R.tcode(rig.tm._tasks[t].state) for t in tasks}
        pst = {p: R.pcode(rig.pm._pilots[p].state) for p in pilots}
        if rng.random() < (0.35 if bulk else 0.08):
            name = rng.choice(['A', 'B', 'C'])
            sc   = rng.choice(['*'] + tasks)
            op   = [rng.choice(['cb_register'] * 3 + ['cb_unregister']), name, sc,
                    rng.choice(['state'] * 5 + ['wait'])]
        elif bulk and r >= 0.50:
            b = [[rng.choice(tasks + ['tx']), _pick_state(rng, tst.get(rng.choice(tasks), 0), NT)]
                 for _ in range(rng.choice([1, 2, 3, 4]))]
            op = ['notify', b]
        elif later and rng.random() < 0.5:
            k  = rng.randint(1, len(later))
            op = ['add_pilots', later[0] if k == 1 and rng.random() < 0.5 else later[:k]]
            later = later[k:]
        elif r < 0.45:
            b = []
            for _ in range(rng.choice([1, 1, 2, 2, 3, 4, 5])):
                u = rng.choice(tasks + ['tx'])
                b.append([u, _pick_state(rng, tst.get(u, 0), NT), random_tdoc(rng, rich)])
            op = ['notify', b]
        elif r < 0.48:
            q  = rng.random()
            op = ['api', 'wait_tasks', {'state': rng.randrange(1, NT), 'timeout': 0.3}] if q < 0.4 else \
                 ['api', 'wait_tasks', {'uids': rng.choice(tasks), 'timeout': 0.2}] if q < 0.55 else \
                 ['api', 'list_tasks', {}] if q < 0.7 else \
                 ['api', 'get_tasks', {'uids': [rng.choice(tasks)]}] if q < 0.85 else \
                 ['service_info', rng.choice(tasks), rng.choice(['str', 'dict']),
                  rng.choice(['control', 'direct'])]
        elif r < 0.50:
            u  = rng.choice(tasks)
            op = ['task_update', u, rng.choice([TD, TF, TC]) if tst[u] >= NT else TF,
                  {'exception': 'RuntimeError("x")', 'exception_detail': 'direct update'}]
        elif r < 0.65:
            cand = [t for t in tasks if tst[t] < R.BIND_AT and (rig.tm._tasks[t].pilot is None)]
            live = [p for p in pilots if pst[p] < NP and p not in dead_of(ops)
                    and p not in removed_of(ops) and p not in later]
            if not cand or not live:
                continue
            op = ['bind', rng.choice(cand), rng.choice(live)]
        elif r < 0.70:
            cand = [p for p in pilots if p not in removed_of(ops) and p not in later]
            if not cand:
                continue
            p  = rng.choice(cand)
            op = ['remove_pilots', rng.choice([p, [p]])]
        elif r < 0.74:
            live = [p for p in pilots if p not in dead_of(ops) and pst[p] < NP]
            if not live:
                continue
            p    = rng.choice(live)
            mine = [t for t in tasks if rig.tm._tasks[t].pilot == p and tst[t] < NT]
            wins = []
            for t in rng.sample(mine, min(len(mine), rng.randint(0, 2))):
                u = rng.choice(mine)
                wins.append([t, [[u, rng.choice([TD, TC, TF, min(tst[u] + 1, NT - 1)])]]])
            op = ['death_race', p, rng.choice([PD, PF, PC]), rng.choice(['list', 'single']), wins]
        elif r < 0.77:
            live = [p for p in pilots if p not in dead_of(ops) and pst[p] < NP]
            cand = [t for t in tasks if tst[t] < NT]
            if not live or not cand:
                continue
            u   = rng.choice(cand)
            tgt = rng.choice([TD, TD, TF, TC, min(tst[u] + rng.randint(1, 3), NT - 1)])
            b   = [[u, tgt, random_tdoc(rng, rich)]]
            if rng.random() < 0.4:
                v = rng.choice(tasks)
                b.insert(rng.randint(0, 1), [v, _pick_state(rng, tst[v], NT)])
            pt  = rng.choice([[u, 0], [u, 1], [u, 2], ['fire', 0], ['fire', 1]])
            op  = ['notify_race', b, [[pt, ['pilot_final', rng.choice(live), rng.choice([PD, PF, PC]),
                                            rng.choice(['list', 'single']), False]]]]
        elif r < 0.80:
            live = [p for p in pilots if p not in dead_of(ops) and pst[p] < NP]
            if not live:
                continue
            op = ['pilot_final', rng.choice(live), rng.choice([PD, PF, PC]),
                  rng.choice(['list', 'single']), rng.random() < 0.5]
        else:
            b = []
            for _ in range(rng.choice([1, 1, 1, 2, 2, 3])):
                p = rng.choice(pilots + ['px'])
                b.append([rng.choice(['pilot'] * 6 + ['task', 'none']), p,
                          _pick_state(rng, pst.get(p, 0), NP), random_doc(rng)])
            op = ['pnotify', b]
        ops.append(op)
        rig.apply(op)
    rig.close()
    return (tasks, pilots, init, ops, modes, add, None, bulk)


def dead_of(ops):
    return set(op[1] for op in ops if op[0] in ('pilot_final', 'death_race')) | \
           set(pt[1][1] for op in ops if op[0] == 'notify_race' for pt in op[2])


def removed_of(ops):
    return set(p for op in ops if op[0] == 'remove_pilots' for p in ru_list(op[1]))


# ------------------------------------------------------------------------------
FAULTY_INJ   = 'per-task exception in the pilot callback loop (as_dict fault injected)'
FAULTY_SLOTS = 'per-task exception in the pilot callback loop (as_dict raises: slots published ' \
               'as one dict by the hombre scheduler)'
FAULTY_OTHER = 'per-task exception in the pilot callback loop (as_dict of a task raises on its own)'
DEATHS = ('PilotFinal', 'PNotify', 'DeathApply', 'DeathEnd')

CLS = {
    'C13.OwnFail'           : 'task bound to the dying pilot',
    'C13.OwnFailDetail'     : 'task bound to the dying pilot',
    'C13.OwnFailPublished'  : 'task bound to the dying pilot',
    'C13.OthersKeepBound'   : 'task bound to another pilot',
    'C13.OthersKeepUnbound' : 'task not bound to any pilot',
    'C13.OthersKeepFinal'   : 'task already final',
}


def _contradictory(trace):
    '''does some batch notify a DONE / FAILED task of another final state?'''
    st = {u: 0 for u in trace['tasks']}
    for e in trace['events']:
        if e['ev'] == 'Notify':
            cur = dict(st)
            for u, s in e['batch']:
                if u not in cur:
                    continue
                if cur[u] in (TD, TF) and s >= NT and s != cur[u]:
                    return True
                if cur[u] < NT and min(s, NT) > cur[u]:
                    cur[u] = s
        st = {u: e['tpost'][u]['st'] for u in trace['tasks']}
    return False


def _faulty(trace):
    '''a pilot callback ran while the document of one of the tasks could not be
       built (Task.as_dict raises): because the rig injected that, because the
       task's slots are one dict, or for a reason of its own'''
    bad = [o for e in trace['events'] if e['ev'] in DEATHS
           for o in e['tpost'].values() if not o['asd']]
    if not bad:
        return None
    if all(o['inj'] for o in bad):
        return FAULTY_INJ
    if all(o['inj'] or o['sk'] == 'dict' for o in bad):
        return FAULTY_SLOTS
    return FAULTY_OTHER


def _final_written(trace):
    '''a final task changed state in a direct Task._update (by the pilot
       callback after a notification, or called as such): kind of the task'''
    st = {u: 0 for u in trace['tasks']}
    for e in trace['events']:
        hit = [u for u in st if st[u] >= NT and e['tpost'][u]['st'] != st[u]]
        if hit and e['ev'] in ('DeathApply', 'TaskUpdate', 'DeathEnd'):
            if all(st[u] == TC for u in hit):
                return 'CANCELED task written by Task._update (pilot callback racing the ' \
                       'notification, or direct update)'
            return 'DONE / FAILED task written by Task._update (pilot callback racing ' \
                   'the notification, or direct update)'
        st = {u: e['tpost'][u]['st'] for u in st}
    return None


INTERRUPTED = 'pilot callback running while _update_tasks is under way'


def classify(trace, clause):
    if clause.startswith('C06.') and any(e['ev'] == 'CbRegistry' for e in trace['events']):
        return 'callbacks registered / unregistered between notifications (%s dispatch)' \
               % ('bulk' if trace.get('bulk') else 'per state')
    if clause == 'C06.TablesUntouched':
        return 'application call between notifications'
    if clause == 'C13.LockOrder':
        return 'application callback calling into the pilot manager'
    if clause.startswith('C13.') and any(e['ev'] == 'SubmitBegin' for e in trace['events']):
        return 'task in the middle of its submission when its pilot ends'
    if clause.startswith('C06.') and any(not e['tables'] for e in trace['events']):
        return 'application call between notifications'
    if clause.startswith('C13.OwnFail') and _faulty(trace):
        return _faulty(trace)
    if clause.startswith('C06.') and not _final_written(trace) and \
       any(e['ev'] == 'NotifyPartial' for e in trace['events']):
        return INTERRUPTED
    if clause.startswith('C06.') and _final_written(trace):
        return _final_written(trace)       # also what follows from it later in the trace
    if clause in CLS:
        return CLS[clause]
    if clause.startswith('C06.'):
        if clause == 'C06.FinalSticky':
            st = {u: 0 for u in trace['tasks']}
            for e in trace['events']:
                hit = [u for u in st if st[u] >= NT and e['tpost'][u]['st'] != st[u]]
                if hit and e['ev'] in ('PilotFinal', 'PNotify'):
                    return 'final task hit by the final-pilot callback'
                st = {u: e['tpost'][u]['st'] for u in st}
        if _contradictory(trace):
            return 'batch with a contradictory final notification for a DONE / FAILED task'
        return 'task notification batch'
    if clause.startswith('C14.'):
        return 'pilot notification batch'
    return 'client state'


def _nontrivial_keys(trace):
    '''(pre-state, operation) pairs that are more than a single step forward'''
    keys = set()
    tst  = {u: 0 for u in trace['tasks']}
    pst  = {p: 0 for p in trace['pilots']}
    for e in trace['events']:
        if e['ev'] == 'Notify':
            docs = tuple(e.get('docs', []))
            if any(u not in tst or s != tst[u] + 1 for u, s in e['batch']) or len(e['batch']) > 1 \
                    or any(d != 'plain' for d in docs):
                keys.add(('N', tuple(sorted(tst.items())), tuple(map(tuple, e['batch'])), docs))
        elif e['ev'] == 'PNotify':
            docs = tuple(e.get('docs', []))
            if any(ty != 'pilot' or p not in pst or s != pst[p] + 1 for ty, p, s in e['batch']) \
                    or len(e['batch']) > 1 or any(d != 'plain' for d in docs):
                keys.add(('P', tuple(sorted(pst.items())), tuple(map(tuple, e['batch'])), docs))
            if e['calls']:
                keys.add(('D', tuple(sorted(tst.items())), tuple(e['calls']),
                          tuple(sorted((u, e['tpost'][u]['pilot']) for u in tst))))
        elif e['ev'] == 'RemovePilots':
            keys.add(('R', tuple(sorted(tst.items())), tuple(e['pilots']),
                      tuple(sorted((u, e['tpost'][u]['pilot']) for u in tst))))
        elif e['ev'] == 'PilotFinal':
            keys.add(('F', tuple(sorted(tst.items())), e['pilot'],
                      tuple(sorted((u, e['tpost'][u]['pilot']) for u in tst))))
        elif e['ev'] in ('CbRegistry', 'PilotRegister'):
            keys.add((e['ev'], e.get('what'), e.get('name'), e.get('scope'), e['ret'], trace.get('bulk'),
                      tuple(sorted((u, tuple(map(tuple, [r[:2] for r in o['regs']]))) for u, o in e['tpost'].items()))))
        elif e['ev'] in ('ApiCall', 'ServiceInfo', 'SubmitBegin', 'PilotCancel'):
            keys.add((e['ev'], tuple(sorted(tst.items())), str(e.get('name', e.get('uids', e.get('pilot')))),
                      e.get('info', ''), e['ret']))
        elif e['ev'] in ('AddPilots', 'TaskUpdate', 'DeathBegin', 'DeathApply', 'NotifyPartial',
                         'NotifyBegin'):
            keys.add((e['ev'], tuple(sorted(tst.items())), str(e.get('pilots', e.get('uid', e.get('pilot')))),
                      e.get('state', 0), tuple(sorted((u, o['pilot'], o['asd']) for u, o in e['tpost'].items()))))
        tst = {u: e['tpost'][u]['st'] for u in tst}
        pst = {p: e['ppost'][p]['st'] for p in pst}
    return keys


# ------------------------------------------------------------------------------
def _check_traces(chk, cases, label):
    '''run the rig on every case, validate with the monitor (one TLC run for
       all of them), report; label: one string, or one per case'''
    pid    = chk.pid
    labels = [label] * len(cases) if isinstance(label, str) else label
    cases  = [tuple(c) + (None, None, None, False)[len(c) - 4:] for c in cases]
    try:
        traces = [R.run_ops(t, p, i, ops, iso=(pid == 'C06'), modes=m, add=a, late=la, bulk=bool(bu))
                  for t, p, i, ops, m, a, la, bu in cases]
    except RuntimeError as e:
        if 'module tables' in str(e):
            raise Machinery(str(e))
        raise
    if not traces:
        return {}
    res, st = tracecheck.validate('ClientState', 'ClientStateTrace', R.constants_text(),
                                  traces, max_batch=4000, workers=1, timeout=1500)
    chk.states      += st['states']
    chk.transitions += st['transitions']
    chk.cmds.append(st['cmd'])
    notes = {}
    for case, tr, errs, label in zip(cases, traces, res, labels):
        chk.traces += 1
        for k in _nontrivial_keys(tr):
            chk.nontrivial.add(hash((pid, k)))
        for err in errs:
            pre = err.split('.')[0]
            if pre == 'N':
                notes[err] = notes.get(err, 0) + 1
            if pre != pid:
                continue
            cls = classify(tr, err)
            if cls in (FAULTY_INJ, FAULTY_SLOTS):
                # inputs this tree cannot produce (the fault is the rig's own; slots
                # as one dict only come from the HOMBRE agent scheduler, which places
                # no task here): recorded, not reported
                key = 'N.%s[%s]' % (err, 'injected as_dict fault' if cls == FAULTY_INJ
                                         else 'slots as one dict')
                notes[key] = notes.get(key, 0) + 1
                continue
            chk.violation(err, cls,
                          'real client-side notification path violates %s (%s)' % (err, label),
                          {'rig': 'clientstate', 'tasks': case[0], 'pilots': case[1],
                           'init_bound': case[2], 'ops': case[3], 'modes': case[4] or {},
                           'add': 'default' if case[5] is None else case[5],
                           'late': case[6] or [], 'bulk': bool(case[7]), 'errs': errs})
    return notes


def run(chk, tier, seed):
    pid = chk.pid
    if pid not in PLAN:
        raise Machinery('clientstate serves C06, C13, C14 - not %s' % pid)
    rng   = random.Random(seed * 7919 + 17)
    quick = tier == 'quick'
    sq, st_, sims = PLAN[pid]
    rich  = pid != 'C14'       # task documents / faults that make as_dict raise (C13's space)

    # ---- 1. design model, exhaustive --------------------------------------------
    names = sq if quick else sq + st_
    from concurrent.futures import ThreadPoolExecutor
    with ThreadPoolExecutor(max_workers=3) as pool:
        runs = list(pool.map(lambda n: tlc.run('ClientState', 'ClientState', 'MC.cfg',
                                               workers=4, timeout=1500,
                                               extra_files=mc_files(SCENARIOS[n])), names))
    for name, res in zip(names, runs):
        chk.add_tlc(res, 'exhaustive:' + name)
        if not res.ok:
            raise Machinery('design model ClientState violates %s in scenario %s '
                            '(intended design must hold):\n%s'
                            % (res.violated, name, res.trace[:3000]))
    if pid == 'C13':
        # lock order between the two subscriber threads (spec/ClientState/ClientLocks.tla)
        for dev in ([False] if quick else [False, True]):
            cfg = ('CONSTANTS\n DevCbInsideLock = %s\nSPECIFICATION Spec\n'
                   'INVARIANT LockOrder\nINVARIANT OwnFail\n' % _bool(dev))
            res = tlc.run('ClientState', 'ClientLocks', 'Locks.cfg', workers=1, timeout=300,
                          extra_files={'Locks.cfg': cfg})
            chk.add_tlc(res, 'locks:%s' % ('DevCbInsideLock' if dev else 'design'))
            if dev and res.ok:
                raise Machinery('deviation DevCbInsideLock not detected in ClientLocks')
            if dev:
                chk.notes.append('deviation DevCbInsideLock gives %s in ClientLocks' % res.violated)
            if not dev and not res.ok:
                raise Machinery('ClientLocks violates %s (intended design must hold):\n%s'
                                % (res.violated, res.trace[:2000]))
    chk.exhaustive = True

    # ---- 2. deviation sensitivity ------------------------------------------------
    if not quick:
        for dev, name, invs, props, expect in DEVIATIONS[pid]:
            res = tlc.run('ClientState', 'ClientState', 'MC.cfg', workers=WORKERS, timeout=900,
                          extra_files=mc_files(SCENARIOS[name], devs=[dev],
                                               invariants=invs, props=props))
            chk.add_tlc(res, 'deviation:%s:%s' % (dev, '+'.join(invs + props)))
            if expect is None:
                if not res.ok:
                    raise Machinery('deviation %s was expected to leave %s intact, TLC reports %s'
                                    % (dev, invs + props, res.violated))
                chk.notes.append('deviation %s leaves %s intact (outside %s as stated)'
                                 % (dev, ', '.join(invs + props), pid))
            else:
                if res.ok or res.violated != expect:
                    raise Machinery('deviation %s not detected by the model (expected %s, got %s)'
                                    % (dev, expect, res.violated))
                chk.notes.append('deviation %s breaks %s in the design model' % (dev, expect))

    # ---- 3. TLC behaviours -> operation sequences for the real code ---------------
    cases = []
    nsim  = (120 if quick else 1500) * (2 if sims == ['sim-all'] else 1)
    for name in sims:
        dump = tlc.scratch('rpsim_')
        try:
            res = tlc.run('ClientState', 'MCSim', 'MCSim.cfg', workers=1, timeout=600,
                          simulate='num=%d' % nsim, depth=24 if quick else 32,
                          seed=rng.randrange(10 ** 6), dump_dir=dump,
                          extra_files=sim_files(SIM[name]))
            chk.add_tlc(res, 'simulate:' + name)
            if not res.ok:
                raise Machinery('simulation of %s reports %s' % (name, res.violated))
            sc = SIM[name]
            for f in sorted(glob.glob(os.path.join(dump, 'tr_*'))):
                bound, ops = ops_from_behaviour(f, rng, rich)
                if ops:
                    cases.append((list(sc['tasks']), list(sc['pilots']),
                                  {t: b for t, b in (bound or {}).items() if b != 'none'}, ops,
                                  {t: 'service' for t in sc['services']},
                                  [] if sc['lateadd'] else None, None, sc['bulk']))
        finally:
            shutil.rmtree(dump, ignore_errors=True)
    if not cases:
        raise Machinery('no TLC behaviour could be turned into operations')
    labels = ['TLC behaviour'] * len(cases)
    chk.sample({'kind': 'tlc-behaviour', 'tasks': cases[0][0], 'pilots': cases[0][1],
                'init_bound': cases[0][2], 'ops': cases[0][3][:8]})

    # ---- 4. exhaustive small-scope enumeration --------------------------------------
    enum  = {'C06': enum_c06, 'C13': enum_c13, 'C14': enum_c14}[pid]
    more  = list(enum(quick))
    chk.sample({'kind': 'enumeration', 'cases': len(more), 'last_ops': more[-1][3]})
    cases  += more
    labels += ['small-scope enumeration'] * len(more)

    # ---- 5. seeded random operation sequences ----------------------------------------
    more = [random_case(rng, rich) for _ in range(400 if quick else 6000)]
    more = [c for c in more if c[3]]
    cases  += more
    labels += ['seeded random'] * len(more)

    # ---- 6. all of them through the real code and the monitor ------------------------
    notes = _check_traces(chk, cases, labels)
    for k in sorted(notes):
        chk.notes.append('%s: %d traces' % (k, notes[k]))
    chk.assumptions += [
        'state notifications reach the managers one batch at a time (the ZeroMQ subscriber '
        'thread calls _state_sub_cb sequentially; exceptions are logged there, return values ignored)',
        'a task is bound when a full task dict carrying `pilot` has moved its state '
        '(the only channel through which the client-side Task learns its pilot)',
        'the pilot callback and the state subscriber interleave at one schedule point: between '
        'the callback\'s finality check of a task and its Task._update(FAILED) (the callback '
        'takes no lock); notifications are delivered there whole',
        'state names are those of states._task_state_values / _pilot_state_values '
        '(%d + 3 task states, %d + 3 pilot states)' % (NT, NP)]


def replay(chk, obj):
    add  = obj.get('add', 'default')
    case = (obj['tasks'], obj['pilots'], obj.get('init_bound', {}), obj['ops'],
            obj.get('modes') or {}, None if add == 'default' else add, obj.get('late') or None,
            bool(obj.get('bulk')))
    _check_traces(chk, [case], 'replay')
