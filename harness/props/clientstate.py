'''
C06, C13 and the notification half of C14 (C14a): ClientState design model
(exhaustive TLC), TLC behaviours replayed as operation sequences against the
real TaskManager / PilotManager / Task / Pilot, exhaustive small-scope
enumerations and seeded random operation sequences (pilot notifications carry
pilot documents whose optional fields come absent, None and present); every recorded trace is
validated by the ClientStateTrace monitor.  Only errors of the property under
check (prefix == chk.pid) are reported; "N.*" entries are notes that tell which
named deviation of the design model explains an observation.
'''

import os
import glob
import random
import shutil
import itertools

from .. import tlc, tracecheck
from ..core import Machinery
from ..rigs import client_rig as R

NT, NP = R.NT, R.NP
TD, TF, TC = R.T_DONE, R.T_FAILED, R.T_CANCELED
PD, PF, PC = R.P_DONE, R.P_FAILED, R.P_CANCELED

DEVS = ['DevFinalRaise', 'DevPilotCbAll', 'DevPilotCbCanceled', 'DevPBatchFirst', 'DevPFinalRaise',
        'DevRemovedUnwatched']

INV_C06 = ['Monotone', 'AtMostOnce', 'GapsFilled', 'BatchIsolation']
INV_C13 = ['OwnFail', 'OthersKeep']
INV_C14 = ['PMonotone', 'PGapsFilled', 'PFinalNotLeft', 'UnknownIgnored']
INVARIANTS = ['TypeOK'] + INV_C06 + INV_C13 + INV_C14 + ['PBatchComplete']
PROPERTIES = ['FinalSticky', 'PFinalNotLeftAct']

WORKERS = 8


def _scen(NT=NT, NP=NP, tasks=('t1', 't2'), unk=(), pilots=(), punk=(), ptypes=('pilot',),
          mb=1, mpb=0, bindat=R.BIND_AT, early=False, direct=False, remove=False):
    return dict(NT=NT, NP=NP, tasks=tasks, unk=unk, pilots=pilots, punk=punk, ptypes=ptypes,
                mb=mb, mpb=mpb, bindat=bindat, early=early, direct=direct, remove=remove)


# small-scope instances of the design model, exhaustive
SCENARIOS = {
    # C06: two tasks + an unknown uid, every batch of <= 2 entries
    'tasks-q' : _scen(NT=6,  tasks=('t1', 't2'), unk=('tx',), mb=2),
    'tasks-t' : _scen(NT=15, tasks=('t1', 't2'), unk=('tx',), mb=2),
    # C13: every assignment x every task state x every order of pilot deaths
    'death-q' : _scen(NT=4, NP=2, tasks=('t1', 't2'), pilots=('p1', 'p2'), mb=1, bindat=2,
                      early=True, direct=True),
    # C13 through the pmgr -> pilot -> tmgr chain; pilots may also be removed from
    # the task manager, in any order relative to bindings and deaths
    'chain-q' : _scen(NT=3, NP=2, tasks=('t1',), pilots=('p1', 'p2'), mb=1, mpb=1, bindat=1,
                      early=True, remove=True),
    'chain-t' : _scen(NT=3, NP=2, tasks=('t1', 't2'), pilots=('p1', 'p2'), mb=1, mpb=1, bindat=1,
                      early=True, remove=True),
    'death-t' : _scen(NT=4, NP=2, tasks=('t1', 't2', 't3'), pilots=('p1', 'p2'), mb=1, bindat=2,
                      early=True, direct=True),
    # C14a: two pilots + an unknown one, every batch of <= 2 entries; the task
    # manager's callback hangs on the pilots
    'pilots-q': _scen(NT=2, tasks=('t1',), pilots=('p1', 'p2'), punk=('px',), mb=0, mpb=2,
                      bindat=1, early=True),
    'pilots-t': _scen(NT=2, tasks=('t1',), pilots=('p1', 'p2'), punk=('px',),
                      ptypes=('pilot', 'task'), mb=0, mpb=2, bindat=1, early=True),
}

# instances with the real state chains, simulated to obtain behaviours
SIM = {
    'sim-tasks' : _scen(tasks=('t1', 't2', 't3'), unk=('tx',), pilots=('p1', 'p2'), mb=4,
                        early=True, direct=True, remove=True),
    'sim-pilots': _scen(tasks=('t1', 't2'), pilots=('p1', 'p2'), punk=('px',),
                        ptypes=('pilot', 'task', 'none'), mb=2, mpb=3, early=True, remove=True),
}

PLAN = {   # property -> (exhaustive scenarios quick / thorough only, simulated instances)
    'C06': (['tasks-q'],  ['tasks-t'],  ['sim-tasks']),
    'C13': (['death-q', 'chain-q'],  ['death-t', 'chain-t'],  ['sim-tasks', 'sim-pilots']),
    'C14': (['pilots-q'], ['pilots-t'], ['sim-pilots']),
}

# deviation -> (scenario, invariants, properties, expected violation or None)
DEVIATIONS = {
    'C06': [('DevFinalRaise',      'tasks-q',  ['BatchIsolation'], [], 'BatchIsolation'),
            ('DevFinalRaise',      'tasks-q',  ['GapsFilled'],     [], 'GapsFilled'),
            ('DevPilotCbCanceled', 'death-q',  [], ['FinalSticky'],    'FinalSticky')],
    'C13': [('DevPilotCbAll',      'death-q',  INV_C13, [], 'OthersKeep'),
            ('DevPilotCbCanceled', 'death-q',  INV_C13, [], 'OthersKeep'),
            ('DevRemovedUnwatched', 'chain-q', INV_C13, [], 'OwnFail')],
    # D19 and the raise on DONE -> FAILED lose notifications but leave what C14
    # states intact: the C14 invariants hold, PBatchComplete (no property) fails
    'C14': [('DevPBatchFirst',     'pilots-q', INV_C14, ['PFinalNotLeftAct'], None),
            ('DevPBatchFirst',     'pilots-q', ['PBatchComplete'], [], 'PBatchComplete'),
            ('DevPFinalRaise',     'pilots-q', INV_C14, ['PFinalNotLeftAct'], None),
            ('DevPFinalRaise',     'pilots-q', ['PBatchComplete'], [], 'PBatchComplete')],
}


# ------------------------------------------------------------------------------
def _set(xs):
    return '{' + ', '.join('"%s"' % x for x in xs) + '}'


def _bool(b):
    return 'TRUE' if b else 'FALSE'


def cfg_constants(sc, devs=()):
    c = ('CONSTANTS\n NT = %d\n NP = %d\n Tasks = %s\n UnknownTasks = %s\n Pilots = %s\n'
         ' UnknownPilots = %s\n PTypes = %s\n MaxBatch = %d\n MaxPBatch = %d\n BindAt = %d\n'
 ' EarlyBind = %s\n DirectFinal = %s\n AllowRemove = %s\n'
         % (sc['NT'], sc['NP'], _set(sc['tasks']), _set(sc['unk']), _set(sc['pilots']),
            _set(sc['punk']), _set(sc['ptypes']), sc['mb'], sc['mpb'], sc['bindat'],
            _bool(sc['early']), _bool(sc['direct']), _bool(sc['remove'])))
    for d in DEVS:
        c += ' %s = %s\n' % (d, _bool(d in devs))
    return c


def mc_files(sc, devs=(), invariants=None, props=None):
    cfg = cfg_constants(sc, devs) + 'SPECIFICATION Spec\nCHECK_DEADLOCK FALSE\n'
    for i in (INVARIANTS if invariants is None else invariants):
        cfg += 'INVARIANT %s\n' % i
    for p in (PROPERTIES if props is None else props):
        cfg += 'PROPERTY %s\n' % p
    return {'MC.cfg': cfg}


# simulation wrapper: the kind of the next operation is picked first, so that
# the few Bind / PilotFinal steps are not drowned by the many Notify batches;
# `last` names the operation for the rig
MCSIM = r'''---- MODULE MCSim ----
EXTENDS ClientState
VARIABLES pick, last
Kinds == {"N", "B"} \cup (IF DirectFinal THEN {"F"} ELSE {}) \cup (IF MaxPBatch > 0 THEN {"P"} ELSE {})
         \cup (IF AllowRemove THEN {"R"} ELSE {})
\* random batches (simulation only): one successor per batch length
RandT(k) == [i \in 1 .. k |-> RandomElement(TEntries)]
RandP(k) == [i \in 1 .. k |-> RandomElement(PEntries)]
SimInit == Init /\ pick = "none" /\ last = <<"skip">>
SimNext ==
  \/ /\ pick = "none" /\ pick' \in Kinds /\ last' = <<"skip">> /\ UNCHANGED vars
  \/ /\ pick = "N" /\ pick' = "none"
     /\ \E k \in 1 .. MaxBatch : \E b \in {RandT(k)} : Notify(b) /\ last' = <<"notify", b>>
  \/ /\ pick = "B" /\ pick' = "none"
     /\ \E t \in Tasks, p \in Pilots : Bind(t, p) /\ last' = <<"bind", t, p>>
  \/ /\ pick = "F" /\ pick' = "none"
     /\ \E p \in Pilots : PilotFinal(p) /\ last' = <<"final", p>>
  \/ /\ pick = "P" /\ pick' = "none"
     /\ \E k \in 1 .. MaxPBatch : \E b \in {RandP(k)} : PNotify(b) /\ last' = <<"pnotify", b>>
  \/ /\ pick = "R" /\ pick' = "none"
     /\ \E p \in Pilots : RemovePilots(p) /\ last' = <<"remove", p>>
  \/ /\ pick # "none" /\ pick' = "none" /\ last' = <<"skip">> /\ UNCHANGED vars
SimSpec == SimInit /\ [][SimNext]_<<vars, pick, last>>
====
'''


def sim_files(sc):
    cfg = cfg_constants(sc) + 'SPECIFICATION SimSpec\nCHECK_DEADLOCK FALSE\n'
    for i in INVARIANTS:
        cfg += 'INVARIANT %s\n' % i
    return {'MCSim.tla': MCSIM, 'MCSim.cfg': cfg}


def ops_from_behaviour(path, rng):
    '''(init_bound, ops) of one simulated behaviour of MCSim'''
    steps = tlc.parse_sim_file(path)
    if not steps:
        return None, []
    bound = steps[0][2].get('bound', {})
    ops   = []
    for _, _, st in steps[1:]:
        last = st.get('last')
        if not isinstance(last, list) or not last or last[0] == 'skip':
            continue
        if last[0] == 'notify':
            ops.append(['notify', [[e[0], e[1], random_tdoc(rng)] for e in last[1]]])
        elif last[0] == 'remove':
            ops.append(['remove_pilots', rng.choice([last[1], [last[1]]])])
        elif last[0] == 'bind':
            ops.append(['bind', last[1], last[2]])
        elif last[0] == 'final':
            ops.append(['pilot_final', last[1], rng.choice([PD, PF, PC]),
                        rng.choice(['list', 'single']), rng.random() < 0.5])
        elif last[0] == 'pnotify':
            ops.append(['pnotify', [[e[0], e[1], e[2], random_doc(rng)] for e in last[1]]])
    return bound, ops


# ------------------------------------------------------------------------------
# contents of the pilot documents (pmgr -> pilot -> tmgr chain): every optional
# field the real update chain reads comes absent, None and present
#
def doc_variants():
    fields = R.PILOT_DOC_FIELDS
    out = [{}]
    for k in sorted(fields):
        for v in fields[k]:
            out.append({k: v})
    out.append({k: None for k in fields})
    out.append({k: fields[k][-1] for k in fields})
    return out


DOCS = doc_variants()


def random_doc(rng):
    if rng.random() < 0.4:
        return {}
    if rng.random() < 0.2:
        return rng.choice(DOCS)
    keys = rng.sample(sorted(R.PILOT_DOC_FIELDS), rng.randint(1, 3))
    return {k: rng.choice(R.PILOT_DOC_FIELDS[k]) for k in keys}


def tdoc_variants():
    fields = R.TASK_DOC_FIELDS
    out = [{}]
    for k in sorted(fields):
        for v in fields[k]:
            out.append({k: v})
    out.append({k: None for k in fields})
    # a task that failed on the agent and is handed back for output staging
    out.append({'exception': fields['exception'][-1], 'exception_detail': fields['exception_detail'][-1],
                'exit_code': 1, 'stderr': 'task stderr', 'target_state': 'FAILED'})
    out.append({k: fields[k][-1] for k in fields})
    return out


TDOCS = tdoc_variants()


def random_tdoc(rng):
    if rng.random() < 0.6:
        return {}
    if rng.random() < 0.3:
        return rng.choice(TDOCS)
    keys = rng.sample(sorted(R.TASK_DOC_FIELDS), rng.randint(1, 3))
    return {k: rng.choice(R.TASK_DOC_FIELDS[k]) for k in keys}


def enum_taskdocs():
    '''non-final tasks that already carry error information (every document
       variant, at three states) when their pilot ends, on all three routes'''
    init = {'t1': 'p1', 't2': 'p2'}
    deaths = [['pilot_final', 'p1', PF, 'list', True], ['pilot_final', 'p1', PC, 'single', False],
              ['pnotify', [['pilot', 'p1', PD]]]]
    n = 0
    for doc in TDOCS:
        for s in (10, NT - 2, NT - 1):            # AGENT_EXECUTING, TMGR_STAGING_OUTPUT(_PENDING)
            n += 1
            ops = [['bind', 't3', 'p1'],
                   ['notify', [['t1', s, doc], ['t2', s, doc], ['t3', s - 1, doc]]],
                   ['notify', [['t3', s, TDOCS[n % len(TDOCS)]]]],
                   deaths[n % 3],
                   ['notify', [['t1', TD], ['t2', s + 1 if s + 1 < NT else TD]]]]
            yield (['t1', 't2', 't3', 't4'], ['p1', 'p2'], init, ops)


def enum_remove(quick):
    '''remove_pilots in every order relative to late binding, progress and the
       deaths of both pilots; tasks of a removed pilot are still its tasks'''
    init  = {'t1': 'p1', 't2': 'p2'}
    fixed = {'b': ['bind', 't3', 'p1'], 'n': ['notify', [['t1', 9], ['t2', 4], ['t4', 2]]]}
    n = 0
    for rm in (['remove_pilots', 'p1'], ['remove_pilots', ['p1']], ['remove_pilots', ['p2']],
               ['remove_pilots', ['p1', 'p2']], ['remove_pilots', ['p2', 'p1']]):
        for fin, route in ([(PF, 'pmgr'), (PC, 'list'), (PD, 'pmgr'), (PF, 'single')] if quick else
                           itertools.product((PF, PC, PD), ('pmgr', 'list', 'single'))):
            if True:
                def death(pid, k):
                    if route == 'pmgr':
                        return ['pnotify', [['pilot', pid, fin, DOCS[(n + k) % len(DOCS)]]]]
                    return ['pilot_final', pid, fin, route, k % 2 == 0]
                for order in itertools.permutations(['b', 'n', 'r', 'd1', 'd2']):
                    # a pilot that left or ended gets no new tasks; p1 ends before p2
                    if order.index('b') > order.index('d1') or order.index('d1') > order.index('d2'):
                        continue
                    if 'p1' in ru_list(rm[1]) and order.index('b') > order.index('r'):
                        continue
                    n += 1
                    ops = []
                    for o in order:
                        ops.append(rm if o == 'r' else death('p1', n) if o == 'd1'
                                   else death('p2', n + 1) if o == 'd2' else fixed[o])
                    yield (['t1', 't2', 't3', 't4'], ['p1', 'p2'], init, ops)


def ru_list(x):
    return x if isinstance(x, list) else [x]


def enum_docs():
    '''every document variant on a final notification (from NEW and from
       ACTIVE, where the variant also rode on the non-final notification) with
       bound, foreign and unbound tasks in flight; a second pilot ends later'''
    init = {'t1': 'p1', 't2': 'p2'}
    for k, doc in enumerate(DOCS):
        for j, fin in enumerate((PF, PC, PD)):
            for active in (False, True):
                ops = [['notify', [['t1', 9], ['t2', 4]]], ['bind', 't3', 'p1']]
                if active:
                    ops.append(['pnotify', [['pilot', 'p1', NP - 1, doc]]])
                ops.append(['pnotify', [['pilot', 'p1', fin, doc]]])
                ops.append(['notify', [['t4', 5]]])
                ops.append(['pnotify', [['pilot', 'p2', [PC, PD, PF][j], DOCS[(k + j) % len(DOCS)]]]])
                yield (['t1', 't2', 't3', 't4'], ['p1', 'p2'], init, ops)


# ------------------------------------------------------------------------------
# exhaustive small-scope enumerations (python side)
#
def _reach(uid, code, prefix=None):
    '''notification entries that bring a NEW task to `code`; FAILED / CANCELED
       are entered after `prefix` announced states'''
    if code in (TF, TC) and prefix:
        return [[uid, prefix], [uid, code]]
    return [[uid, code]] if code else []


def enum_c06(quick):
    '''pre-state catalogue x every batch of <= 2 entries over 2 tasks + unknown'''
    if quick:
        pre1 = [(0, 0), (3, 0), (TD, 0), (TF, 2), (TC, 0)]
        pre2 = [(0, 0), (TD, 0)]
        tgts = [0, 1, 4, NT - 1, TD, TF, TC]
    else:
        pre1 = [(0, 0), (1, 0), (9, 0), (NT - 1, 0), (TD, 0), (TF, 3), (TC, 0)]
        pre2 = [(0, 0), (5, 0), (TD, 0), (TC, 2)]
        tgts = list(range(NT + 3))
    entries = [[u, s] for u in ('t1', 't2', 'tx') for s in tgts]
    batches = [[e] for e in entries] + [[a, b] for a in entries for b in entries]
    for (s1, x1), (s2, x2) in itertools.product(pre1, pre2):
        setup = _reach('t1', s1, x1) + _reach('t2', s2, x2)
        for b in batches:
            ops = ([['notify', setup]] if setup else []) + [['notify', b]]
            yield (['t1', 't2'], ['p1'], {}, ops)
    # a final task stays what it is also when a pilot ends (both routes), and
    # late notifications after that change nothing
    for s in range(NT + 3):
        for k, death in enumerate((['pilot_final', 'p1', PF, 'list', True],
                                   ['pilot_final', 'p1', PC, 'single', False],
                                   ['pnotify', [['pilot', 'p1', PD]]])):
            yield (['t1', 't2'], ['p1', 'p2'], {'t1': 'p1', 't2': 'p2'},
                   ([['notify', [['t1', s]]]] if s else []) +
                   [['notify', [['t2', (s + k) % (NT + 3)]]], death,
                    ['notify', [['t1', TD], ['t2', NT - 1]]]])


def enum_c13(quick):
    '''assignments x task states x order of pilot deaths'''
    def confs(states, binds):
        out = []
        for s in states:
            for b in binds:
                if b[1] == 'late' and s < R.BIND_AT:
                    continue
                out.append((s, b))
        return out

    allb = [('none', 'none'), ('p1', 'early'), ('p1', 'late'), ('p2', 'early'), ('p2', 'late')]
    c1 = confs(range(NT + 3), allb)
    if quick:
        c2 = confs([0, 10, TD, TC], [('none', 'none'), ('p1', 'early'), ('p2', 'late')])
        c3 = [(0, ('none', 'none'))]
    else:
        c2 = confs([0, 2, 10, TD, TF, TC], [('none', 'none'), ('p1', 'early'), ('p2', 'late')])
        c3 = confs([0, 12, TD, TC], [('none', 'none'), ('p1', 'late'), ('p2', 'early')])
    orders = [['p1'], ['p2', 'p1']]
    routes = ['list', 'single', 'pmgr']
    n = 0
    for cf in itertools.product(c1, c2, c3):
        init, ops = {}, []
        for uid, (s, (pid, mode)) in zip(('t1', 't2', 't3'), cf):
            if mode == 'early':
                init[uid] = pid
            if mode == 'late':
                ops.append(['bind', uid, pid])
            if s and not (mode == 'late' and s == R.BIND_AT):
                ops.append(['notify', [[uid, s]]])
        for order in orders:
            n += 1
            death = []
            for k, pid in enumerate(order):
                fin   = [PF, PC, PD][(n + k) % 3]
                route = routes[(n + k) % 3]
                if route == 'pmgr':
                    death.append(['pnotify', [['pilot', pid, fin, DOCS[(n + k) % len(DOCS)]]]])
                else:
                    death.append(['pilot_final', pid, fin, route, n % 2 == 0])
            yield (['t1', 't2', 't3'], ['p1', 'p2'], init, ops + death)
    for case in enum_docs():
        yield case
    for case in enum_taskdocs():
        yield case
    for case in enum_remove(quick):
        yield case


def enum_c14(quick):
    '''every notification sequence of length <= L for one pilot, as single
       notifications and as one batch; a second pilot and an unknown one mixed in'''
    L = 3 if quick else 4
    states = list(range(NP + 3))
    init = {'t1': 'p1', 't2': 'p2'}
    for n in range(1, L + 1):
        for seq in itertools.product(states, repeat=n):
            yield (['t1', 't2'], ['p1', 'p2'], init,
                   [['pnotify', [['pilot', 'p1', s]]] for s in seq])
            yield (['t1', 't2'], ['p1', 'p2'], init,
                   [['pnotify', [['pilot', 'p1', s] for s in seq]]])
            if n <= (2 if quick else 3):
                head = [['pnotify', [['pilot', 'p1', s]]] for s in seq[:-1]]
                s, x = seq[-1], seq[0]
                for last in ([['pilot', 'px', x], ['pilot', 'p1', s]],          # unknown pilot first
                             [['pilot', 'px', x], ['pilot', 'px', s]],          # only unknown pilots
                             [['task', 'p1', x], ['none', 'p1', x], ['pilot', 'p1', s]],   # other types
                             [['pilot', 'p2', x], ['pilot', 'p1', s]],          # two pilots, one batch
                             [['pilot', 'p1', s], ['pilot', 'p2', x], ['pilot', 'px', x]]):
                    yield (['t1', 't2'], ['p1', 'p2'], init, head + [['pnotify', last]])
    for case in enum_docs():
        yield case


# ------------------------------------------------------------------------------
# seeded random operation sequences, biased towards progress
#
def _pick_state(rng, cur, n):
    r = rng.random()
    if cur >= n:
        return rng.randrange(n + 3)
    if r < 0.45:
        return min(cur + rng.randint(1, 3), n)
    if r < 0.60:
        return rng.randrange(n + 3)
    if r < 0.70:
        return cur
    if r < 0.80:
        return rng.randrange(0, cur + 1)
    return rng.choice([n, n + 1, n + 2])


def random_case(rng):
    nt     = rng.randint(2, 4)
    tasks  = ['t%d' % (i + 1) for i in range(nt)]
    pilots = ['p1', 'p2', 'p3'][:rng.randint(1, 3)]
    init   = {t: rng.choice(pilots) for t in tasks if rng.random() < 0.3}
    rig    = R.ClientRig(tasks, pilots, init)     # scratch instance to follow the states
    ops    = []
    for _ in range(rng.randint(3, 8)):
        r = rng.random()
        tst = {t: R.tcode(rig.tm._tasks[t].state) for t in tasks}
        pst = {p: R.pcode(rig.pm._pilots[p].state) for p in pilots}
        if r < 0.50:
            b = []
            for _ in range(rng.choice([1, 1, 2, 2, 3, 4, 5])):
                u = rng.choice(tasks + ['tx'])
                b.append([u, _pick_state(rng, tst.get(u, 0), NT), random_tdoc(rng)])
            op = ['notify', b]
        elif r < 0.65:
            cand = [t for t in tasks if tst[t] < R.BIND_AT and (rig.tm._tasks[t].pilot is None)]
            live = [p for p in pilots if pst[p] < NP and p not in dead_of(ops)
                    and p not in removed_of(ops)]
            if not cand or not live:
                continue
            op = ['bind', rng.choice(cand), rng.choice(live)]
        elif r < 0.70:
            cand = [p for p in pilots if p not in removed_of(ops)]
            if not cand:
                continue
            p  = rng.choice(cand)
            op = ['remove_pilots', rng.choice([p, [p]])]
        elif r < 0.78:
            live = [p for p in pilots if p not in dead_of(ops) and pst[p] < NP]
            if not live:
                continue
            op = ['pilot_final', rng.choice(live), rng.choice([PD, PF, PC]),
                  rng.choice(['list', 'single']), rng.random() < 0.5]
        else:
            b = []
            for _ in range(rng.choice([1, 1, 1, 2, 2, 3])):
                p = rng.choice(pilots + ['px'])
                b.append([rng.choice(['pilot'] * 6 + ['task', 'none']), p,
                          _pick_state(rng, pst.get(p, 0), NP), random_doc(rng)])
            op = ['pnotify', b]
        ops.append(op)
        rig.apply(op)
    return (tasks, pilots, init, ops)


def dead_of(ops):
    return set(op[1] for op in ops if op[0] == 'pilot_final')


def removed_of(ops):
    return set(p for op in ops if op[0] == 'remove_pilots' for p in ru_list(op[1]))


# ------------------------------------------------------------------------------
CLS = {
    'C13.OwnFail'           : 'task bound to the dying pilot',
    'C13.OwnFailDetail'     : 'task bound to the dying pilot',
    'C13.OthersKeepBound'   : 'task bound to another pilot',
    'C13.OthersKeepUnbound' : 'task not bound to any pilot',
    'C13.OthersKeepFinal'   : 'task already final',
}


def _contradictory(trace):
    '''does some batch notify a DONE / FAILED task of another final state?'''
    st = {u: 0 for u in trace['tasks']}
    for e in trace['events']:
        if e['ev'] == 'Notify':
            cur = dict(st)
            for u, s in e['batch']:
                if u not in cur:
                    continue
                if cur[u] in (TD, TF) and s >= NT and s != cur[u]:
                    return True
                if cur[u] < NT and min(s, NT) > cur[u]:
                    cur[u] = s
        st = {u: e['tpost'][u]['st'] for u in trace['tasks']}
    return False


def classify(trace, clause):
    if clause in CLS:
        return CLS[clause]
    if clause.startswith('C06.'):
        if clause == 'C06.FinalSticky':
            st = {u: 0 for u in trace['tasks']}
            for e in trace['events']:
                if e['ev'] in ('PilotFinal', 'PNotify') and \
                   any(st[u] >= NT and e['tpost'][u]['st'] != st[u] for u in st):
                    return 'final task hit by the final-pilot callback'
                st = {u: e['tpost'][u]['st'] for u in st}
        if _contradictory(trace):
            return 'batch with a contradictory final notification for a DONE / FAILED task'
        return 'task notification batch'
    if clause.startswith('C14.'):
        return 'pilot notification batch'
    return 'client state'


def _nontrivial_keys(trace):
    '''(pre-state, operation) pairs that are more than a single step forward'''
    keys = set()
    tst  = {u: 0 for u in trace['tasks']}
    pst  = {p: 0 for p in trace['pilots']}
    for e in trace['events']:
        if e['ev'] == 'Notify':
            docs = tuple(e.get('docs', []))
            if any(u not in tst or s != tst[u] + 1 for u, s in e['batch']) or len(e['batch']) > 1 \
                    or any(d != 'plain' for d in docs):
                keys.add(('N', tuple(sorted(tst.items())), tuple(map(tuple, e['batch'])), docs))
        elif e['ev'] == 'PNotify':
            docs = tuple(e.get('docs', []))
            if any(ty != 'pilot' or p not in pst or s != pst[p] + 1 for ty, p, s in e['batch']) \
                    or len(e['batch']) > 1 or any(d != 'plain' for d in docs):
                keys.add(('P', tuple(sorted(pst.items())), tuple(map(tuple, e['batch'])), docs))
            if e['calls']:
                keys.add(('D', tuple(sorted(tst.items())), tuple(e['calls']),
                          tuple(sorted((u, e['tpost'][u]['pilot']) for u in tst))))
        elif e['ev'] == 'RemovePilots':
            keys.add(('R', tuple(sorted(tst.items())), tuple(e['pilots']),
                      tuple(sorted((u, e['tpost'][u]['pilot']) for u in tst))))
        elif e['ev'] == 'PilotFinal':
            keys.add(('F', tuple(sorted(tst.items())), e['pilot'],
                      tuple(sorted((u, e['tpost'][u]['pilot']) for u in tst))))
        tst = {u: e['tpost'][u]['st'] for u in tst}
        pst = {p: e['ppost'][p]['st'] for p in pst}
    return keys


# ------------------------------------------------------------------------------
def _check_traces(chk, cases, label):
    '''run the rig on every case, validate with the monitor (one TLC run for
       all of them), report; label: one string, or one per case'''
    pid    = chk.pid
    labels = [label] * len(cases) if isinstance(label, str) else label
    traces = [R.run_ops(t, p, i, ops, iso=(pid == 'C06')) for t, p, i, ops in cases]
    if not traces:
        return {}
    res, st = tracecheck.validate('ClientState', 'ClientStateTrace', R.constants_text(),
                                  traces, max_batch=4000, workers=1, timeout=1500)
    chk.states      += st['states']
    chk.transitions += st['transitions']
    chk.cmds.append(st['cmd'])
    notes = {}
    for case, tr, errs, label in zip(cases, traces, res, labels):
        chk.traces += 1
        for k in _nontrivial_keys(tr):
            chk.nontrivial.add(hash((pid, k)))
        for err in errs:
            pre = err.split('.')[0]
            if pre == 'N':
                notes[err] = notes.get(err, 0) + 1
            if pre != pid:
                continue
            chk.violation(err, classify(tr, err),
                          'real client-side notification path violates %s (%s)' % (err, label),
                          {'rig': 'clientstate', 'tasks': case[0], 'pilots': case[1],
                           'init_bound': case[2], 'ops': case[3], 'errs': errs})
    return notes


def run(chk, tier, seed):
    pid = chk.pid
    if pid not in PLAN:
        raise Machinery('clientstate serves C06, C13, C14 - not %s' % pid)
    rng   = random.Random(seed * 7919 + 17)
    quick = tier == 'quick'
    sq, st_, sims = PLAN[pid]

    # ---- 1. design model, exhaustive --------------------------------------------
    for name in (sq if quick else sq + st_):
        res = tlc.run('ClientState', 'ClientState', 'MC.cfg', workers=WORKERS, timeout=1500,
                      extra_files=mc_files(SCENARIOS[name]))
        chk.add_tlc(res, 'exhaustive:' + name)
        if not res.ok:
            raise Machinery('design model ClientState violates %s in scenario %s '
                            '(intended design must hold):\n%s'
                            % (res.violated, name, res.trace[:3000]))
    chk.exhaustive = True

    # ---- 2. deviation sensitivity ------------------------------------------------
    if not quick:
        for dev, name, invs, props, expect in DEVIATIONS[pid]:
            res = tlc.run('ClientState', 'ClientState', 'MC.cfg', workers=WORKERS, timeout=900,
                          extra_files=mc_files(SCENARIOS[name], devs=[dev],
                                               invariants=invs, props=props))
            chk.add_tlc(res, 'deviation:%s:%s' % (dev, '+'.join(invs + props)))
            if expect is None:
                if not res.ok:
                    raise Machinery('deviation %s was expected to leave %s intact, TLC reports %s'
                                    % (dev, invs + props, res.violated))
                chk.notes.append('deviation %s leaves %s intact (outside %s as stated)'
                                 % (dev, ', '.join(invs + props), pid))
            else:
                if res.ok or res.violated != expect:
                    raise Machinery('deviation %s not detected by the model (expected %s, got %s)'
                                    % (dev, expect, res.violated))
                chk.notes.append('deviation %s breaks %s in the design model' % (dev, expect))

    # ---- 3. TLC behaviours -> operation sequences for the real code ---------------
    cases = []
    nsim  = 120 if quick else 1500
    for name in sims:
        dump = tlc.scratch('rpsim_')
        try:
            res = tlc.run('ClientState', 'MCSim', 'MCSim.cfg', workers=1, timeout=600,
                          simulate='num=%d' % nsim, depth=24 if quick else 32,
                          seed=rng.randrange(10 ** 6), dump_dir=dump,
                          extra_files=sim_files(SIM[name]))
            chk.add_tlc(res, 'simulate:' + name)
            if not res.ok:
                raise Machinery('simulation of %s reports %s' % (name, res.violated))
            sc = SIM[name]
            for f in sorted(glob.glob(os.path.join(dump, 'tr_*'))):
                bound, ops = ops_from_behaviour(f, rng)
                if ops:
                    cases.append((list(sc['tasks']), list(sc['pilots']),
                                  {t: b for t, b in (bound or {}).items() if b != 'none'}, ops))
        finally:
            shutil.rmtree(dump, ignore_errors=True)
    if not cases:
        raise Machinery('no TLC behaviour could be turned into operations')
    labels = ['TLC behaviour'] * len(cases)
    chk.sample({'kind': 'tlc-behaviour', 'tasks': cases[0][0], 'pilots': cases[0][1],
                'init_bound': cases[0][2], 'ops': cases[0][3][:8]})

    # ---- 4. exhaustive small-scope enumeration --------------------------------------
    enum  = {'C06': enum_c06, 'C13': enum_c13, 'C14': enum_c14}[pid]
    more  = list(enum(quick))
    chk.sample({'kind': 'enumeration', 'cases': len(more), 'last_ops': more[-1][3]})
    cases  += more
    labels += ['small-scope enumeration'] * len(more)

    # ---- 5. seeded random operation sequences ----------------------------------------
    more = [random_case(rng) for _ in range(400 if quick else 6000)]
    more = [c for c in more if c[3]]
    cases  += more
    labels += ['seeded random'] * len(more)

    # ---- 6. all of them through the real code and the monitor ------------------------
    notes = _check_traces(chk, cases, labels)
    for k in sorted(notes):
        chk.notes.append('%s: %d traces' % (k, notes[k]))
    chk.assumptions += [
        'state notifications reach the managers one batch at a time (the ZeroMQ subscriber '
        'thread calls _state_sub_cb sequentially; exceptions are logged there, return values ignored)',
        'a task is bound when a full task dict carrying `pilot` has moved its state '
        '(the only channel through which the client-side Task learns its pilot)',
        'state names are those of states._task_state_values / _pilot_state_values '
        '(%d + 3 task states, %d + 3 pilot states)' % (NT, NP)]


def replay(chk, obj):
    case = (obj['tasks'], obj['pilots'], obj.get('init_bound', {}), obj['ops'])
    _check_traces(chk, [case], 'replay')
