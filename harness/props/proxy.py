'''
C05 for Agent_0's proxy hops (clauses C05.Hop*): Proxy design model (TLC
exhaustive, termination under fairness, deviation constants), and the REAL
Agent_0.initialize / work_cb / _proxy_input_cb / _proxy_output_cb /
_launch_service_task on in-memory queues, driven by
  (a) TLC behaviours of the design model, step by step, comparing the queue
      contents after every step (scenarios without a failing service),
  (b) exhaustive small-scope enumeration of the interleavings of the two
      directions, cancel messages and the agent pipeline,
  (c) seeded random scenarios and scripts;
every run is validated by the ProxyTrace monitor.
'''

import random
import shutil
import multiprocessing as mp

from .. import tlc, tracecheck
from ..core import Machinery

INVARIANTS = ['InOnce', 'OutOnce', 'NoLossIn', 'NoLossOut', 'Routed', 'NotStuck',
              'CanceledOnlyNamed', 'ClientGetsOnce', 'TypeOK']
DEVS = ['DevSvcFailsBulk', 'DevSvcHang', 'DevOutWrongQname', 'DevDropTail', 'DevCancelFwd']


def T(uid, svc='no'):
    return {'uid': uid, 'svc': svc}


# scenarios: (name, tasks, bulks, cancels, taskenv)
SCENARIOS = [
    ('one-bulk',      [T('t1'), T('t2')], [['t1', 't2']], [], False),
    ('two-bulks',     [T('t1'), T('t2'), T('t3')], [['t1', 't2'], ['t3']], [], True),
    ('cancel-one',    [T('t1'), T('t2'), T('t3')], [['t1', 't2'], ['t3']], [['t2']], False),
    ('cancel-two',    [T('t1'), T('t2'), T('t3')], [['t1'], ['t2', 't3']], [['t1', 't3'], ['t2']], False),
    ('service-up',    [T('t1'), T('s1', 'up'), T('t2')], [['t1', 's1'], ['t2']], [['t2']], True),
    ('two-services',  [T('s1', 'up'), T('t1'), T('s2', 'up')], [['s1', 't1', 's2']], [], False),
    ('svc-timeout',   [T('t1'), T('s1', 'timeout'), T('t2')], [['t1', 's1'], ['t2']], [], False),
    ('svc-timeout-2', [T('s1', 'timeout'), T('s2', 'up'), T('t1')], [['s1', 's2', 't1']], [['t1']], False),
    ('svc-never',     [T('t1'), T('s1', 'never'), T('t2')], [['t1'], ['s1', 't2']], [], False),
]
PLAIN = lambda tasks: all(t['svc'] in ('no', 'up') for t in tasks)


def mc_files(tasks, bulks, cancels, devs=(), liveness=False, invariants=True):
    q = lambda u: '"%s"' % u
    uids = [t['uid'] for t in tasks]
    mod = ('---- MODULE MCP ----\nEXTENDS Proxy\nMCT == {%s}\nMCOrd == <<%s>>\nMCBulks == <<%s>>\n'
           'MCCancel == <<%s>>\nMCService == [t \\in MCT |-> CASE %s]\n====\n'
           % (', '.join(map(q, uids)), ', '.join(map(q, uids)),
              ', '.join('<<' + ', '.join(map(q, b)) + '>>' for b in bulks),
              ', '.join('{' + ', '.join(map(q, c)) + '}' for c in cancels),
              ' [] '.join('t = %s -> %s' % (q(t['uid']), q(t['svc'])) for t in tasks)))
    cfg = ('CONSTANTS\n T <- MCT\n Ord <- MCOrd\n InBulks <- MCBulks\n CancelMsgs <- MCCancel\n'
           ' Service <- MCService\n')
    for d in DEVS:
        cfg += ' %s = %s\n' % (d, 'TRUE' if d in devs else 'FALSE')
    cfg += 'SPECIFICATION Spec\nCHECK_DEADLOCK FALSE\n'
    if liveness:
        cfg += 'PROPERTY Termination\n'
    elif invariants:
        for i in INVARIANTS:
            cfg += 'INVARIANT %s\n' % i
    return {'MCP.tla': mod, 'MCP.cfg': cfg}


def script_from_behaviour(path, uids):
    '''(script, expected projection after each step) from a TLC behaviour of Proxy'''
    steps = tlc.parse_sim_file(path)
    script, expect, prev = [], [], None
    for act, args, st in steps:
        if act == 'Init' or prev is None:
            prev = st
            continue
        if act == 'ClientPut':
            script.append(['put', prev['nput'] - 1])
        elif act == 'Cancel':
            script.append(['cancel', prev['ncan'] - 1])
        elif act == 'AgentTake':
            script.append(['take'])
        elif act in ('AgentEmit', 'Env'):        # TLC names the quantified disjunct after Env
            gone = set(prev['inagent']) - set(st['inagent'])
            script.append(['emit', [u for u in uids if u in gone]])
        elif act == 'WorkIn':
            script.append(['work', 'in'])
        elif act == 'WorkOut':
            script.append(['work', 'out'])
        else:
            raise Machinery('unknown action %s in a Proxy behaviour' % act)
        expect.append({'pin': [list(b) for b in st['pin']], 'ain': [list(b) for b in st['ain']],
                       'coll': [list(b) for b in st['coll']], 'pout': [list(b) for b in st['pout']],
                       'inagent': sorted(st['inagent']), 'clist': sorted(st['clist']),
                       'stuck': bool(st['stuck'])})
        prev = st
    return script, expect


# ------------------------------------------------------------------------------
def enabled(rig, nput, ncan):
    p, out = rig.projection(), []
    if nput < len(rig.scn.bulks):
        out.append(['put', nput])
    if ncan < len(rig.scn.cancels):
        out.append(['cancel', ncan])
    if p['pin'] and not rig.stuck:
        out.append(['work', 'in'])
    if p['coll'] and not rig.stuck:
        out.append(['work', 'out'])
    if p['ain']:
        out.append(['take'])
    held = [u for u in rig.trace()['uids'] if u in p['inagent']]
    for u in held:
        out.append(['emit', [u]])
    if len(held) > 1:
        out.append(['emit', held])
    return out


def enumerate_runs(X, scn, limit):
    '''every maximal interleaving of client puts, cancel messages, agent pipeline steps and
       the two polls of work_cb (depth first, replay from scratch), at most `limit` runs'''
    prefix, runs = [], 0
    while True:
        rig = X.ProxyRig(scn, [])
        widths, i, nput, ncan = [], 0, 0, 0
        while True:
            opts = enabled(rig, nput, ncan)
            if not opts or i > 60:
                break
            if i < len(prefix):
                k = prefix[i]
            else:
                prefix.append(0)
                k = 0
            widths.append(len(opts))
            st = opts[k]
            rig.script.append(st)
            rig.step(st)
            nput += st[0] == 'put'
            ncan += st[0] == 'cancel'
            i += 1
        yield rig.finish()
        runs += 1
        del prefix[len(widths):]
        while prefix and prefix[-1] + 1 >= widths[len(prefix) - 1]:
            prefix.pop()
        if not prefix or runs >= limit:
            return
        prefix[-1] += 1


def _job(args):
    kind, name, sd, arg = args
    from ..rigs import proxy_rig as X
    out = []
    if kind == 'script':
        scn = X.Scenario(sd['tasks'], sd['bulks'], sd['cancels'], sd['taskenv'])
        for script, expect in arg:
            rig = X.ProxyRig(scn, script)
            tr  = rig.run()
            mism = 'none'
            if expect is not None:
                for i, (e, g) in enumerate(zip(expect, rig.proj)):
                    if e != g:
                        mism = 'step %d %s: model %s, code %s' % (i, script[i], e, g)
                        break
            out.append((sd, tr, mism))
    elif kind == 'enum':
        scn = X.Scenario(sd['tasks'], sd['bulks'], sd['cancels'], sd['taskenv'])
        for tr in enumerate_runs(X, scn, arg):
            out.append((sd, tr, 'none'))
    elif kind == 'random':
        seed, n = arg
        rng = random.Random(seed)
        for i in range(n):
            scn = X.random_scenario(rng)
            rig = X.ProxyRig(scn, X.random_script(rng, scn))
            out.append((scn.as_dict(), rig.run(), 'none'))
    seen, uniq = set(), []
    for sd_, tr, mism in out:
        key = hash(repr([(e['ev'], e.get('hop'), e.get('uids', e.get('uid')), e.get('state'))
                         for e in tr['events']]) + repr(sd_['tasks']) + mism)
        if key in seen:
            continue
        seen.add(key)
        uniq.append((sd_, tr, mism))
    return kind, name, len(out), uniq


def classify(tr):
    kinds = set(e['kind'] for e in tr['events'] if e['ev'] == 'SvcWait')
    if 'never' in kinds:
        return 'agent_0 proxy, a service never comes up and has no startup_timeout'
    if 'timeout' in kinds:
        return 'agent_0 proxy, a service start times out'
    return 'agent_0 proxy, no failing service'


def report(chk, sd, tr, errs, mism, what):
    if mism != 'none':
        errs = list(errs) + ['C05.HopModelMismatch']
    for err in errs:
        if err.split('.')[0] != chk.pid:
            continue
        chk.violation(err, classify(tr), '%s %s%s' % (what, err, '' if mism == 'none' else ' (' + mism + ')'),
                      {'rig': 'proxy', 'tasks': sd['tasks'], 'bulks': sd['bulks'],
                       'cancels': sd['cancels'], 'taskenv': sd['taskenv'], 'script': tr['script'],
                       'errs': errs,
                       'events': [{k: v for k, v in e.items() if k not in ('chan', 'control', 'fwd')}
                                  for e in tr['events']][:80]})


def run(chk, tier, seed):
    quick = tier == 'quick'
    rng   = random.Random(seed * 6151 + 3)
    W     = 8

    # ---- 1. design model, 2. behaviours (TLC runs side by side) ------------------
    from concurrent.futures import ThreadPoolExecutor
    expect = [('DevSvcFailsBulk', 'svc-timeout', ('InOnce',)),
              ('DevSvcHang', 'svc-never', ('NotStuck',)),
              ('DevOutWrongQname', 'two-bulks', ('NoLossOut', 'Routed')),
              ('DevDropTail', 'two-bulks', ('NoLossIn',)),
              ('DevCancelFwd', 'cancel-one', ('InOnce', 'OutOnce'))]
    nsim = 40 if quick else 400
    todo = []
    for name, tasks, bulks, cancels, env in SCENARIOS:
        todo.append(('exhaustive', name, None))
        if not quick:
            todo.append(('termination', name, None))
        todo.append(('simulate', name, rng.randrange(10 ** 6)))
    for dev, sname, invs in (expect[:2] if quick else expect):
        todo.append(('deviation', sname, dev))
    byname = {s[0]: s for s in SCENARIOS}

    def _tlc(item):
        kind, name, arg = item
        _, tasks, bulks, cancels, env = byname[name]
        if kind == 'exhaustive':
            return tlc.run('Proxy', 'MCP', 'MCP.cfg', workers=2, timeout=600,
                           extra_files=mc_files(tasks, bulks, cancels)), None
        if kind == 'termination':
            return tlc.run('Proxy', 'MCP', 'MCP.cfg', workers=2, timeout=600,
                           extra_files=mc_files(tasks, bulks, cancels, liveness=True)), None
        if kind == 'deviation':
            return tlc.run('Proxy', 'MCP', 'MCP.cfg', workers=2, timeout=600,
                           extra_files=mc_files(tasks, bulks, cancels, devs=[arg])), None
        dump = tlc.scratch('rppsim_')
        try:
            res = tlc.run('Proxy', 'MCP', 'MCP.cfg', workers=1, timeout=300,
                          simulate='num=%d' % nsim, depth=60, seed=arg, dump_dir=dump,
                          extra_files=mc_files(tasks, bulks, cancels, invariants=False))
            uids = [t['uid'] for t in tasks]
            return res, [script_from_behaviour(f, uids) for f in tlc.sim_files(dump)]
        finally:
            shutil.rmtree(dump, ignore_errors=True)

    with ThreadPoolExecutor(max_workers=4) as tp:
        outs = list(tp.map(_tlc, todo))

    jobs = []
    for (kind, name, arg), (res, scripts) in zip(todo, outs):
        _, tasks, bulks, cancels, env = byname[name]
        chk.add_tlc(res, '%s:%s%s' % (kind, name, ':' + arg if kind == 'deviation' else ''))
        if kind == 'exhaustive' and not res.ok:
            raise Machinery('Proxy design model violates %s in %s:\n%s'
                            % (res.violated, name, res.trace[:3000]))
        if kind == 'termination' and not res.ok:
            raise Machinery('Proxy design model does not terminate in %s:\n%s'
                            % (name, res.trace[:3000]))
        if kind == 'deviation':
            invs = [e[2] for e in expect if e[0] == arg][0]
            if res.ok or res.violated not in invs:
                raise Machinery('deviation %s not detected in %s (got %s)' % (arg, name, res.violated))
            chk.notes.append('deviation %s (%s): %s' % (arg, name, res.violated))
        if kind == 'simulate':
            if not scripts:
                raise Machinery('no TLC behaviours for scenario %s' % name)
            sd = {'tasks': tasks, 'bulks': bulks, 'cancels': cancels, 'taskenv': env}
            # the code is compared with the model step by step where the model (all Dev FALSE)
            # describes it: no failing service in the scenario
            plain = PLAIN(tasks)
            jobs.append(('script', name, sd, [(s, e if plain else None) for s, e in scripts]))
    chk.exhaustive = True

    # ---- 3. exhaustive small-scope interleavings, random scenarios ------------------
    for name, tasks, bulks, cancels, env in SCENARIOS:
        sd = {'tasks': tasks, 'bulks': bulks, 'cancels': cancels, 'taskenv': env}
        jobs.append(('enum', name, sd, 400 if quick else 20000))
    for k in range(W):
        jobs.append(('random', 'random-%d' % k, None, (rng.randrange(10 ** 9), 80 if quick else 2500)))

    pool = mp.get_context('fork').Pool(W)
    try:
        results = pool.map(_job, jobs, chunksize=1)
    finally:
        pool.close()
        pool.join()

    items, nruns = [], 0
    for (kind, name, n, uniq) in results:
        nruns += n
        chk.cov.setdefault('rig_runs', []).append({'kind': kind, 'scenario': name, 'runs': n,
                                                   'distinct_event_sequences': len(uniq)})
        for sd, tr, mism in uniq:
            items.append((kind, name, sd, tr, mism))
    chk.evaluations += nruns

    # ---- 4. monitor ------------------------------------------------------------------
    traces = [it[3] for it in items]
    res, st = tracecheck.validate('Proxy', 'ProxyTrace', '', traces, max_batch=300, parallel=W)
    chk.states += st['states']
    chk.transitions += st['transitions']
    chk.cmds.append(st['cmd'])
    for (kind, name, sd, tr, mism), errs in zip(items, res):
        chk.traces += 1
        evs = [(e['ev'], e.get('hop')) for e in tr['events']]
        # non-trivial: both directions carried tasks and a cancel or a service took part
        if ('Fwd', 'in') in evs and ('Fwd', 'out') in evs and \
           any(e['ev'] in ('SvcWait',) or (e['ev'] == 'PubState' and e['state'] == 'CANCELED')
               for e in tr['events']):
            chk.nontrivial.add(hash(repr(evs)))
        report(chk, sd, tr, errs, mism, 'real Agent_0 proxy hop trace violates')
    if items:
        tr = items[0][3]
        chk.sample({'scenario': items[0][1], 'script': tr['script'][:30],
                    'events': [(e['ev'], e.get('hop', ''), e.get('uids', e.get('uid', '')))
                               for e in tr['events'][:25]]})
    chk.assumptions += [
        'proxy hops: queues are in-memory stand-ins (FIFO per channel and qname, a put copies the '
        'bulk as the wire does); a poll which finds nothing stands for a bulk still under way',
        'proxy hops: work_cb is the only thread serving both hops (as registered by the real '
        'initialize); control messages are delivered between its polls',
        'proxy hops: the service behind _service_start_evt.wait() is played by the rig: it reports '
        'up / an error through the real control path',
        'proxy hops: interleavings beyond the enumeration cap (quick) are sampled']


def replay(chk, obj):
    from ..rigs import proxy_rig as X
    scn = X.Scenario(obj['tasks'], obj['bulks'], obj.get('cancels') or [], obj.get('taskenv'))
    rig = X.ProxyRig(scn, obj['script'])
    tr  = rig.run()
    res, st = tracecheck.validate('Proxy', 'ProxyTrace', '', [tr])
    chk.traces += 1
    report(chk, scn.as_dict(), tr, res[0], 'none', 'replayed Agent_0 proxy hop trace violates')
