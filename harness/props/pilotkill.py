'''
C14, launcher side (kill requests): a kill request naming a set of pilots affects
exactly those pilots - a pilot nobody named is never canceled (KilledNotNamed),
every launched non-final pilot a delivered kill means gets its batch job canceled
(NamedNotKilled) - whatever the states of the named ones (not yet at the launcher,
live, final already, unknown uid), with 1..3 pilots in the manager; only an
explicitly empty request / close() means "all".

The PilotKill design model (exhaustive TLC), TLC behaviours of the model replayed
step by step into the real PilotManager -> control message -> real
PMGRLaunchingComponent -> real SAGA / PSI-J launchers on a recording batch system,
a small-scope enumeration (pilot states x launcher kinds x request x what happens
before the delivery) and seeded random scenarios; every recorded trace is
validated by the PilotKillTrace monitor.
'''

import re
import random
import shutil
import itertools

from .. import tlc, tracecheck
from ..core import Machinery
from ..rigs import pilotkill_rig as K

INVARIANTS = ['TypeOK', 'InvKilledNotNamed', 'InvNamedKilled', 'InvRightPilot', 'InvFinalReported']
PROPERTIES = ['ActFinalKept']
DEVS       = {'DevFinalFilterFirst': 'InvKilledNotNamed', 'DevNoPmgrCheck': 'InvKilledNotNamed',
              'DevStopAtUnknown': 'InvNamedKilled', 'DevNoRecheckAtLaunch': 'InvNamedKilled',
              'DevRegisterAfterSubmit': 'InvFinalReported',
              'DevReportForMate': 'InvRightPilot', 'DevTerminateAlways': 'InvKilledNotNamed'}
# deviations of the code's shape which do not break the property on their own (the kill is enacted a
# moment later; C14 states no immediacy): the model has to stay correct with them
EQUIV      = ['DevLaunchOutsideLock']
ALL_DEVS   = list(DEVS) + EQUIV

IDS = {'p1': K.PIDS[0], 'p2': K.PIDS[1], 'p3': K.PIDS[2], 'ux': K.GHOST}


def mc_cfg(pilots, maxreq, maxctl, devs=(), symmetry=True, invariants=None, props=None):
    c = ('CONSTANTS\n Pilots = {%s}\n Ghost = ux\n MaxReq = %d\n MaxCtl = %d\n'
         % (', '.join('p%d' % i for i in range(1, pilots + 1)), maxreq, maxctl))
    for d in ALL_DEVS:
        c += ' %s = %s\n' % (d, 'TRUE' if d in devs else 'FALSE')
    c += 'SPECIFICATION Spec\nCHECK_DEADLOCK FALSE\n'
    if symmetry:
        c += 'SYMMETRY Perms\n'
    for i in (INVARIANTS if invariants is None else invariants):
        c += 'INVARIANT %s\n' % i
    for p in (PROPERTIES if props is None else props):
        c += 'PROPERTY %s\n' % p
    return {'MC.cfg': c}


# ------------------------------------------------------------------------------
def script_from_behaviour(path, rng):
    '''WorkBegin .. LaunchEnd of the model is ONE call of the real work(): what the model does
       in between (phase staging / submit) becomes the steps of the other threads at the
       schedule points of that call'''
    kinds, script, work, later = None, [], None, []
    for act, args, st in tlc.parse_sim_file(path):
        if kinds is None:
            kd    = st['kind']
            names = sorted(kd)
            kinds = [kd[k] for k in names]
        ids  = [IDS[x] for x in re.findall(r'\b(p\d|ux)\b', args or '')]
        step = None
        if act == 'WorkBegin':
            work = ['work', ids, {'staging': [], 'submit': []}]
            script.append(work)
            phase = 'staging'
            if st['wph'] == 'idle':
                work = None
        elif act == 'LaunchBegin':
            phase = 'submit'
            if st['wph'] == 'idle':
                work = None
        elif act == 'LaunchEnd':
            work = None
            script.extend(later)
            later = []
        elif act == 'Active'   : step = ['active', ids[0]]
        elif act == 'JobEnds'  :
            step = ['jobends', ids[0], re.search(r'"(\w+)"', args).group(1)]
            if work and step[2] == 'FAILED' and kinds[names.index([k for k in IDS if IDS[k] == ids[0]][0])] == 'saga' \
                    and ids[0] in work[1]:
                # a SAGA job FAILED when run() returns fails the whole bulk (the sizing part's
                # business): report it right after the submission
                later.append(step)
                step = None
        elif act == 'Deliver'  : step = ['deliver']
        elif act == 'Close'    : step = rng.choice([['close'], ['pclose', True], ['sclose', True, 'kwarg'],
                                                    ['sclose', None, 'exit'], ['sclose', True, 'option']])
        elif act == 'CloseKeep': step = rng.choice([['pclose', False], ['sclose', False, 'kwarg'],
                                                    ['sclose', False, 'option']])
        elif act in ('ReqKill', 'ReqCancel'):
            api  = 'kill' if act == 'ReqKill' else 'cancel'
            form = 'list'
            if not ids:
                form = rng.choice(['none', 'list'])
            elif len(ids) == 1:
                form = rng.choice(['list', 'str'] + (['pilot'] if api == 'cancel' and ids[0] != K.GHOST else []))
            step = [api, ids, form]
        elif act == 'ReqRaw':
            step = ['raw', ids, 'TRUE' in args, 'str' if len(ids) == 1 and rng.random() < 0.3 else 'list']
        if step:
            (work[2][phase] if work else script).append(step)
    for st_ in script:
        if st_[0] == 'work':
            st_[2] = {k: v for k, v in st_[2].items() if v}
            if not st_[2]:
                del st_[2]
    return kinds, script + later + [['flush'], ['end']]


# ------------------------------------------------------------------------------
# small scope: every pilot in one of these situations when the request is made
SITUATIONS = ['new', 'live', 'active', 'DONE', 'FAILED', 'CANCELED']


def setup_steps(pids, sits):
    steps = []
    going = [p for p, s in zip(pids, sits) if s != 'new']
    if going:
        steps.append(['work', going])
    for p, s in zip(pids, sits):
        if s in ('active', 'DONE'):
            steps.append(['active', p])
    for p, s in zip(pids, sits):
        if s in ('DONE', 'FAILED', 'CANCELED'):
            steps.append(['jobends', p, s])
    return steps


def requests(pids):
    subsets = [list(c) for n in range(1, len(pids) + 1) for c in itertools.combinations(pids, n)]
    for u in subsets:
        yield ['kill', u, 'str' if len(u) == 1 else 'list']
        yield ['raw', u, True, 'list']
    for u in subsets[:len(pids)]:
        yield ['kill', u, 'list']
        yield ['cancel', u, 'pilot']
        yield ['raw', u, False, 'list']
        yield ['raw', [K.GHOST] + u, True, 'list']
        yield ['kill', u + [K.GHOST], 'list']
    yield ['cancel', subsets[-1], 'list']
    yield ['kill', [], 'none']
    yield ['kill', [], 'list']
    yield ['raw', [], True, 'list']
    yield ['raw', [K.GHOST], True, 'str']
    yield ['raw', [], False, 'list']
    yield ['close']
    yield ['pclose', True]
    yield ['pclose', False]
    yield ['sclose', True, 'kwarg']
    yield ['sclose', False, 'kwarg']
    yield ['sclose', False, 'option']
    yield ['sclose', None, 'exit']


def small_scope(rng, sample3):
    '''n pilots in every combination of situations x every request x what happens between the
       request and its delivery (nothing / a live pilot's job ends / the new pilots arrive);
       for 3 pilots a seeded sample of `sample3` scenarios (all of them if None)'''
    for n in (1, 2, 3):
        pids = K.PIDS[:n]
        scen = []
        for sits in itertools.product(SITUATIONS, repeat=n):
            for req in requests(pids):
                scen.append((sits, req))
        if n == 3 and sample3 is not None and sample3 < len(scen):
            scen = rng.sample(scen, sample3)
        for sits, req in scen:
            kinds = [rng.choice(K.KINDS) for _ in pids]
            if rng.random() < 0.25:
                kinds = [rng.choice(K.KINDS)] * n
            between = []
            x = rng.random()
            live = [p for p, s in zip(pids, sits) if s in ('live', 'active')]
            new  = [p for p, s in zip(pids, sits) if s == 'new']
            if x < 0.25 and live:
                between = [['jobends', rng.choice(live), rng.choice(['DONE', 'FAILED'])]]
            elif x < 0.40 and new:
                between = [['work', new]]
            after = [['work', new]] if new and not between[:1] == [['work', new]] else []
            yield kinds, setup_steps(pids, sits) + [req] + between + [['deliver']] * 2 + after + \
                  [['flush'], ['end']]


def launch_window(rng, sample3):
    '''a kill request which lands while work() is busy with the pilot's bulk: 1..3 pilots in one
       call of work(), launcher kinds, who is named, the point of the delivery (while the staging
       directives / the tarball are staged - no lock; inside the submission - the component lock
       is held, the control thread has to wait)'''
    for n in (1, 2, 3):
        pids = K.PIDS[:n]
        scen = []
        for kinds in itertools.product(K.KINDS, repeat=n):
            subsets = [list(c) for k in range(1, n + 1) for c in itertools.combinations(pids, k)]
            for u in subsets + [[]]:
                for point in ('staging', 'tarball', 'submit'):
                    scen.append((list(kinds), ['kill', u, 'list' if u else 'none'], point))
                    scen.append((list(kinds), ['raw', u, True, 'list'], point))
        if n == 3 and sample3 is not None and sample3 < len(scen):
            scen = rng.sample(scen, sample3)
        for kinds, req, point in scen:
            yield kinds, [req, ['work', pids, {point: [['deliver']]}], ['flush'], ['end']]
            if point == 'submit' and n > 1:
                # the request itself is made while the jobs are submitted
                yield kinds, [['work', pids, {'submit': [req, ['deliver']]}], ['flush'], ['end']]


def job_reports(rng):
    '''the batch layer reports job states from inside the submission on: bulks of 1..3 pilots of
       one launcher, the job of one of them (every position) ends DONE / FAILED / CANCELED inside
       submit() (after QUEUED / RUNNING) or right after it, the others later'''
    for n in (1, 2, 3):
        pids = K.PIDS[:n]
        for kind in K.KINDS:
            for x in pids:
                for state in ('DONE', 'FAILED', 'CANCELED'):
                    for when in ('submit', 'after'):
                        if kind == 'saga' and state == 'FAILED' and when == 'submit':
                            continue        # fails the whole bulk when run() returns: sizing part
                        first = [['jobends', x, 'QUEUED']] + ([['jobends', x, 'RUNNING']] if rng.random() < 0.5 else [])
                        rep   = first + [['jobends', x, state]]
                        rest  = [['jobends', y, rng.choice(['DONE', 'FAILED', 'CANCELED'])] for y in pids if y != x]
                        rng.shuffle(rest)
                        work  = ['work', pids, {'submit': rep}] if when == 'submit' else ['work', pids]
                        yield [kind] * n, [work] + (rep if when == 'after' else []) + rest[:rng.randint(0, len(rest))] + \
                              [['kill', [], 'none'], ['flush'], ['end']]
    # two bulks of different launchers in one call of work()
    for x, state in itertools.product(K.PIDS[:2], ('DONE', 'CANCELED')):
        yield ['psij', 'saga'], [['work', K.PIDS[:2], {'submit': [['jobends', x, state]]}],
                                 ['jobends', K.PIDS[1 - K.PIDS.index(x)], 'FAILED'], ['flush'], ['end']]


# ------------------------------------------------------------------------------
FINALS = ('DONE', 'FAILED', 'CANCELED')


def _views(post, pids):
    return {r['pid']: ('final' if r['lv'] in FINALS else 'not yet launched' if r['lv'] == 'none' else r['lv'])
            for r in (post or [{'pid': p, 'lv': 'none'} for p in pids])}


def _describe(what, named, views, pids):
    if named:
        what += ' naming ' + ' + '.join(sorted(set(views.get(u, 'unknown uid') for u in named)))
    else:
        what += ' without uids'
    return what + ('; other pilots in the manager' if named and [p for p in pids if p not in named] else '')


WHERE = {'staging': ' delivered while work() stages a bulk', 'tarball': ' delivered while work() stages a bulk',
         'submit': ' delivered while the launcher submits jobs', 'unlock': '', 'none': ''}


def classify(trace, clause=''):
    '''StateForWrongPilot / PilotFinalNotReported: the job report at which it shows (final or not,
       from inside the submission or later, launcher, size of the bulk).
       NamedNotKilled with a pilot which is remembered for cancellation and alive all the same: the
       delivery which had it remembered, and where work() was at that moment.
       Else the delivered control message at which the launcher did something to a pilot the message
       does not mean (KilledNotNamed) / left out one it means (NamedNotKilled): what it is, the
       launcher's view of the uids it names at that moment, whether the manager holds other pilots.
       Without such a delivery: the same for the first request of the scenario.'''
    pids, post = [p['pid'] for p in trace['pilots']], None
    kind = {p['pid']: p['kind'] for p in trace['pilots']}
    evs  = trace['events']
    if 'StateForWrongPilot' in clause or 'PilotFinalNotReported' in clause:
        cs, bulk = {p: 'PEND' for p in pids}, {}
        for e in evs:
            if e['ev'] == 'WorkBegin':
                for p in e['pids']:
                    bulk[p] = len([q for q in e['pids'] if kind[q] == kind[p]])
            now = {r['pid']: r['cs'] for r in e['post']}
            if e['ev'] == 'JobEnds':
                x, cs = e['pid'], dict(zip(pids, e['cspre']))
                wrong = [y for y in pids if y != x and (now[y] != cs[y] or [1 for z in e['pubs'] if z[0] == y])]
                lost  = e['final'] and e['listening'] and now[x] not in FINALS
                if (wrong and 'Wrong' in clause) or (lost and 'NotReported' in clause):
                    return '%s job state reported %s: %s launcher, bulk of %d' % (
                        'final' if e['final'] else 'non-final',
                        'from inside the submission' if e['during'] == 'submit' else 'after the submission',
                        kind[x], bulk.get(x, 1))
            cs = now
    for e in evs:
        # a close which sends what it must not (terminate=False) / not what it has to (terminate)
        if e['ev'] == 'Request' and e['api'] in ('pclose', 'sclose'):
            told = [m for m in e['msgs'] if m['fwd'] or (m['cmd'] == 'kill_pilots' and m['own'])]
            if (not e['terminate'] and told and 'KilledNotNamed' in clause) or \
               (e['terminate'] and not told and 'NamedNotKilled' in clause):
                return '%s.close(terminate=%s)' % ('Session' if e['api'] == 'sclose' else 'PilotManager',
                                                   e['terminate'])
    if 'NamedNotKilled' in clause:
        jc, lostp = set(), None
        for e in evs:
            jc |= set(e['jobc'])
            if e['ev'] == 'JobEnds' and e['final']:
                jc.add(e['pid'])             # the job ended by itself: nothing is owed
            if e['ev'] in ('Work', 'End'):
                for r in e['post']:
                    if r['pre'] and r['lv'] == 'live' and r['pid'] not in jc and \
                            (e['ev'] == 'End' or r['pid'] in e['pids']):
                        lostp = r['pid']
                        break
            if lostp:
                break
        if lostp:
            was = False
            for e in evs:
                isnow = [r for r in e['post'] if r['pid'] == lostp and r['pre']]
                if e['ev'] == 'Deliver' and isnow and not was:
                    if lostp in e['insubmit']:
                        return 'kill request delivered while the launcher submits the pilot\'s job'
                    if lostp in e['inwork']:
                        return 'kill request delivered while work() is busy with the pilot, before its job is ' \
                               'submitted (staging, another bulk of the call)'
                    return 'kill request remembered for a pilot which arrives later'
                was = bool(isnow)
    for e in evs:
        if e['ev'] == 'Deliver':
            m    = e['msg']
            lvp  = dict(zip(pids, e['lvpre']))
            views = {p: ('final' if v in FINALS else 'not yet launched' if v == 'none' else v) for p, v in lvp.items()}
            kill = m['cmd'] == 'kill_pilots' and m['own']
            old  = {r['pid']: r for r in (post or [])}
            launched = [p for p in pids if lvp[p] != 'none']
            mean = (m['uids'] or launched) if kill else []
            hit  = set(e['jobc']) | set(x[0] for x in e['pubs'] if x[1] == 'CANCELED') | \
                   set(r['pid'] for r in e['post'] if r['pre'] and not old.get(r['pid'], {}).get('pre', False))
            miss = [p for p in mean if p in pids and
                    ((lvp[p] == 'live' and p not in e['jobc']) or
                     (lvp[p] == 'none' and not [r for r in e['post'] if r['pid'] == p and r['pre']]))]
            if (hit - set(mean)) if 'NamedNotKilled' not in clause else miss:
                what = 'kill request' if kill else 'kill message of another pilot manager' \
                       if m['cmd'] == 'kill_pilots' else 'cancel request'
                return _describe(what, m['uids'], views, pids) + WHERE[e['during']]
        post = e['post']
    post = None
    for e in evs:
        if e['ev'] == 'Request':
            if not e['own']:
                return _describe('kill message of another pilot manager', e['uids'], _views(post, pids), pids)
            if e['api'] == 'close':
                return 'close()'
            if e['api'] in ('pclose', 'sclose'):
                return '%s.close(terminate=%s)' % ('Session' if e['api'] == 'sclose' else 'PilotManager',
                                                   e['terminate'])
            return _describe({'raw': 'kill', 'kill': 'kill', 'cancel': 'cancel'}[e['api']] + ' request',
                             e['uids'], _views(post, pids), pids)
        post = e['post']
    return 'no request'


def validate(chk, inputs):
    traces = [K.PilotKillRig(inp['kinds'], inp['script']).run() for inp in inputs]
    res, st = tracecheck.validate('PilotKill', 'PilotKillTrace', '', traces, max_batch=3000, timeout=1200)
    chk.states += st['states']
    chk.transitions += st['transitions']
    chk.cmds.append(st['cmd'])
    for inp, tr, errs in zip(inputs, traces, res):
        chk.traces += 1
        reqs = [e for e in tr['events'] if e['ev'] == 'Request']
        if reqs and len(tr['pilots']) > 1:
            chk.nontrivial.add((len(tr['pilots']), classify(tr),
                                tuple(sorted(set(r['lv'] for r in tr['events'][-1]['post'])))))
        bad = [e for e in errs if e.split('.')[0] == 'X']
        if bad:
            raise Machinery('pilotkill rig produced a malformed trace: %s %s' % (bad, inp))
        if 'C14.StateForWrongPilot' in errs:
            # CANCELED reported for the wrong pilot shows up as "canceled without being named"
            # as well: the report is the cause
            errs = [e for e in errs if e != 'C14.KilledNotNamed']
        for err in errs:
            if err.split('.')[0] != chk.pid:
                continue
            end = tr['events'][-1]['post']
            chk.violation(err, classify(tr, err),
                          'real PilotManager + launcher, %d pilot(s) (%s): %s; in the end %s'
                          % (len(tr['pilots']), '/'.join(p['kind'] for p in tr['pilots']), classify(tr, err),
                             ', '.join('%s launcher=%s client=%s' % (r['pid'], r['lv'], r['cs']) for r in end)),
                          {'rig': 'pilotkill', 'input': inp, 'errs': errs, 'trace': tr})
    return traces, res


def run(chk, tier, seed):
    rng   = random.Random(seed * 32452843 + 1414)
    quick = tier == 'quick'

    # ---- 1. design model, exhaustive ------------------------------------------
    c15 = chk.pid == 'C15'           # the share of C15: job reports reach the pilot (reduced run)
    for n, maxreq, maxctl in ([(2, 1, 2)] if quick else
                              [(2, 1, 2), (1, 3, 3), (2, 2, 2), (3, 1, 2)]):
        res = tlc.run('PilotKill', 'PilotKill', 'MC.cfg', workers=8, timeout=900,
                      extra_files=mc_cfg(n, maxreq, maxctl))
        chk.add_tlc(res, 'exhaustive:pilots=%d,requests=%d' % (n, maxreq))
        if not res.ok:
            raise Machinery('design model PilotKill violates %s (intended design must hold):\n%s'
                            % (res.violated, (res.trace or res.out)[:3000]))
    chk.exhaustive = True

    # ---- 2. deviation sensitivity ----------------------------------------------
    if not quick:
        for dev, inv in DEVS.items():
            res = tlc.run('PilotKill', 'PilotKill', 'MC.cfg', workers=8, timeout=600,
                          extra_files=mc_cfg(2, 1, 2, devs=[dev]))
            chk.add_tlc(res, 'deviation:' + dev)
            if res.violated != inv:
                raise Machinery('deviation %s not detected by the model (got %s)' % (dev, res.violated))
            chk.notes.append('deviation %s breaks %s in the design model' % (dev, inv))
        for dev in EQUIV:
            res = tlc.run('PilotKill', 'PilotKill', 'MC.cfg', workers=8, timeout=600,
                          extra_files=mc_cfg(2, 1, 2, devs=[dev]))
            chk.add_tlc(res, 'equivalent:' + dev)
            if not res.ok:
                raise Machinery('%s alone must not break the model (got %s)' % (dev, res.violated))
            res = tlc.run('PilotKill', 'PilotKill', 'MC.cfg', workers=8, timeout=600,
                          extra_files=mc_cfg(2, 1, 2, devs=[dev, 'DevNoRecheckAtLaunch']))
            chk.add_tlc(res, 'deviation:%s+DevNoRecheckAtLaunch' % dev)
            if res.violated != 'InvNamedKilled':
                raise Machinery('%s + DevNoRecheckAtLaunch not detected (got %s)' % (dev, res.violated))
            chk.notes.append('%s alone keeps all invariants (the kill is enacted once the bulk is registered); '
                             'with DevNoRecheckAtLaunch it breaks InvNamedKilled' % dev)

    # ---- 3. TLC behaviours -> scenarios for the real code ------------------------
    inputs, seen = [], set()

    def add(kind, kinds, script):
        k = repr((kinds, script))
        if k in seen:
            return
        seen.add(k)
        inputs.append({'kind': kind, 'kinds': kinds, 'script': script})

    for n in ((3,) if quick else (2, 3)):
        dump = tlc.scratch('rpsim_')
        try:
            res = tlc.run('PilotKill', 'PilotKill', 'MC.cfg', workers=1, timeout=600,
                          simulate='num=%d' % ((120 if c15 else 260) if quick else 4000), depth=18,
                          seed=rng.randrange(10 ** 6), dump_dir=dump,
                          extra_files=mc_cfg(n, 3, 3, symmetry=False, invariants=['TypeOK'], props=[]))
            chk.add_tlc(res, 'simulate:pilots=%d' % n)
            for f in tlc.sim_files(dump):
                add('tlc-behaviour', *script_from_behaviour(f, rng))
        finally:
            shutil.rmtree(dump, ignore_errors=True)
    n_tlc = len(inputs)

    # ---- 4. small scope ---------------------------------------------------------
    if not c15:
        for kinds, script in small_scope(rng, 300 if quick else None):
            add('small-scope', kinds, script)
        for kinds, script in launch_window(rng, 120 if quick else None):
            add('launch-window', kinds, script)
    for kinds, script in job_reports(rng):
        add('job-reports', kinds, script)
    n_small = len(inputs) - n_tlc

    # ---- 5. seeded random scenarios -----------------------------------------------
    for _ in range((100 if c15 else 200) if quick else 6000):
        add('random', *K.random_script(rng))
    n_rand = len(inputs) - n_tlc - n_small

    # ---- 6. run the real code, validate every trace --------------------------------
    traces, res = validate(chk, inputs)
    chk.evaluations = len(inputs)
    nreq = sum(1 for t in traces for e in t['events'] if e['ev'] == 'Request')
    njob = sum(len(e['jobc']) for t in traces for e in t['events'])
    chk.notes.append('kill scenarios: %d from TLC behaviours, %d small-scope (pilot situations x requests, delivery '
                     'points inside work(), job reports from inside the submission on), '
                     '%d random; %d requests, %d batch job cancels recorded'
                     % (n_tlc, n_small, n_rand, nreq, njob))
    for i in (0, n_tlc, n_tlc + n_small):
        if i < len(traces):
            chk.sample({'input': inputs[i], 'verdict': res[i],
                        'events': [{k: e[k] for k in ('ev', 'msgs', 'pubs', 'jobc') if e.get(k)}
                                   for e in traces[i]['events'][:8]]})
    chk.assumptions += [
        'the batch system is a recording stand-in (fake_saga / fake_psij of the sizing rig): a cancel is recorded, '
        'its confirmation (job state CANCELED) is an environment step; state messages are delivered to the pilot '
        'manager at once, control messages in order at explicit delivery steps',
        'pilots reach the launcher through the real work(); of _start_pilot_bulk only the launcher selection and '
        'registration (its last lines) take part',
        'a pilot final in the launcher books which a SAGA kill names is announced CANCELED again by the launcher; '
        'the application keeps the first final state (judged at the client: C14.FinalLeft)']


def replay(chk, obj):
    validate(chk, [obj['input']])
