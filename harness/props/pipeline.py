'''
C05 (and the end-to-end part of C08 / C03): Pipeline design model (TLC
exhaustive), its behaviours replayed step by step on the in-memory
radical.pilot built from the real components (pipeline_rig), seeded random
schedules, every run validated by the PipelineTrace monitor.
'''

import os
import re
import glob
import random
import shutil
import multiprocessing as mp

from .. import tlc, tracecheck
from ..core import Machinery

INVARIANTS = ['OneFinal', 'EndsFinal', 'Truthful', 'FreedAll', 'ReleaseOnce', 'KilledNamed']
DEVS = ['DevIntakeCancelNoRelease', 'DevExecRaiseNoRelease']


def T(uid, fault='none', raises='none', cores=1, soe=False, out=False, prio=0):
    return {'uid': uid, 'fault': fault, 'raises': raises, 'cores': cores, 'soe': soe, 'out': out,
            'prio': prio}


# (name, tasks, bulks, cancels, ncores)
SCENARIOS = [
    ('plain',        [T('t1'), T('t2')], [['t1', 't2']], [], 2),
    ('exit-cancel',  [T('t1'), T('t2', 'exit')], [['t1', 't2']], [['t1']], 1),
    ('stagein',      [T('t1', 'tin'), T('t2', 'ain')], [['t1'], ['t2']], [], 2),
    ('launch',       [T('t1', 'nolauncher'), T('t2', 'spawn')], [['t1', 't2']], [['t2']], 2),
    ('stageout',     [T('t1', 'aout'), T('t2', 'tout')], [['t1', 't2']], [], 1),
    ('raise-tin',    [T('t1', raises='tin'), T('t2')], [['t1'], ['t2']], [], 2),
    ('raise-ain',    [T('t1', raises='ain'), T('t2')], [['t1', 't2']], [], 2),
    ('raise-asched', [T('t1'), T('t2', raises='asched')], [['t1'], ['t2']], [['t1']], 1),
    ('raise-aout',   [T('t1', raises='aout'), T('t2', 'exit')], [['t1'], ['t2']], [], 2),
    ('raise-tout',   [T('t1', raises='tout'), T('t2')], [['t1'], ['t2']], [], 2),
    ('cancel-both',  [T('t1'), T('t2', cores=2)], [['t1', 't2']], [['t1', 't2']], 2),
    ('cancel-wait',  [T('t1', cores=2), T('t2', cores=2)], [['t1'], ['t2']], [['t2']], 2),
    ('big',          [T('t1', cores=3), T('t2')], [['t1', 't2']], [], 2),
    ('raise-exec',   [T('t1', raises='exec'), T('t2')], [['t1'], ['t2']], [], 2),
    ('three',        [T('t1'), T('t2', 'exit'), T('t3', 'ain')], [['t1', 't2'], ['t3']], [['t3']], 2),
    # one bulk spanning both pilots of the task manager, the failing task on the first of them
    ('stagein-bulk', [T('t1', 'tin'), T('t2')], [['t1', 't2']], [], 2),
    ('stagein-bulk2', [T('t1'), T('t2', 'tin')], [['t1', 't2']], [], 2),
    # staging on error: a failed task whose output transfer succeeds stays FAILED
    ('soe-exit',     [T('t1', 'exit', soe=True, out=True), T('t2', out=True)], [['t1', 't2']], [], 2),
    ('soe-cancel',   [T('t1', soe=True, out=True), T('t2', 'exit', out=True)], [['t1'], ['t2']], [['t1']], 2),
    # a cancel naming one task of a bulk which reaches the executor together with a bystander
    ('cancel-one-bulk', [T('t1'), T('t2')], [['t1', 't2']], [['t1']], 2),
    # t1, t2 wait behind t0 and are started together (one bulk for the executor); the cancel of
    # t1 reaches the executor before that bulk does
    ('cancel-in-waitbulk', [T('t0', cores=2), T('t1'), T('t2')], [['t0'], ['t1', 't2']], [['t1']], 2),
    # two priorities in one scheduling pass while the pilot is busy: both wait, each in its own pool
    ('prio-wait',    [T('t0', cores=2), T('t1', cores=2, prio=1), T('t2')], [['t0'], ['t1', 't2']], [], 2),
    ('prio-cancel',  [T('t0', cores=2), T('t1', cores=2, prio=1), T('t2')], [['t0'], ['t1', 't2']], [['t1']], 2),
    # a cancel request naming a task which is (often) final already while bystanders are alive
    ('cancel-final', [T('t1', 'tin'), T('t2'), T('t3')], [['t1'], ['t2', 't3']], [['t1']], 2),
    # one bulk with different outcomes reaching the client side output stager together
    ('mixed-out',    [T('t1'), T('t2', 'exit'), T('t3')], [['t1', 't2', 't3']], [], 3),
]
C15_SCENARIOS = ['stagein-bulk', 'stagein-bulk2', 'mixed-out', 'stageout', 'exit-cancel', 'soe-exit']

# directed step sequences (followed by a seeded random completion): interleavings
# worth having on every run
DIRECTED = {
    'cancel-in-waitbulk': [
        ['submit', 'submit', 'step:tsched', 'step:tsched', 'step:tin', 'step:tin', 'step:ain', 'step:ain',
         'step:ain', 'step:asched', 'step:aschedc', 'step:asched', 'step:asched', 'step:aschedc', 'step:exec',
         'cancel', 'ctrl:exec', 'exit:t0', 'step:watch', 'unsched', 'step:aschedc', 'step:exec'],
        ['submit', 'submit', 'step:tsched', 'step:tsched', 'step:tin', 'step:tin', 'step:ain', 'step:ain',
         'step:asched', 'step:aschedc', 'step:asched', 'step:aschedc', 'step:exec',
         'exit:t0', 'step:watch', 'cancel', 'ctrl:exec', 'ctrl:aout', 'unsched', 'step:aschedc', 'step:exec'],
    ],
    'cancel-one-bulk': [
        ['submit', 'step:tsched', 'step:tin', 'step:ain', 'cancel', 'ctrl:asched', 'step:asched', 'step:aschedc'],
        ['submit', 'step:tsched', 'cancel', 'ctrl:tin', 'step:tin', 'ctrl:ain', 'step:ain'],
    ],
}


def q(s):
    return '"%s"' % s


def mc_files(tasks, bulks, cancels, ncores, devs=(), invariants=None, live=False):
    def fn(f):
        return '[t \\in MCT |-> CASE ' + ' [] '.join('t = %s -> %s' % (q(t['uid']), f(t)) for t in tasks) + ']'
    sets = lambda ss: '<<' + ', '.join('{' + ', '.join(q(u) for u in s) + '}' for s in ss) + '>>'
    mod = ('---- MODULE MCP ----\nEXTENDS Pipeline\nMCT == {%s}\nMCBulks == %s\nMCFault == %s\n'
           'MCRaises == %s\nMCCores == %s\nMCCancels == %s\n====\n'
           % (', '.join(q(t['uid']) for t in tasks), sets(bulks), fn(lambda t: q(t['fault'])),
              fn(lambda t: q(t['raises'])), fn(lambda t: str(t['cores'])), sets(cancels)))
    cfg = ('CONSTANTS\n Tasks <- MCT\n Bulks <- MCBulks\n Fault <- MCFault\n Raises <- MCRaises\n'
           ' Cores <- MCCores\n NCores = %d\n Cancels <- MCCancels\n' % ncores)
    for d in DEVS:
        cfg += ' %s = %s\n' % (d, 'TRUE' if d in devs else 'FALSE')
    cfg += 'SPECIFICATION %s\nCHECK_DEADLOCK FALSE\n' % ('FairSpec' if live else 'Spec')
    for i in (INVARIANTS if invariants is None else invariants):
        cfg += 'INVARIANT %s\n' % i
    if live:
        cfg += 'PROPERTY LiveQuiet\nPROPERTY LiveFinal\n'
    return {'MCP.tla': mod, 'MCP.cfg': cfg}


_ACT = re.compile(r'^\\\* <(\w+)(?:\((.*)\))? line \d+', re.M)


def script_from_behaviour(path):
    out = []
    for m in _ACT.finditer(open(path).read()):
        name, args = m.group(1), m.group(2)
        a = re.findall(r'"(\w+)"', args or '')
        if   name == 'Submit'         : out.append('submit')
        elif name == 'Cancel'         : out.append('cancel')
        elif name == 'Unsched'        : out.append('unsched')
        elif name == 'StepSchedParent': out.append('step:asched')
        elif name == 'StepSchedLoop'  : out.append('step:aschedc')
        elif name == 'StepExec'       : out.append('step:exec')
        elif name == 'StepWatch'      : out.append('step:watch')
        elif name == 'StepGeneric' and a: out.append('step:' + a[0])
        elif name == 'Deliver' and a  : out.append('deliver:' + a[0])
        elif name == 'Exit' and a     : out.append('exit:' + a[0])
        elif name == 'Ctrl' and a     : out.append('ctrl:' + a[0])
    return out


def _job(args):
    kind, name, tasks, bulks, cancels, ncores, arg = args
    from ..rigs import pipeline_rig as P
    out = []
    if kind == 'lossy':
        seed, n = arg
        rng = random.Random(seed)
        for i in range(n):
            s = rng.randrange(10 ** 9)
            rig = P.PipelineRig(P.Scenario(tasks, bulks, cancels, ncores, lossy=True))
            tr = rig.run(P.randomised(random.Random(s)))
            tr['how'] = {'kind': 'lossy', 'seed': s}
            out.append(tr)
        return name, out
    if kind == 'script':
        for i, sc in enumerate(arg):
            rig = P.PipelineRig(P.Scenario(tasks, bulks, cancels, ncores))
            tr = rig.run(P.scripted(sc, random.Random(i)))
            tr['how'] = {'kind': 'tlc-behaviour', 'script': sc, 'fallback_seed': i}
            out.append(tr)
    else:
        seed, n = arg
        rng = random.Random(seed)
        for i in range(n):
            s = rng.randrange(10 ** 9)
            rig = P.PipelineRig(P.Scenario(tasks, bulks, cancels, ncores))
            tr = rig.run(P.randomised(random.Random(s)))
            tr['how'] = {'kind': 'random', 'seed': s}
            out.append(tr)
    return name, out


def classify(tr):
    raised = sorted(set(s['raises'] for s in tr['spec'].values()) - {'none'})
    if 'exec' in raised:
        return 'work() of the executor raises for a bulk'
    if tr['named'] and any(e['ev'] == 'step' and e['arg'] == 'exec' and
                           any(p[2] == 'CANCELED' and p[0] == 'exec' for p in e['pub'])
                           for e in tr['events']):
        return 'task canceled by the intake filter of the executor'
    return 'pipeline, faults=%s raises=%s cancels=%d' % (
        ','.join(sorted(set(s['fault'] for s in tr['spec'].values()))),
        ','.join(raised) or 'none', len(tr['named']))


def run(chk, tier, seed):
    pid   = chk.pid
    quick = tier == 'quick'
    rng   = random.Random(seed * 65537 + 3)

    # C15 share: a wait can only return if the client learns that a task is final - judged on the runs
    # of a few scenarios with mixed outcomes and bulks spanning pilots, without the model checking part
    c15 = pid == 'C15'
    scenarios = [s for s in SCENARIOS if s[0] in C15_SCENARIOS] if c15 else SCENARIOS
    scen = [] if c15 else (SCENARIOS[:11] if quick else SCENARIOS[:15])     # (the model has no stage_on_error / multi-pilot notion)
    for name, tasks, bulks, cancels, ncores in scen:
        if len(tasks) > 2 and quick:
            continue
        res = tlc.run('Pipeline', 'MCP', 'MCP.cfg', workers=16, timeout=1800,
                      extra_files=mc_files(tasks, bulks, cancels, ncores))
        chk.add_tlc(res, 'exhaustive:' + name)
        if not res.ok:
            raise Machinery('Pipeline design model violates %s in %s:\n%s'
                            % (res.violated, name, res.trace[:3000]))
        # liveness under fairness (C05: every task *reaches* a final state); quick: small graphs only
        if pid == 'C05' and (not quick or res.distinct < 30000):
            res = tlc.run('Pipeline', 'MCP', 'MCP.cfg', workers=16, timeout=1800,
                          extra_files=mc_files(tasks, bulks, cancels, ncores, invariants=[], live=True))
            chk.add_tlc(res, 'liveness:' + name)
            if not res.ok:
                raise Machinery('Pipeline design model violates %s in %s under fairness:\n%s'
                                % (res.violated, name, res.trace[:3000]))
    chk.exhaustive = True

    if not quick and not c15:
        for dev, sname, inv in [('DevIntakeCancelNoRelease', 'cancel-both', 'FreedAll'),
                                ('DevExecRaiseNoRelease', 'raise-exec', 'FreedAll')]:
            _, tasks, bulks, cancels, ncores = [s for s in SCENARIOS if s[0] == sname][0]
            res = tlc.run('Pipeline', 'MCP', 'MCP.cfg', workers=16, timeout=900,
                          extra_files=mc_files(tasks, bulks, cancels, ncores, devs=[dev]))
            chk.add_tlc(res, 'deviation:' + dev)
            if res.ok or res.violated != inv:
                raise Machinery('deviation %s not detected (got %s)' % (dev, res.violated))
            chk.notes.append('deviation %s breaks %s in the design model' % (dev, res.violated))
        # non-vacuity of the liveness property: leaked cores starve the next task
        tasks = [T('t1', raises='exec', cores=2), T('t2', cores=2)]
        res = tlc.run('Pipeline', 'MCP', 'MCP.cfg', workers=16, timeout=900,
                      extra_files=mc_files(tasks, [['t1'], ['t2']], [], 2, devs=['DevExecRaiseNoRelease'],
                                           invariants=[], live=True))
        chk.add_tlc(res, 'deviation-liveness:DevExecRaiseNoRelease')
        if res.ok or res.violated != 'LiveFinal':
            raise Machinery('deviation DevExecRaiseNoRelease does not break LiveFinal (got %s)' % res.violated)

    jobs = []
    nsim = 25 if quick else 250
    for name, tasks, bulks, cancels, ncores in scenarios:
        dump = tlc.scratch('rppsim_')
        try:
            res = tlc.run('Pipeline', 'MCP', 'MCP.cfg', workers=1, timeout=600,
                          simulate='num=%d' % nsim, depth=60, seed=rng.randrange(10 ** 6),
                          dump_dir=dump, extra_files=mc_files(tasks, bulks, cancels, ncores, invariants=[]))
            chk.add_tlc(res, 'simulate:' + name)
            scripts = [script_from_behaviour(f) for f in sorted(glob.glob(os.path.join(dump, 'tr_*')))]
            jobs.append(('script', name, tasks, bulks, cancels, ncores, scripts))
        finally:
            shutil.rmtree(dump, ignore_errors=True)
        if name in DIRECTED:
            jobs.append(('script', name, tasks, bulks, cancels, ncores,
                         [list(d) for d in DIRECTED[name] for _ in range(3 if quick else 12)]))
        jobs.append(('random', name, tasks, bulks, cancels, ncores,
                     (rng.randrange(10 ** 9), 25 if quick else 400)))
        # runs in which non-final state notifications get lost on the way to the client
        jobs.append(('lossy', name, tasks, bulks, cancels, ncores,
                     (rng.randrange(10 ** 9), 10 if quick else 150)))

    pool = mp.get_context('fork').Pool(14)
    try:
        results = pool.map(_job, jobs, chunksize=1)
    finally:
        pool.close()
        pool.join()

    traces = []
    for (name, out), job in zip(results, jobs):
        for tr in out:
            tr['scenario'] = {'name': name, 'tasks': job[2], 'bulks': job[3], 'cancels': job[4],
                              'ncores': job[5]}
            traces.append(tr)
    slim = []
    for tr in traces:
        t2 = {k: tr[k] for k in ('uids', 'spec', 'named', 'ncores')}
        t2['events'] = [{k: e[k] for k in ('ev', 'arg', 'raised', 'killed', 'err', 'client', 'free',
                                           'pool', 'intasks', 'live', 'spawned')} for e in tr['events']]
        for e, e2 in zip(tr['events'], t2['events']):
            e2['rel'] = list(e['uids']) if e['ev'] == 'unsched' else []
        slim.append(t2)
    res, st = tracecheck.validate('Pipeline', 'PipelineTrace', '', slim, max_batch=150, parallel=12)
    chk.states += st['states']
    chk.transitions += st['transitions']
    chk.cmds.append(st['cmd'])
    for tr, errs in zip(traces, res):
        chk.traces += 1
        evs = tuple((e['ev'], e['arg']) for e in tr['events'])
        if tr['named'] or any(s['fault'] != 'none' or s['raises'] != 'none' for s in tr['spec'].values()):
            chk.nontrivial.add(hash(evs))
        for err in errs:
            p = err.split('.')[0]
            owners = {p}
            if err in ('C08.ResourcesNotFreed', 'C08.LeftInPool'):
                owners.add('C03')
            if err in ('C03.ReleasedTwice', 'C08.ResourcesNotFreed'):
                owners.add('C07')       # the executor asks for the release, exactly once
            if err == 'C05.NotFinal':
                owners.add('C15')       # a task which never becomes final on the client: waits on it hang
            if pid not in owners:
                continue
            clause = err if p == pid else pid + '.' + err.split('.', 1)[1]
            chk.violation(clause, classify(tr), 'in-memory pipeline run violates %s' % err,
                          {'rig': 'pipeline', 'scenario': tr['scenario'], 'how': tr['how'],
                           'errs': errs,
                           'events': [{k: e[k] for k in ('ev', 'arg', 'uids', 'push', 'raised', 'killed', 'err')}
                                      for e in tr['events']],
                           'final': tr['events'][-1]['client']})
    if traces:
        chk.sample({'scenario': traces[0]['scenario']['name'],
                    'steps': [(e['ev'], e['arg']) for e in traces[0]['events'][:40]],
                    'final': traces[0]['events'][-1]['client']})
    chk.assumptions += [
        'components are composed on an in-memory fabric: queues keep bulks, state notifications '
        'travel on one FIFO per publisher, control messages on one FIFO per component',
        'executor and scheduler steps are sequential here (their thread interleavings: C07 / C04 rigs)',
        'the Agent_0 proxy hops are plain queue hops; one pilot']


def replay(chk, obj):
    from ..rigs import pipeline_rig as P
    sc = obj['scenario']
    rig = P.PipelineRig(P.Scenario(sc['tasks'], sc['bulks'], sc['cancels'], sc['ncores']))
    how = obj['how']
    if how['kind'] == 'lossy':
        rig.cleanup()
        rig = P.PipelineRig(P.Scenario(sc['tasks'], sc['bulks'], sc['cancels'], sc['ncores'], lossy=True))
        tr = rig.run(P.randomised(random.Random(how['seed'])))
    elif how['kind'] == 'random':
        tr = rig.run(P.randomised(random.Random(how['seed'])))
    else:
        tr = rig.run(P.scripted(how['script'], random.Random(how['fallback_seed'])))
    t2 = {k: tr[k] for k in ('uids', 'spec', 'named', 'ncores')}
    t2['events'] = [{k: e[k] for k in ('ev', 'arg', 'raised', 'killed', 'err', 'client', 'free',
                                       'pool', 'intasks', 'live', 'spawned')} for e in tr['events']]
    for e, e2 in zip(tr['events'], t2['events']):
        e2['rel'] = list(e['uids']) if e['ev'] == 'unsched' else []
    res, st = tracecheck.validate('Pipeline', 'PipelineTrace', '', [t2])
    chk.traces += 1
    for err in res[0]:
        chk.violation(err, classify(tr), 'replayed pipeline run violates %s' % err,
                      {'rig': 'pipeline', 'scenario': sc, 'how': how, 'errs': res[0]})
