'''
C11: staging directives move the named data to the named place.

1. the design model Staging is checked exhaustively by TLC over all its cases
   (directive lists of length <= 2 in both forms, all actions, all schemas,
   missing sources, directory targets (trailing slash), targets that exist
   already, client sandbox = / != working directory, task sandbox default /
   relative / absolute x endpoint local / remote, a second generation of tasks
   through the same stager objects after the target directory went away, task outcome DONE / FAILED /
   CANCELED, stage_on_error); the same run is the
   enumerator of the rig's inputs (every initial state is printed);
2. thorough: every Dev constant set TRUE must break its invariant;
3. each case (quick: one per transition class, seeded; thorough: all) is
   instantiated on real directory trees and run through the real
   expand_description, the four real stagers and StagingHelper_Local
   (rigs/staging_rig.py);
4. StagingTrace validates every recorded trace against the intended design
   (Dev = FALSE): clauses C11.*;
5. thorough: the same traces are validated for exact conformance (trees, inode sharing,
   task states) against the model with the Dev constants set to what step 4
   found in the code: clauses M.* (reported as notes - they measure how
   faithfully the model follows the code, not the property).
'''

import random

from .. import tlc, tracecheck
from ..core import Machinery
from ..rigs import staging_rig as R

INVARIANTS = ['TypeOK', 'InvPlaced', 'InvCarried', 'InvMissingFails', 'InvFailureJustified',
              'InvMoveRemoves',
              'InvLinkShares', 'InvOutOnlyIfDone', 'InvStageOnError', 'InvFailureLocal']
DEVS = ['DevTarballSkipped', 'DevCopyIgnoresStatus', 'DevClientSkipsOnError', 'DevCopyUnquoted',
        'DevDirTestInCwd', 'DevSlashDropped', 'DevLinkNoDirTarget', 'DevClientIsCwd',
        'DevMkdirCached', 'DevAbsSandboxLocal']
EXPECT = {'DevTarballSkipped': 'InvCarried', 'DevCopyIgnoresStatus': 'InvMissingFails',
          'DevClientSkipsOnError': 'InvStageOnError', 'DevCopyUnquoted': 'InvFailureJustified',
          'DevDirTestInCwd': 'InvPlaced', 'DevSlashDropped': 'InvPlaced',
          'DevLinkNoDirTarget': 'InvFailureJustified', 'DevClientIsCwd': 'InvPlaced',
          'DevMkdirCached': 'InvFailureJustified', 'DevAbsSandboxLocal': 'InvPlaced'}

WORKERS = 8         # the run is bound by the (sequential) enumeration of the initial states
MON_WORKERS = 1
RIG_PROCS = 4


# ------------------------------------------------------------------------------
def constants(devs=(), scope='given', emit=False, mode=None):
    txt = ' Mode = "%s"\n' % mode if mode else ''
    for d in DEVS:
        txt += ' %s = %s\n' % (d, 'TRUE' if d in devs else 'FALSE')
    txt += ' Scope = "%s"\n Emit = %s\n' % (scope, 'TRUE' if emit else 'FALSE')
    return txt


def model_cfg(devs=(), scope='all', emit=False, invariants=INVARIANTS):
    cfg = 'CONSTANTS\n' + constants(devs, scope, emit)
    cfg += 'SPECIFICATION Design\nCHECK_DEADLOCK FALSE\n'
    for i in invariants:
        cfg += 'INVARIANT %s\n' % i
    return {'MC.cfg': cfg}


def enumerate_cases(chk):
    '''exhaustive check of the design model; its initial states are the cases'''
    res = tlc.run('Staging', 'Staging', 'MC.cfg', workers=WORKERS, timeout=900,
                  extra_files=model_cfg(emit=True))
    chk.add_tlc(res, 'exhaustive:all')
    if not res.ok:
        raise Machinery('design model Staging violates %s with all deviations off '
                        '(intended design must hold):\n%s' % (res.violated, res.trace[:3000]))
    cases, seen = [], set()
    for txt in tlc.extract_tuples(res.out, 'CASE'):
        c = tlc.parse_value(txt)[1]
        c = {'din': [dict(d) for d in c['din']], 'dout': [dict(d) for d in c['dout']],
             'oc': c['oc'], 'soe': bool(c['soe']), 'cs': c['cs'], 'sb': c['sb'], 'ep': c['ep'],
             'g2': c['g2']}
        key = repr(c)
        if key not in seen:
            seen.add(key)
            cases.append(c)
    if sum(7 if c['g2'] == 'none' else 14 for c in cases) != res.distinct:
        raise Machinery('case enumeration incomplete: %d cases, %d states'
                        % (len(cases), res.distinct))
    cases.sort(key=lambda c: (len(c['din']) + len(c['dout']), repr(c)))
    return cases


# ------------------------------------------------------------------------------
SANDBOX = ('endpoint', 'resource', 'session', 'pilot')


def kclass(k):
    return 'sandbox' if k in SANDBOX else k


HOSTILE = 'hostile file name (space)'
DIRTGT  = 'directory target (trailing slash), %s'
CWDDIR  = 'relative target, working directory holds a directory of that name'


def hostile(c):
    return any(' ' in d['sp'] or ' ' in d['tp'] for d in c['din'] + c['dout'])


def case_classes(c):
    '''transition classes a case belongs to: which expansion / resolution /
       action / failure / outcome paths of the code its directives take'''
    ks = []
    nin, ds = len(c['din']), c['din'] + c['dout']
    if hostile(c):
        return [('hostile', repr(ds))]
    oc = (c['oc'], c['soe'])
    if not ds:
        return [('empty',) + oc]
    if len(ds) == 1:
        d, dr = ds[0], 'in' if nin else 'out'
        if c['g2'] != 'none':       # two generations through the same stager objects
            return [('gen', c['g2'], dr, d['act'] == 'TRANSFER'), ('genact', dr, d['act'], d['tp'])]
        if (c['sb'], c['ep']) != ('default', 'local'):      # resolution context
            return [('ctx', c['sb'], c['ep'], dr, d['act'] == 'TRANSFER', d['tk'] == 'pilot')]
        if c['cs'] == 'same':       # client sandbox = working directory of the client
            return [('cs-same', dr, d['form'], d['act']),
                    ('cs-same-k', dr, kclass(d['sk']), kclass(d['tk']))]
        ks.append(('form', dr, d['form'], kclass(d['tk']) in ('rel', 'abs', 'omit')))
        ks.append(('src', dr, d['act'], kclass(d['sk']), d['sp'] == 'm'))
        ks.append(('tgt', dr, d['act'], kclass(d['tk'])))
        ks.append(('sub', dr, d['act'], d['tp']))
        if d['tp'] == 'd/' and d['sp'] != 'm':      # directory target, created on demand
            ks.append(('dir', dr, d['act'], kclass(d['tk'])))
            ks.append(('dirform', dr, d['form']))
        if d['tk'] in ('absfile', 'relcwd', 'relcwddir', 'absdir'):      # target exists already
            ks.append(('exists', d['act'], d['tk'], d['sp'] == 'm'))
        if d['tk'] in ('omit', 'empty', 'absdir') and d['sp'] != 'm':
            ks.append(('base', dr, d['act'], d['tk'], d['sp']))
        if dr == 'out':
            ks.append(('oc', d['act'], d['sp'] == 'm') + oc)
        return ks
    chain = (ds[1]['sk'], ds[1]['sp']) == (ds[0]['tk'], ds[0]['tp'])
    miss  = tuple(d['sp'] == 'm' for d in ds)
    ks.append(('pair', nin, ds[0]['act'], ds[1]['act']))
    # both directives can be carried out and name different places: the second one must not be
    # lost behind the first (round 6, C11-k: only the first TARBALL source was packed)
    if not any(miss):
        ks.append(('pairboth', nin, ds[0]['act'], ds[1]['act'],
                   (ds[0]['tk'], ds[0]['tp']) == (ds[1]['tk'], ds[1]['tp']),
                   (ds[0]['sk'], ds[0]['sp']) == (ds[1]['sk'], ds[1]['sp'])))
    if chain:
        ks.append(('chain', ds[0]['act'], ds[1]['act'], any(miss)))
    if any(miss):
        ks.append(('pairmiss', nin, miss, ds[0]['act'] if miss[0] else ds[1]['act']))
    if nin < 2:
        ks.append(('pairoc', nin, ds[-1]['act'] in ('TRANSFER',), any(miss)) + oc)
    return ks


def case_class(c):
    return tuple(case_classes(c))


def sample(cases, rng):
    '''seeded greedy cover: every transition class gets at least one case'''
    order = list(cases)
    rng.shuffle(order)
    seen, out = set(), []
    for c in order:
        ks = [k for k in case_classes(c) if k not in seen]
        if ks:
            seen.update(ks)
            out.append(c)
    return out


# ------------------------------------------------------------------------------
def classify(case, clause, info):
    '''input class of a failing trace (for known-findings matching)'''
    acts = sorted(set(d['act'] for d in case['din'] + case['dout']))
    if clause == 'C11.FailureLocal':
        return 'bystander task'
    if case['g2'] != 'none':
        return 'second task generation, target directory gone (%s), %s' % (case['g2'], '/'.join(acts))
    if (case['sb'], case['ep']) != ('default', 'local'):
        return 'task sandbox %s, endpoint %s, %s' % (case['sb'], case['ep'], '/'.join(acts))
    if clause == 'C11.FailsTask':
        missed = sorted(i.split('.')[2] for i in info if i.startswith('I.Missed.'))
        return 'source missing, action %s' % '/'.join(missed or acts)
    if clause in ('C11.Placed', 'C11.SpuriousFailure') and 'I.Did.untar' in info:
        return 'TARBALL input directive'
    if hostile(case):
        return HOSTILE
    if any(d['tp'].endswith('/') for d in case['din'] + case['dout']) \
            and clause != 'C11.OutOnlyIfDone':
        return DIRTGT % '/'.join(acts)
    if clause == 'C11.OutOnlyIfDone':
        return 'task outcome %s, no stage_on_error' % case['oc']
    if any(d['tk'] == 'relcwddir' for d in case['din']):
        return CWDDIR
    if any(d['tk'] in ('absfile', 'relcwd', 'absdir') for d in case['din']):
        return 'target exists already (%s)' % '/'.join(acts)
    return 'actions %s' % '/'.join(acts)


def _one(c):
    tr = R.run_case(c)
    return {'case': c, 'events': tr['events']}


def run_cases(cases, procs=None):
    '''the cases are independent (one temp tree, one set of component objects
       each): run them in a few forked worker processes, results in order'''
    procs = RIG_PROCS if procs is None else procs
    if procs <= 1 or len(cases) < 16:
        return [_one(c) for c in cases]
    import multiprocessing as mp
    with mp.get_context('fork').Pool(procs) as pool:
        return pool.map(_one, cases, chunksize=8)


def split(errs):
    return ([e for e in errs if e.startswith('C11.') or e.startswith('X.')],
            [e for e in errs if e.startswith('N.')],
            [e for e in errs if e.startswith('M.')],
            [e for e in errs if e.startswith('I.')])


def judge(chk, traces, kind, conform=True):
    '''property run (Dev FALSE) + conformance run; returns (#violating traces, notes)'''
    res, st = tracecheck.validate('Staging', 'StagingTrace', constants(mode='property'), traces,
                                  timeout=1500, workers=MON_WORKERS, max_batch=1000)
    chk.states += st['states']
    chk.transitions += st['transitions']
    chk.cmds.append(st['cmd'])
    found, nsoe, nbad = set(), 0, 0
    for tr, errs in zip(traces, res):
        chk.traces += 1
        perr, nerr, _, info = split(errs)
        case = tr['case']
        if case['din'] or case['dout']:
            chk.nontrivial.add(repr(case_class(case)))
        if nerr:
            nsoe += 1
        if perr:
            nbad += 1
        for err in perr:
            if err.split('.')[0] not in (chk.pid, 'X'):
                continue
            if err.startswith('X.'):
                raise Machinery('trace of case %s is malformed: %s' % (case, err))
            cls = classify(case, err, info)
            if cls == DIRTGT % 'LINK' and err == 'C11.SpuriousFailure':
                found.add('DevLinkNoDirTarget')
            if cls == HOSTILE:
                found.add('DevCopyUnquoted')
                if err == 'C11.Placed':         # cp failed and nobody noticed
                    found.add('DevCopyIgnoresStatus')
            if cls == 'TARBALL input directive':
                found.add('DevTarballSkipped')
            if err == 'C11.FailsTask' and ('COPY' in cls or 'TRANSFER' in cls):
                found.add('DevCopyIgnoresStatus')
            chk.violation(err, cls, 'real staging pipeline violates %s (%s case: in=%s out=%s '
                          'outcome=%s stage_on_error=%s client sandbox %s cwd%s)'
                          % (err, kind, R_short(case['din']), R_short(case['dout']),
                             case['oc'], case['soe'], '=' if case['cs'] == 'same' else '!=',
                             ''.join(' %s=%s' % (k, case[k]) for k in ('sb', 'ep', 'g2')
                                     if case[k] not in ('default', 'local', 'none'))),
                          {'rig': 'staging', 'case': case, 'errs': errs})
    if nsoe:
        found.add('DevClientSkipsOnError')

    if not conform:
        return {'violating': nbad, 'soe_skipped': nsoe, 'devs': sorted(found),
                'conform': None, 'nonconform': []}

    # conformance with the model in the shape the code was found in
    res2, st2 = tracecheck.validate('Staging', 'StagingTrace',
                                    constants(devs=sorted(found), mode='conform'),
                                    traces, timeout=1500, workers=MON_WORKERS, max_batch=1000)
    chk.states += st2['states']
    chk.transitions += st2['transitions']
    nconf = sum(1 for errs in res2 if not split(errs)[2])
    bad   = [(tr['case'], split(errs)[2]) for tr, errs in zip(traces, res2) if split(errs)[2]]
    return {'violating': nbad, 'soe_skipped': nsoe, 'devs': sorted(found),
            'conform': nconf, 'nonconform': bad}


def R_short(ds):
    return [' '.join([d['form'], d['act'], d['sk'] + ':' + d['sp'],
                      '->', d['tk'] + ':' + d['tp']]) for d in ds]


# ------------------------------------------------------------------------------
def run(chk, tier, seed):
    rng   = random.Random(seed * 7919 + 11)
    quick = tier == 'quick'

    # ---- 1. design model, exhaustive; TLC is the enumerator --------------------
    cases = enumerate_cases(chk)
    chk.exhaustive = True

    # ---- 2. deviation sensitivity ----------------------------------------------
    if not quick:
        from concurrent.futures import ThreadPoolExecutor
        with ThreadPoolExecutor(4) as ex:       # small runs, 2 TLC workers each
            results = list(ex.map(lambda dev: tlc.run(
                'Staging', 'Staging', 'MC.cfg', workers=2, timeout=900,
                extra_files=model_cfg(devs=[dev], scope='dev')), DEVS))
        for dev, res in zip(DEVS, results):
            chk.add_tlc(res, 'deviation:' + dev)
            if res.ok or res.violated != EXPECT[dev]:
                raise Machinery('deviation %s not detected by the model (got %s)'
                                % (dev, res.violated))
            chk.notes.append('deviation %s breaks %s in the design model' % (dev, res.violated))

    # ---- 3. cases -> real pipeline ---------------------------------------------
    todo = sample(cases, rng) if quick else cases
    todo = sorted(todo, key=lambda c: (len(c['din']) + len(c['dout']), repr(c)))
    traces = run_cases(todo)
    chk.evaluations += len(traces)

    # ---- 4./5. monitor ---------------------------------------------------------
    out = judge(chk, traces, 'sampled' if quick else 'enumerated', conform=not quick)
    chk.notes.append('%d cases in the model, %d run through the real stagers, %d violate C11'
                     % (len(cases), len(traces), out['violating']))
    if out['conform'] is not None:
        chk.notes.append('conformance: %d of %d traces match the model exactly (trees, inode '
                         'sharing, task states) with %s'
                         % (out['conform'], len(traces),
                            ', '.join(d + '=TRUE' for d in out['devs']) or 'all deviations off'))
    for case, errs in out['nonconform'][:5]:
        chk.notes.append('non-conforming trace: %s %s' % (errs, case))
    if out['soe_skipped']:
        chk.notes.append('observation (outside the statement of C11): in %d traces a FAILED or CANCELED '
                         'task with stage_on_error had output directives that were not carried out - '
                         'tmgr staging_output skips every task whose target_state is not DONE, '
                         'stage_on_error is only honoured by the agent-side output stager'
                         % out['soe_skipped'])
    if traces:
        tr = traces[0]
        chk.sample({'case': tr['case'],
                    'events': [{'ev': e['ev'], 'st': e['st'],
                                'files': [f for f in e['files'] if f['l'].startswith('task')][:6]}
                               for e in tr['events']]})
    chk.assumptions += [
        'local staging back end only (StagingHelper_Local); SAGA / remote back ends and DOWNLOAD '
        'are out of scope, client host = target host, absolute paths denote the endpoint tree',
        'paths come from a safe alphabet (letters and "/"), sources are regular files; one small '
        'hostile class (a space in the name) is reported under its own input class',
        'agent-side actions (COPY/LINK/MOVE): relative sources on input and relative/empty targets '
        'on output are not judged (documented two ways)',
        'the lists of one case name pairwise different targets, none of them an existing file; '
        'TARBALL is an input action only; task A precedes the bystander B in every bulk',
        'task dicts cross component boundaries as plain data (JSON round trip)']


def replay(chk, obj):
    case   = obj['case']
    traces = run_cases([case])
    out    = judge(chk, traces, 'replayed')
    chk.notes.append('replay: %s' % out)
