'''
C19: descriptions and payloads survive normalisation and transport.

 1. the design model spec/Descr/Descr.tla (TaskDescription._verify, the slot
    converters, the PythonTask pipeline transcribed in DescrOps.tla) is checked
    exhaustively by TLC over the tier's input families; the same run prints
    every initial state (= one input each);
 2. thorough: each deviation constant makes TLC report the expected violation;
 3. every printed input becomes one pipeline of calls of the REAL classes
    (harness/rigs/descr_rig.py), one trace each;
 4. all traces are validated by the monitor spec/Descr/DescrTrace.tla, which
    recomputes every step with the operators of the design model.
'''

import re
import json
import random

from concurrent.futures import ThreadPoolExecutor

from .. import tlc, tracecheck
from ..core import Machinery
from ..rigs import descr_rig as R

WORKERS = 8

INVARIANTS = ['TypeOK', 'InvModeRules', 'InvNoLateReject', 'InvIdempotent', 'InvAliasKeeps',
              'InvLosesNothing', 'InvDictRoundTrip', 'InvSlotsKeep', 'InvSlotsFormat',
              'InvFuncSame', 'InvSeqSame', 'InvRemoteSame', 'InvSeqNormal', 'InvSeqRules',
              'InvSeqAlias', 'InvCopiesAgree', 'InvCopiesNormal']
KINDS = ('td', 'pd', 'slots', 'func', 'fseq', 'xfunc', 'tdseq', 'hand')
DEVS = ['DevWorkerClass', 'DevKwargsNone', 'DevRemembers', 'DevByRefMain', 'DevRegistryEarly']
MONITOR_CONSTANTS = '\n '.join('%s = FALSE' % d for d in DEVS)

# steps of a sequence on one description object, by the way the object is touched;
# the quick tier takes one step of each group (seeded), thorough all of them
SEQ_OPS = {'verify': ['verify'], 'submit': ['submit'],
           'attr': ['attr_dep', 'attr_new', 'attr_mode'],
           'item': ['item_dep', 'item_dep2', 'item_loose'],
           'mode': ['item_mode', 'item_noexe', 'item_cmd'],
           'update': ['update_dep', 'update_func'], 'inplace': ['inplace']}
SEQ_BASES = [{'executable': 'x'},
             {'mode': 'task.shell', 'command': 'x', 'cpu_processes': 2}]

ALIAS = [('cpu_processes', 'ranks'), ('cpu_threads', 'cores_per_rank'),
         ('cpu_thread_type', 'threading_type'), ('gpu_processes', 'gpus_per_rank'),
         ('gpu_process_type', 'gpu_type'), ('lfs_per_process', 'lfs_per_rank'),
         ('mem_per_process', 'mem_per_rank'), ('scheduler', 'raptor_id'),
         ('worker_file', 'raptor_file'), ('worker_class', 'raptor_class')]
INT_ATTRS = {'cpu_processes', 'ranks', 'cpu_threads', 'cores_per_rank', 'gpu_processes',
             'gpus_per_rank', 'lfs_per_process', 'lfs_per_rank', 'mem_per_process',
             'mem_per_rank', 'gpu_threads', 'extra'}
MODES = ['task.executable', 'task.service', 'task.function', 'task.method', 'task.eval',
         'task.exec', 'task.proc', 'task.shell', 'raptor.master', 'raptor.worker',
         'agent.service']
ALL_MODES = MODES + ['', 'none', 'other.mode']
PRES = ['executable', 'function', 'code', 'command', 'named_env']
DEP_I = [d for d, n in ALIAS if d in INT_ATTRS]
DEP_S = [d for d, n in ALIAS if d not in INT_ATTRS]


# ------------------------------------------------------------------------------
# python -> TLA+ text
#
class S(list):
    '''a list to be written as a TLA+ set'''


def tla(x):
    if isinstance(x, S):
        return '{' + ', '.join(tla(v) for v in x) + '}'
    if isinstance(x, bool):
        return 'TRUE' if x else 'FALSE'
    if isinstance(x, int):
        return str(x)
    if isinstance(x, str):
        return '"%s"' % x
    if isinstance(x, (set, frozenset)):
        return '{' + ', '.join(sorted(tla(v) for v in x)) + '}'
    if isinstance(x, (list, tuple)):
        return '<<' + ', '.join(tla(v) for v in x) + '>>'
    if isinstance(x, dict):
        if not x:
            return '<<>>'
        return '[' + ', '.join('%s |-> %s' % (k, tla(v)) for k, v in sorted(x.items())) + ']'
    raise TypeError(x)


def fam(modes=('task.executable',), mpis=('none',), pres=(), ints=(), ivals=(0, 1, 2),
        strs=(), svals=('', 'a', 'b'), bg=None):
    bg = dict(bg or {})
    if 'executable' not in pres:
        bg.setdefault('executable', 'x')
    return {'modes': set(modes), 'mpis': set(mpis), 'pres': set(pres), 'ints': set(ints),
            'ivals': set(ivals), 'strs': set(strs), 'svals': set(svals), 'bg': bg}


def fam_size(f):
    return (len(f['modes']) * len(f['mpis']) * 2 ** len(f['pres'])
            * len(f['ivals']) ** len(f['ints']) * len(f['svals']) ** len(f['strs']))


def other(a, k=2):
    '''a non-default value of attribute a'''
    return k if a in INT_ATTRS else ('b' if k == 2 else 'a')


def td_families(tier, rng):
    fams = []
    quick = tier == 'quick'
    # modes x presence of the attributes the mode rules read (x use_mpi x ranks)
    if quick:
        fams.append(fam(modes=ALL_MODES, pres=PRES))
        fams.append(fam(modes=rng.sample(ALL_MODES, 3), mpis=('none', 'true', 'false'),
                        ints=('cpu_processes', 'ranks'), pres=('executable',),
                        bg={'function': 'x', 'code': 'x', 'command': 'x'}))
    else:
        fams.append(fam(modes=ALL_MODES, mpis=('none', 'true', 'false'), pres=PRES,
                        ints=('cpu_processes', 'ranks')))
    # all deprecated attributes jointly, replacements at their defaults
    if quick:
        vary = rng.sample(DEP_I + DEP_S, 6)
        bg   = {d: other(d, rng.choice([1, 2])) for d in DEP_I + DEP_S if d not in vary}
        fams.append(fam(ints=[d for d in vary if d in DEP_I],
                        strs=[d for d in vary if d in DEP_S], bg=bg))
    else:
        fams.append(fam(ints=DEP_I, strs=DEP_S))
    # deprecated attributes set / unset jointly, on top of set replacements
    pats = [lambda i: True, lambda i: i % 2 == 0, lambda i: i % 2 == 1, lambda i: i % 3 == 0]
    if quick:
        pats = [rng.choice(pats)]
    for pat in pats:
        bg = {n: other(n) for i, (d, n) in enumerate(ALIAS) if pat(i)}
        vary = DEP_I + DEP_S
        if quick:
            # eight of the ten by the seed, the other two set
            vary = rng.sample(vary, 8)
            bg.update({d: other(d, 1) for d in DEP_I + DEP_S if d not in vary})
            bg['extra'] = 1
        fams.append(fam(ints=[d for d in vary if d in DEP_I] + ([] if quick else ['extra']),
                        ivals=(0, 1), strs=[d for d in vary if d in DEP_S], svals=('', 'a'),
                        bg=bg))
    # every (deprecated, replacement) pair in full, the other pairs unset / set
    for d, n in ALIAS:
        for setall in (False, True):
            bg = {x: other(x, 1) for x, _ in ALIAS if x != d} if setall else {'extra': 2}
            ints = [a for a in (d, n) if a in INT_ATTRS]
            strs = [a for a in (d, n) if a not in INT_ATTRS]
            fams.append(fam(ints=ints, strs=strs, bg=bg))
    # deprecated-and-ignored attributes and the attributes verify does not read
    fams.append(fam(modes=('task.executable', 'raptor.worker', ''), ints=('gpu_threads', 'extra'),
                    strs=('cpu_process_type', 'gpu_thread_type')))
    fams.append(fam(modes=('task.function', 'task.eval', 'task.shell'), pres=PRES,
                    ints=('extra',), bg={'worker_file': 'a', 'mem_per_process': 2}))
    return fams


def mkslot(node, version, box, cfmt, gfmt, cores, gpus, occ, lfs):
    def res(idx, fmt):
        return [[i, 4 if fmt == 'int' else occ] for i in idx]
    return {'node_name': 'n%d' % node, 'node_index': node, 'version': version, 'box': box,
            'cfmt': cfmt, 'gfmt': gfmt, 'cores': res(cores, cfmt), 'gpus': res(gpus, gfmt),
            'lfs': lfs, 'mem': lfs}


def slot_pool(tier, rng):
    '''old and new format slots; the spec enumerates every list of length 2 and 3
       over the pool: each entry independently old or new, in every order'''
    old = [mkslot(0, 0, 'dict', 'int',  'int',  (0, 1), (0,),   4, 0),
           mkslot(1, 0, 'dict', 'dict', 'pair', (2, 0), (1, 0), 2, 1),
           mkslot(0, 0, 'dict', 'ro',   'dict', (3,),   (),     4, 1),
           mkslot(1, 0, 'dict', 'pair', 'ro',   (1, 2), (1,),   2, 0)]
    new = [mkslot(1, 1, 'slot', 'int',  'dict', (1, 3), (0,),   4, 1),
           mkslot(0, 1, 'dict', 'ro',   'ro',   (0, 2), (1, 0), 2, 0),
           mkslot(0, 1, 'slot', 'ro',   'int',  (2,),   (1,),   2, 0),
           mkslot(1, 1, 'dict', 'dict', 'dict', (3, 1), (),     4, 1)]
    if tier == 'quick':
        return rng.sample(old, 2) + rng.sample(new, 2)
    return old + new


def slot_families(tier, rng):
    second = [{'node_name': 'n1', 'node_index': 1, 'version': 0, 'box': 'dict', 'cfmt': 'int',
               'gfmt': 'int', 'cores': [[1, 4]], 'gpus': [], 'lfs': 0, 'mem': 0},
              {'node_name': 'n0', 'node_index': 0, 'version': 1, 'box': 'slot', 'cfmt': 'dict',
               'gfmt': 'ro', 'cores': [[2, 2], [3, 4]], 'gpus': [[0, 2]], 'lfs': 1, 'mem': 1}]
    f = {'nodes': {('n0', 0), ('n1', 1)}, 'versions': {0, 1}, 'boxes': {'dict', 'slot'},
         'cfmts': {'int', 'dict', 'ro', 'pair'}, 'gfmts': {'int', 'dict', 'ro', 'pair'},
         'coreidx': {(), (0,), (2, 0), (0, 1, 3)}, 'gpuidx': {(), (0,), (1, 0)},
         'occs': {2, 4}, 'lfs': {0, 1}, 'second': S(second),
         'pool': S(slot_pool(tier, rng)), 'lens': {2, 3}}
    if tier == 'quick':
        f.update({'nodes': {rng.choice([('n0', 0), ('n1', 1)])}, 'lfs': {rng.choice([0, 1])},
                  'coreidx': {(), (2, 0), rng.choice([(0,), (0, 1, 3)])},
                  'gpuidx': {(), (1, 0)},
                  'second': S([rng.choice(second)])})
    return [f]


def seq_ops(tier, rng):
    if tier == 'quick':
        # the deprecated names and the mode switch always, the rest by the seed
        return (['verify', 'submit', 'update_dep', 'inplace', 'item_mode',
                 rng.choice(['attr_dep', 'attr_new'])]
                + [rng.choice(SEQ_OPS['item'])])
    return [o for g in SEQ_OPS.values() for o in g]


def hand_families(tier, rng):
    '''descriptions handed to a raptor master: deprecated names set / unset
       jointly (quick: four of them by the seed, the others set), loosely typed
       values or not; the route fixes the mode'''
    if tier == 'quick':
        vary = rng.sample(DEP_I + DEP_S, 4)
        bg   = {d: other(d, 1) for d in DEP_I + DEP_S if d not in vary}
    else:
        vary, bg = DEP_I + DEP_S, {}
    return [fam(ints=[d for d in vary if d in DEP_I] + ['loose'], ivals=(0, 1),
                strs=[d for d in vary if d in DEP_S], svals=('', 'a'), bg=bg),
            fam(pres=PRES, ints=['cpu_processes', 'loose'], ivals=(0, 1))]


def mc_files(tier, rng, kinds=KINDS, devs=(), emit=True,
             tdf=None, slf=None, funcs=None):
    tdf = td_families(tier, rng) if tdf is None else tdf
    slf = slot_families(tier, rng) if slf is None else slf
    funcs = R.FUNCS if funcs is None else funcs
    mod = ('---- MODULE MC ----\nEXTENDS Descr\n'
           'MCTDFams == {%s}\nMCSlotFams == {%s}\n'
           'MCFuncs == %s\nMCArgs == %s\nMCKws == %s\nMCApis == {"class", "decor"}\n'
           'MCShort == %s\nMCSeqLens == %s\n'
           'MCXFuncs == %s\nMCXWheres == {"main", "module"}\nMCXArgs == %s\n'
           'MCSeqBases == %s\nMCSeqOps == %s\nMCOpLens == {2, 3}\nMCHandFams == {%s}\n====\n'
           % (',\n  '.join(tla(f) for f in tdf), ',\n  '.join(tla(f) for f in slf),
              tla(set(funcs)), tla(set(R.ARGS)), tla(set(R.KWS)), tla(set(R.SHORT)),
              tla({2, 3} if tier == 'quick' else {2, 3, 4}),
              tla(set(R.XFUNCS)), tla(set(R.XARGS)),
              tla(S(SEQ_BASES[:1] if tier == 'quick' else SEQ_BASES)),
              tla(set(seq_ops(tier, rng))),
              ',\n  '.join(tla(f) for f in hand_families(tier, rng))))
    cfg = 'CONSTANTS\n'
    for d in DEVS:
        cfg += ' %s = %s\n' % (d, 'TRUE' if d in devs else 'FALSE')
    cfg += (' Kinds = %s\n TDFams <- MCTDFams\n SlotFams <- MCSlotFams\n Funcs <- MCFuncs\n'
            ' ArgIds <- MCArgs\n KwIds <- MCKws\n Apis <- MCApis\n ShortFuncs <- MCShort\n'
            ' SeqLens <- MCSeqLens\n XFuncs <- MCXFuncs\n XWheres <- MCXWheres\n XArgIds <- MCXArgs\n'
            ' SeqBases <- MCSeqBases\n SeqOpIds <- MCSeqOps\n OpLens <- MCOpLens\n'
            ' HandFams <- MCHandFams\n Emit = %s\n'
            % (tla(set(kinds)), tla(bool(emit))))
    cfg += 'SPECIFICATION Spec\nCHECK_DEADLOCK FALSE\n'
    for i in INVARIANTS:
        cfg += 'INVARIANT %s\n' % i
    return {'MC.tla': mod, 'MC.cfg': cfg}


# ------------------------------------------------------------------------------
def inputs_from_tlc(out):
    '''the inputs TLC enumerated: <<"IN", kind, "<json>">> lines of the Init print'''
    seen, res = set(), []
    for line in out.splitlines():
        if not line.startswith('<<"IN", "'):
            continue
        i = line.index('", "', 8)
        kind = line[9:i]
        if line in seen:
            continue
        seen.add(line)
        obj = json.loads(json.loads(line[i + 3:line.rindex('>>')]))
        if isinstance(obj, list) and kind in ('td', 'pd'):
            obj = {}                              # empty record
        res.append((kind, obj))
    return res


def validate(traces):
    '''monitor runs, several TLC processes side by side'''
    if not traces:
        return [], {'states': 0, 'transitions': 0, 'cmd': ''}
    size   = 3000
    chunks = [traces[i:i + size] for i in range(0, len(traces), size)]

    def one(chunk):
        return tracecheck.validate('Descr', 'DescrTrace',
                                   MONITOR_CONSTANTS, chunk,
                                   timeout=900, max_batch=size)
    with ThreadPoolExecutor(max_workers=min(WORKERS, len(chunks))) as ex:
        parts = list(ex.map(one, chunks))
    errs, stats = [], {'states': 0, 'transitions': 0, 'cmd': ''}
    for res, st in parts:
        errs += res
        stats['states']      += st['states']
        stats['transitions'] += st['transitions']
        stats['cmd']          = st['cmd']
    return errs, stats


# ------------------------------------------------------------------------------
def classify(kind, inp, clause, infos):
    '''input class of a failing trace (for known-findings matching)'''
    c = clause.split('.', 1)[1]
    if kind == 'hand':
        where = {'workers': 'Master.submit_workers', 'tasks_exec': 'Master.submit_tasks '
                 '(executable task)', 'tasks_raptor': 'Master.submit_tasks (raptor task)'}
        cps = sorted(i.split('.', 2)[2] for i in infos if i.startswith('I.copy.'))
        return ['%s: %s copy of the description' % (where[inp['route']], w) for w in cps] \
               or ['%s' % where[inp['route']]]
    if kind == 'tdseq':
        # the calls of the sequence which failed: (change before the call, verified before?)
        ctx  = sorted(tuple(i.split('.')[3:]) for i in infos if i.startswith('I.seq.after.'))
        again = [how for how, prior in ctx if prior == 'verified' and how != 'none']
        if again:
            return ['description verified again after a change through %s'
                    % {'attr': 'attributes', 'item': 'item assignment', 'update': 'update()',
                       'inplace': 'in-place mutation of a value'}.get(how, how) for how in again]
        return ['description object: verify after %s' % ', '.join('%s (%s)' % c for c in ctx)]
    if c == 'AliasKeeps':
        return ['deprecated attribute %s -> %s' % (d, n) for d, n in ALIAS
                if 'I.alias.' + d in infos]
    if kind == 'xfunc':
        return ['function payload decoded in another interpreter: %s from %s'
                % (inp['f'], 'the application script (__main__)' if inp['w'] == 'main'
                   else 'an importable module')]
    if kind == 'fseq':
        return ['short-lived callables encoded one after the other (%s)' % inp['api']]
    if kind == 'func':
        if 'I.func.kwargs_none' in infos:
            return ['PythonTask(func[, args]) without kwargs: kwargs is shipped as None']
        return ['function payload %s via %s' % (inp['f'], inp['api'])]
    if kind == 'slots':
        fm = sorted(set('%s:%s/%s' % ('new' if s['version'] else 'old', s['cfmt'], s['gfmt'])
                        for s in inp))
        mixed = len(set(bool(s['version']) for s in inp)) > 1
        first = ('new' if inp[0]['version'] else 'old') if inp else ''
        if mixed:
            return ['mixed-format slot list, first entry %s format' % first]
        return ['slot list ' + ','.join(fm)]
    if kind == 'pd':
        return ['pilot description']
    det = sorted(i.split('.', 2)[2] for i in infos if i.startswith(('I.lost.', 'I.rt.', 'I.changed.')))
    return ['task description mode=%s%s' % (inp.get('mode', 'default'),
                                            (' attrs=' + ','.join(det)) if det else '')]


# coverage classes the run has to reach in either tier (monitor labels)
def required_classes():
    req = {'K.td.alias.' + d for d, n in ALIAS} | {'K.td.aliasover.' + d for d, n in ALIAS}
    req |= {'K.td.accept.' + m for m in MODES + ['other.mode']}
    req |= {'K.td.reject.%s.%s' % (m, a) for m, a in [
        ('task.executable', 'executable'), ('task.service', 'executable'),
        ('agent.service', 'executable'), ('task.proc', 'executable'),
        ('task.function', 'function'), ('task.function', 'named_env'),
        ('task.method', 'function'), ('task.method', 'named_env'),
        ('task.eval', 'code'), ('task.exec', 'code'), ('task.shell', 'command')]}
    req |= {'K.td.mpi.true', 'K.td.mpi.false', 'K.td.again', 'K.td.extra',
            'K.td.roundtrip.none', 'K.td.roundtrip.ok', 'K.pd.roundtrip.ok', 'K.pd.verify.ok',
            'K.pd.verify.raise', 'K.slots.tonew', 'K.slots.toold.new', 'K.slots.toold.raw',
            'K.slots.len.0', 'K.slots.len.1', 'K.slots.len.2', 'K.slots.box.slot',
            'K.slots.box.dict', 'K.func.outcome.ret', 'K.func.outcome.raise'}
    req |= {'K.slots.%s.%s.old' % (r, f) for r in 'cg' for f in ('int', 'dict', 'ro', 'pair')}
    req |= {'K.slots.%s.%s.new' % (r, f) for r in 'cg' for f in ('int', 'dict', 'ro')}
    req |= {'K.slots.mixed.oldfirst', 'K.slots.mixed.newfirst', 'K.slots.mixed.len.2',
            'K.slots.mixed.len.3', 'K.slots.len.3'}
    req |= {'K.hand.%s.%s' % (r, x) for r in ('workers', 'tasks_exec', 'tasks_raptor')
            for x in ('accept', 'reject')} \
           - {'K.hand.workers.reject', 'K.hand.tasks_exec.reject'}   # the route fills these in
    req |= {'K.hand.alias.' + d for d, n in ALIAS}
    req |= {'K.hand.loose.' + r for r in ('workers', 'tasks_exec', 'tasks_raptor')}
    req |= {'K.hand.copy.workers.' + w for w in ('verified', 'registry', 'insert', 'sent')}
    req |= {'K.hand.copy.tasks_exec.' + w for w in ('verified', 'insert', 'sent')}
    req |= {'K.hand.copy.tasks_raptor.' + w for w in ('verified', 'sent', 'queued')}
    req |= {'K.xfunc.%s.%s' % (f, w) for f in R.XFUNCS for w in ('main', 'module')}
    req |= {'K.xfunc.at.local', 'K.xfunc.at.remote'} | {'K.xfunc.a.' + a for a in R.XARGS}
    req |= {'K.tdseq.set.' + h for h in ('attr', 'item', 'update', 'inplace')}
    req |= {'K.tdseq.via.verify', 'K.tdseq.via.task', 'K.tdseq.reverify.alias',
            'K.tdseq.reverify.cast'}
    req |= {'K.tdseq.reverify.%s.%s' % (h, r) for h in ('attr', 'item', 'update')
            for r in ('accept', 'reject')} | {'K.tdseq.reverify.inplace.accept'}
    req |= {'K.fseq.%s.len.%d' % (a, n) for a in ('class', 'decor') for n in (2, 3)}
    req |= {'K.fseq.f.' + f for f in R.SHORT}
    req |= {'K.func.%s.%s' % (a, f) for a in ('class', 'decor') for f in R.FUNCS}
    req |= {'K.func.a.' + a for a in R.ARGS}
    req |= {'K.func.k.%s.%s' % (a, k) for a in ('class', 'decor') for k in R.KWS}
    return req


def report(chk, items, traces, errs):
    '''items: (kind, inp); one list of monitor strings per trace'''
    seen = set()
    chk.traces += len(traces)
    chk.evaluations += sum(len(tr['events']) for tr in traces)
    # smallest inputs first: the replay file of a clause / class is a minimal case
    order = sorted(range(len(items)), key=lambda i: (len(errs[i]) == 0,
                                                     len(json.dumps(items[i][1])), i))
    for (kind, inp), tr, es in [(items[i], traces[i], errs[i]) for i in order]:
        infos = [e for e in es if e.startswith('I.')]
        cover = [e for e in es if e.startswith('K.')]
        seen.update(cover)
        for e in es:
            if e.startswith('T19.'):
                note = ('%s: code differs from the transcription, outside the property '
                        '(first: %s %s)' % (e, kind, json.dumps(inp, sort_keys=True)[:300]))
                if not any(n.startswith(e + ':') for n in chk.notes):
                    chk.notes.append(note)
            elif e.startswith('X.'):
                raise Machinery('monitor could not read a trace: %s %s' % (e, tr))
            elif e.split('.')[0] == chk.pid:
                for cls in classify(kind, inp, e, infos) or ['unclassified']:
                    chk.violation(e, cls, 'real code violates %s on %s input %s%s'
                                  % (e, kind, json.dumps(inp, sort_keys=True)[:400],
                                     (' [%s]' % ','.join(sorted(infos))) if infos else ''),
                                  {'rig': 'descr', 'kind': kind, 'inp': inp, 'errs': es,
                                   'trace': tr})
    return seen


def run_rig(items):
    '''one trace per input; the payloads for another interpreter go through one
       application process and one worker process'''
    xs = [inp for kind, inp in items if kind == 'xfunc']
    xt = iter(R.run_xfunc_batch(xs))
    return [next(xt) if kind == 'xfunc' else R.run(kind, inp) for kind, inp in items]


def run(chk, tier, seed):
    rng   = random.Random(seed * 7919 + 19)
    quick = tier == 'quick'

    # ---- 1. design model, exhaustive; the run enumerates the inputs --------------
    res = tlc.run('Descr', 'MC', 'MC.cfg', workers=WORKERS, timeout=900,
                  extra_files=mc_files(tier, rng))
    chk.add_tlc(res, 'exhaustive:' + tier)
    if not res.ok:
        raise Machinery('design model Descr violates %s (intended design must hold):\n%s'
                        % (res.violated, res.trace[:3000]))
    chk.exhaustive = True
    items = inputs_from_tlc(res.out)
    m = re.search(r'Finished computing initial states: (\d+) (?:distinct )?states? generated'
                  r'(?:, with (\d+) of them distinct)?', res.out)
    if not items or not m or len(items) != int(m.group(2) or m.group(1)):
        raise Machinery('inputs read from TLC (%d) do not match its initial states (%s)'
                        % (len(items), m and m.group(0)))

    # ---- 2. deviation sensitivity of the model's invariants ---------------------
    if not quick:
        for dev, kinds, inv in [('DevWorkerClass', ('td',), 'InvAliasKeeps'),
                                ('DevKwargsNone', ('func',), 'InvFuncSame'),
                                ('DevRemembers', ('tdseq',), None),
                                ('DevByRefMain', ('xfunc',), 'InvRemoteSame'),
                                ('DevRegistryEarly', ('hand',), None)]:
            r = tlc.run('Descr', 'MC', 'MC.cfg', workers=WORKERS, timeout=600,
                        extra_files=mc_files('quick', random.Random(1), kinds=kinds,
                                             devs=[dev], emit=False))
            chk.add_tlc(r, 'deviation:' + dev)
            if r.ok or (inv and r.violated != inv) or \
                    (not inv and r.violated not in ('InvSeqNormal', 'InvSeqRules', 'InvSeqAlias',
                                                    'InvCopiesAgree', 'InvCopiesNormal')):
                raise Machinery('deviation %s not detected by the model (got %s)'
                                % (dev, r.violated))
            chk.notes.append('deviation %s breaks %s in the design model' % (dev, r.violated))

    # ---- 3. every TLC state -> calls of the real code ---------------------------
    traces = run_rig(items)

    # ---- 4. the monitor recomputes every step -----------------------------------
    errs, st = validate(traces)
    chk.states      += st['states']
    chk.transitions += st['transitions']
    chk.cmds.append(st['cmd'])
    seen = report(chk, items, traces, errs)
    chk.nontrivial.update(seen)
    missing = sorted(required_classes() - seen)
    if missing:
        raise Machinery('case classes not exercised: %s' % missing[:20])

    for kind in ('td', 'slots', 'func'):
        for (k, inp), tr in zip(items, traces):
            if k == kind and len(tr['events']) > 3:
                chk.sample({'kind': k, 'inp': inp, 'events': tr['events'][:3]})
                break
    n = {k: sum(1 for kk, _ in items if kk == k) for k in KINDS}
    n['mixed-format slot lists'] = sum(
        1 for kk, i in items if kk == 'slots' and len(set(bool(s['version']) for s in i)) > 1)
    chk.notes.append('inputs enumerated by TLC and replayed on the real code: %s' % n)
    chk.assumptions += [
        'attribute values range over 0/1/2 and ""/"a"/"b" (and None for mode): _verify only '
        'tests truth values and copies',
        'function payloads: the model is a case enumerator with an identity oracle; nothing '
        'about dill / pickle is modelled, the callables are those of the rig catalogue',
        'payloads for another interpreter: encoded by a python process whose __main__ is the '
        'rig module, decoded by a fresh interpreter which can import the rig module but has '
        'another __main__ (the raptor worker situation)',
        'hand-over points: raptor Master.submit_workers and Master.submit_tasks (description '
        'objects; executable and raptor tasks) on a master built with __new__, registry / '
        'publish / advance / request queue recorded; Master._run_task (blocks on the result) '
        'is not driven',
        'sequences on one description object: lengths 2-3 plus a final verify / submit, steps '
        'from a fixed catalogue of changes (DescrOps.SeqOps)',
        'old slot format on input = cores / gpus as integers, dictionaries, RO objects or '
        '(index, occupation) pairs (what convert_slots_to_new accepts); the per-rank core-map '
        'format produced by convert_slots_to_old is checked as output only']


def replay(chk, obj):
    tr = run_rig([(obj['kind'], obj['inp'])])[0]
    errs, st = validate([tr])
    report(chk, [(obj['kind'], obj['inp'])], [tr], errs)
