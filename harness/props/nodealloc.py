'''
C01 C02 C03 for the APPLICATION-LEVEL placement API of resource_config.py
(RO, RankRequirements, Slot, Node.find_slot / allocate_slot / deallocate_slot,
NodeList._assert_rr / find_slots / release_slots, last-failed cache, rotating
start index): NodeAlloc design model (exhaustive TLC), TLC behaviours of the
design model replayed call by call into the REAL classes (spec -> code, the
projected map and the outcome compared after every call), seeded random
request streams over a catalogue of layouts, and validation of every recorded
trace by the NodeAllocTrace monitor.

Concurrent use (application threads calling find_slots / allocate_slot /
release_slots on one NodeList): the design model has a concurrent part
(Callers # {}: one step per schedule point, node locks as a variable, deviation
DevSearchOutsideLock), checked exhaustively; the rig runs the real classes in
logical threads under the baton controller (harness/sched_ctl.py) with schedule
points at every node lock acquisition and between search and record inside
Node.find_slot: all schedules with at most 2 preemptions (quick) / all schedules
(thorough) of small programs, TLC behaviours of the concurrent model as exact
schedules (map compared after every node-level step) and seeded random programs
and schedules; the merged traces go through the same monitor (CTake / CGive /
CFind / CRelease events).

Clauses are "C01.xxx" / "C02.xxx" / "C03.xxx"; only those whose prefix equals
chk.pid are reported.  "N.xxx" entries of the monitor are notes (progress
questions such as the last-failed cache refusing a request that fits), never
violations.

In-memory mutations tried while building (quick tier, all caught in the class
'uniform node list, index == position', which is clean on the unchanged tree):
find_slot hands out DOWN cores (C01.NoBlocked, GrantedBusyCore), allocate_slot
does not mark GPUs (C01.MapNotMarked, GpuShareBound, C03.HeldOfferedAgain),
deallocate_slot forgets lfs (C03.NotRestored, IdleNotInitial), find_slots without
rollback (C03.FailedFindChangedMap, Leak), find_slot shrinking the slot when cores
are short (C02.CoresPerSlot), find_slot returning fewer GPUs than asked
(C02.GpusPerSlot), release_slots releasing the first slot only (C03.NotRestored),
allocate_slot(_check=True) without the room check for cores
(C01.SuppliedBusyCoreAccepted, NoCoreShared).  Concurrency: find_slot recording the
slot after leaving the node lock (seeded change, source tree via RP_VERIF_SRC:
C01.NoCoreShared, CoreShareBound, GrantedBusyCore, C03.HeldOfferedAgain, class
'application threads sharing one NodeList'), a node lock that excludes nobody
(same clauses, found through the schedule point between search and record).
'''

import os
import glob
import random
import shutil

from concurrent.futures import ThreadPoolExecutor

from .. import tlc, tracecheck
from ..core import Machinery
from ..rigs import nodealloc_rig as R

INVARIANTS = ['TypeOK', 'InvNoCoreShared', 'InvCoreShareBound', 'InvGpuShareBound', 'InvLfsBound',
              'InvMemBound', 'InvNoBlocked', 'InvOnlyKnown', 'InvOccMatchesHeld', 'InvShape',
              'InvRejectOversize', 'InvIdleIsInitial', 'NoteCacheSound']
PROPERTIES = ['ActRestores', 'ActFailedUnchanged', 'ActReleaseClean']
DEVS = ['DevNoLfsRaises', 'DevPosVsIndex', 'DevSupDupUnchecked', 'DevNegIndexPartial',
        'DevCacheInverted', 'DevSearchOutsideLock']
# the concurrent part of the model (Callers # {}): what is checked there
CONC_INVARIANTS = ['TypeOK', 'InvNoCoreShared', 'InvCoreShareBound', 'InvGpuShareBound', 'InvLfsBound',
                   'InvMemBound', 'InvNoBlocked', 'InvOnlyKnown', 'InvOccMatchesHeld', 'InvShape',
                   'InvRejectOversize', 'InvIdleIsInitial', 'InvOccBound', 'InvLockDiscipline',
                   'InvRecordStillFree', 'InvCallerShape']
CONC_PROPERTIES = ['ActRestores']
# deviations the code under /repo has today: the behaviours replayed into the real classes
# come from the model with these set TRUE, so that the model predicts outcome and map of
# every call exactly.  Remove a name when the deviation is repaired in /repo (a stale entry
# only shows up as "behaviours differ" in the notes, never as a violation).
# deviations the code at /repo still shows (the model used to drive spec -> code replay runs
# 'as coded'): D-NA1, D-NA2, D-NA3 are repaired, only the inverted last-failed cache is left
AS_CODED = ['DevCacheInverted']

L, Q, S = R.Layout, R.rr, R.sup
QUICK = ('basic', 'noinfo', 'shifted', 'dup', 'neg')      # scenarios checked exhaustively in the quick tier


def req(n, **kw):
    return {'rr': Q(**kw), 'n': n}


# (name, layout, requests, application-chosen slots)
SCENARIOS = [
    ('basic', L(2, 2, 1, 2, 2),
     [req(1, nc=1), req(2, nc=1, ng=1, go=2, lfs=1), req(2, nc=2, mem=1), req(3, nc=1), req(1, nc=3)],
     [S(0, 0, [[0, 4]], [[0, 2]]), S(1, 1, [[1, 4]], lfs=3), S(0, 0, [[5, 4]])]),
    ('blocked-frac', L(2, 3, 2, 2, 2, bc=(0,), bg=(1,)),
     [req(2, nc=2, co=2), req(3, nc=1, ng=1, go=1), req(2, nc=2), req(1, nc=1, ng=2), req(1, nc=1, mem=2)],
     [S(0, 0, [[0, 4]]), S(1, 1, [[1, 4]], [[1, 4]]), S(0, 0, [[2, 2]], [[0, 3]]), S(0, 1, [[1, 4]])]),
    ('noinfo', L(2, 2, 0, None, None),
     [req(1, nc=1), req(3, nc=1), req(2, nc=2), req(1, nc=1, lfs=1)],
     [S(1, 1, [[1, 4]]), S(0, 0, [[0, 4]], lfs=1)]),
    ('shifted', L(3, 1, 0, 2, 2, ids=(1, 2, 3)),
     [req(1, nc=1), req(2, nc=1), req(3, nc=1), req(2, nc=1, lfs=2)],
     [S(1, 2, [[0, 4]])]),
    ('dup', L(1, 2, 2, 2, 2),
     [req(1, nc=1), req(1, nc=1, ng=1, go=2)],
     [S(0, 0, [[0, 4]], [[0, 2], [0, 3]]), S(0, 0, [[0, 4], [0, 4]]), S(0, 0, [[1, 4]], [[1, 2]])]),
    ('neg', L(1, 2, 2, 2, 2),
     [req(1, nc=1), req(1, nc=1, ng=1, go=2)],
     [S(0, 0, [[0, 4], [-1, 4]]), S(0, 0, [[-1, 4]]), S(0, 0, [[1, 4]], [[0, 2], [-1, 2]])]),
    ('gap', L(3, 2, 1, 2, 2, ids=(0, 2, 3)),
     [req(1, nc=1), req(3, nc=1, ng=1, go=2), req(2, nc=2), req(4, nc=1, mem=1)],
     [S(1, 2, [[0, 4]], [[0, 2]])]),
]

# deviation -> (scenario in which it shows, what TLC may report first)
EXPECT = [
    ('DevNoLfsRaises',     'noinfo',  {'ActRestores', 'ActFailedUnchanged', 'ActReleaseClean',
                                       'InvOccMatchesHeld', 'InvIdleIsInitial'}),
    ('DevPosVsIndex',      'shifted', {'ActRestores', 'ActFailedUnchanged', 'ActReleaseClean',
                                       'InvOccMatchesHeld', 'InvIdleIsInitial'}),
    ('DevSupDupUnchecked', 'dup',     {'InvCoreShareBound', 'InvGpuShareBound'}),
    ('DevNegIndexPartial', 'neg',     {'ActFailedUnchanged', 'InvOccMatchesHeld', 'InvIdleIsInitial'}),
    ('DevCacheInverted',   'basic',   {'NoteCacheSound'}),
]


# concurrent part of the design model: (name, layout, requests, supplied slots, callers)
CONC_SCENARIOS = [
    ('c-two',   L(2, 1, 0, 2, 2), [req(1, nc=1), req(2, nc=1)], [S(1, 1, [[0, 4]])], 2),
    ('c-gpu',   L(2, 1, 1, 2, 2), [req(1, nc=1, ng=1, go=2), req(2, nc=1, lfs=2)],
     [S(1, 1, [[0, 4]], [[0, 2]])], 2),
    ('c-small', L(2, 2, 0, 2, 2), [req(1, nc=1), req(3, nc=1)], [S(0, 0, [[0, 4]])], 2),
    ('c-three', L(2, 1, 0, 2, 2), [req(1, nc=1), req(2, nc=1)], [], 3),
]
CONC_QUICK = ('c-two', 'c-gpu')
# what DevSearchOutsideLock has to break (checked without the precondition invariant)
CONC_DEV_INVARIANTS = ['InvNoCoreShared', 'InvCoreShareBound', 'InvGpuShareBound', 'InvOccBound',
                       'InvOccMatchesHeld']


def P(**threads):
    return {t: list(ops) for t, ops in threads.items()}


_1c, _g = Q(nc=1), Q(nc=1, ng=1, go=2)
# small programs whose schedules are enumerated: (name, layout, programs, preemption bound thorough)
CONC_CASES = [
    ('two-nodes', L(2, 1, 0, 2, 2),
     P(t1=[('find', 'a', _1c, 2), ('release', 'a')], t2=[('find', 'b', _1c, 1), ('release', 'b')]), None),
    ('share-gpu', L(1, 2, 2, 2, 2),
     P(t1=[('find', 'a', _g, 1), ('release', 'a')], t2=[('find', 'b', _g, 1), ('release', 'b')]), None),
    ('supplied', L(2, 1, 1, 2, 2),
     P(t1=[('find', 'a', _g, 2), ('release', 'a')],
       t2=[('alloc', 's', S(1, 1, [[0, 4]], [[0, 2]])), ('find', 'b', _1c, 1), ('release', 's'),
           ('release', 'b')]), None),
    ('two-tasks', L(3, 4, 2, 4, 4),
     P(t1=[('find', 'a', Q(nc=2, ng=1, lfs=1, mem=1), 1), ('release', 'a')],
       t2=[('find', 'b', Q(nc=2, ng=1, lfs=1, mem=1), 1), ('release', 'b')]), None),
    ('rollback', L(2, 2, 1, 2, 2),
     P(t1=[('find', 'a', _1c, 3), ('release', 'a')], t2=[('find', 'b', Q(nc=2), 1), ('release', 'b')]), None),
    ('three', L(2, 2, 1, 2, 2),
     P(t1=[('find', 'a', _1c, 1), ('release', 'a')], t2=[('find', 'b', _1c, 1), ('release', 'b')],
       t3=[('find', 'c', Q(nc=2), 1), ('release', 'c')]), 3),
    ('shifted', L(2, 2, 1, 2, 2, ids=(1, 2)),
     P(t1=[('find', 'a', _1c, 2), ('release', 'a')], t2=[('find', 'b', _g, 2), ('release', 'b')]), None),
    ('noinfo', L(2, 2, 0, None, None),
     P(t1=[('find', 'a', _1c, 2), ('release', 'a')], t2=[('find', 'b', Q(nc=2), 2), ('release', 'b')]), None),
]
CONC = 'application threads sharing one NodeList'


# ------------------------------------------------------------------------------
def tla_rr(r):
    return ('[nc |-> %d, co |-> %d, ng |-> %d, go |-> %d, lfs |-> %d, mem |-> %d]'
            % (r['nc'], r['co'], r['ng'], r['go'], r['lfs'], r['mem']))


def tla_entries(q):
    return '<<' + ', '.join('<<%d, %d>>' % (i, u) for i, u in q) + '>>'


def tla_sup(s):
    return ('[at |-> %d, node |-> %d, cores |-> %s, gpus |-> %s, lfs |-> %d, mem |-> %d]'
            % (s['at'], s['node'], tla_entries(s['cores']), tla_entries(s['gpus']), s['lfs'], s['mem']))


def mc_files(lay, reqs, sups, devs=(), invariants=None, props=None, holders=3, callers=0):
    '''callers > 0: the concurrent part of the model, callers h1 .. hN (holders == callers)'''
    if callers:
        holders = callers
        if invariants is None:
            invariants = CONC_INVARIANTS
        if props is None:
            props = CONC_PROPERTIES
    mod = ('---- MODULE MC ----\nEXTENDS NodeAlloc\n'
           'MCHolders == {%s}\nMCCallers == {%s}\nMCReqs == <<%s>>\nMCSups == <<%s>>\n====\n'
           % (', '.join('"h%d"' % (i + 1) for i in range(holders)),
              ', '.join('"h%d"' % (i + 1) for i in range(callers)),
              ', '.join('[rr |-> %s, n |-> %d]' % (tla_rr(q['rr']), q['n']) for q in reqs),
              ', '.join(tla_sup(s) for s in sups)))
    cfg = 'CONSTANTS\n ' + lay.cfg_constants()
    cfg += ' Holders <- MCHolders\n Callers <- MCCallers\n Reqs <- MCReqs\n Sups <- MCSups\n'
    for d in DEVS:
        cfg += ' %s = %s\n' % (d, 'TRUE' if d in devs else 'FALSE')
    cfg += 'SPECIFICATION Spec\nCHECK_DEADLOCK FALSE\n'
    for i in (INVARIANTS if invariants is None else invariants):
        cfg += 'INVARIANT %s\n' % i
    for p in (PROPERTIES if props is None else props):
        cfg += 'PROPERTY %s\n' % p
    return {'MC.tla': mod, 'MC.cfg': cfg}


# ------------------------------------------------------------------------------
# TLC behaviour -> operations for the real classes, and the model's prediction
def model_nodes(lay, o):
    '''the model's O (parsed TLC value) in the rig's projected form'''
    def at(f, i):
        # TLC prints a function whose domain is 1 .. n as a sequence
        return f[i] if isinstance(f, dict) else f[i - 1]

    def row(f, n):
        return [at(f, i) for i in range(n)] if n else []
    return [{'id': i, 'cores': row(at(o['cores'], i), lay.nc), 'gpus': row(at(o['gpus'], i), lay.ng),
             'lfs': at(o['lfs'], i), 'mem': at(o['mem'], i)} for i in lay.ids]


OUTCOME = {'grant': 'grant', 'none': 'none', 'cached': 'none', 'raise': 'raise', 'ok': 'ok',
           'refused': 'refused', 'released': 'ok', 'relraise': 'raise'}


def ops_from_behaviour(path, reqs, sups):
    '''[(operation, model outcome, model state O)]'''
    out = []
    for act, args, state in tlc.parse_sim_file(path):
        if act == 'Init' or not args:
            continue
        a = [x.strip().strip('"') for x in args.split(',')]
        if act == 'FindSlots':
            q  = reqs[int(a[1]) - 1]
            op = ('find', a[0], q['rr'], q['n'])
        elif act == 'Supply':
            op = ('alloc', a[0], sups[int(a[1]) - 1])
        elif act == 'Release':
            op = ('release', a[0])
        else:
            continue
        out.append((op, state['out']['k'], state['O']))
    return out


def drive_behaviour(lay, steps):
    '''run the operations against the real classes; compare outcome and projected
       map with the model after every call.  returns (trace, ops, mismatch or None)'''
    rig, ops, bad = R.NodeAllocRig(lay), [], None
    for k, (op, mout, mo) in enumerate(steps):
        ev = rig.step(op)
        ops.append(op)
        if bad is not None:
            continue
        if ev is None:
            bad = {'step': k, 'op': op, 'what': 'operation not applicable to the real state'}
            continue
        want = OUTCOME[mout]
        if ev['res'] != want or (ev['ev'] == 'Find' and mout in ('cached', 'none')
                                 and ev['searched'] != (mout == 'none')):
            bad = {'step': k, 'op': op, 'what': 'outcome %s (searched=%s), model %s'
                   % (ev['res'], ev.get('searched'), mout)}
        elif ev['nodes'] != model_nodes(lay, mo):
            bad = {'step': k, 'op': op, 'what': 'map differs from the model',
                   'code': ev['nodes'], 'model': model_nodes(lay, mo)}
    return rig.trace(), ops, bad


# ------------------------------------------------------------------------------
# concurrent use
def conc_from_behaviour(path, reqs, sups):
    '''a behaviour of the concurrent model -> (programs, thread schedule, the model's map
       after every node-level step): the model's steps are the rig's schedule points'''
    programs, script, maps = {}, [], []
    for act, args, state in tlc.parse_sim_file(path):
        if act == 'Init' or not args:
            continue
        a = [x.strip().strip('"') for x in args.split(',')]
        c = a[0]
        if act == 'CFindStart':
            q = reqs[int(a[1]) - 1]
            programs.setdefault(c, []).append(('find', c, q['rr'], q['n']))
        elif act == 'CRelStart':
            programs.setdefault(c, []).append(('release', c))
        elif act == 'CSupStart':
            programs.setdefault(c, []).append(('alloc', c, sups[int(a[1]) - 1]))
            if state['cs'][c]['pc'] == 'idle':            # refused before the node lock
                maps.append(state['O'])
        elif act in ('CRecord', 'CRollback', 'CRelStep', 'CSupApply'):
            maps.append(state['O'])
        elif act != 'CAcqSearch':
            continue
        script.append(c)
    return programs, script, maps


def conc_key(tr):
    return repr([[e.get(k) for k in ('ev', 't', 'h', 'res', 'slot', 'slots', 'sup', 'nodes')]
                 for e in tr['events']])


def conc_run(lay, programs, schedule):
    rig = R.ConcRig(lay, programs, R.sched_ctl.scripted(list(schedule)))
    return rig.run(), rig.deadlock


def conc_random(rng, lay):
    '''2-3 threads with short random programs'''
    init  = R.NodeAllocRig(lay).proj_nodes()
    progs = {}
    for t in range(rng.choice([2, 2, 3])):
        ops, k = [], 0
        for _ in range(rng.randint(1, 3)):
            k += 1
            h = 't%d_%d' % (t + 1, k)
            if rng.random() < 0.8:
                r, n = random_rr(rng, lay)
                ops.append(('find', h, r, n))
            else:
                ops.append(('alloc', h, random_sup(rng, lay, init, None)))
            if rng.random() < 0.7:
                ops.insert(rng.randint(len(ops) - 1, len(ops)) if rng.random() < 0.2 else len(ops),
                           ('release', h))
        progs['t%d' % (t + 1)] = ops
    return progs


# ------------------------------------------------------------------------------
# seeded random request streams
LAYOUTS = [
    L(2, 2, 1, 2, 2), L(3, 4, 2, 4, 4), L(2, 3, 2, 2, 2, bc=(0,), bg=(1,)), L(4, 2, 0, 2, 2),
    L(2, 4, 2, 4, 3, bc=(1,)), L(3, 3, 1, 2, 4, bc=(2,)), L(4, 3, 2, 3, 3, bg=(0,)),
    L(3, 4, 2, 4, 4, verify=False),
    L(2, 2, 0, None, None), L(3, 3, 1, None, None, bc=(0,)),                 # no lfs / mem information
    L(2, 2, 1, 2, 2, ids=(1, 2)), L(3, 2, 1, 2, 2, ids=(0, 2, 3)),           # index != position
]
QUICK_SKIP = (3, 4, 9)       # layouts left to the thorough tier (one monitor run per layout)
PLAIN, NOINFO, SHIFTED = 'uniform node list, index == position', \
    'node list without lfs / mem information (Node.lfs is None)', \
    'node index differs from the position in NodeList.nodes'
DUP, NEG = 'application-supplied slot lists one resource twice', \
    'application-supplied slot with a negative resource index'


def layout_cls(lay):
    if not lay.info:
        return NOINFO
    if list(lay.ids) != list(range(lay.nn)):
        return SHIFTED
    return PLAIN


def random_rr(rng, lay):
    x = rng.random()
    r = Q(nc=rng.choice([1, 1, 1, 2, 2, 3]), ng=rng.choice([0, 0, 0, 1, 1, 2]),
          go=rng.choice([4, 4, 2, 2, 1]), lfs=rng.choice([0, 0, 0, 1, 2]), mem=rng.choice([0, 0, 0, 1, 2]))
    if not lay.info and rng.random() < 0.8:
        r['lfs'] = r['mem'] = 0                     # (lfs / mem requests raise on such node lists)
    if x < 0.15:
        r['co'] = rng.choice([2, 2, 1, 3])          # fractional core class
    elif x < 0.22:                                  # per-rank needs exceed a node
        k = rng.choice(['nc', 'ng', 'lfs', 'mem'])
        r[k] = {'nc': lay.nc + rng.randint(1, 2), 'ng': lay.ng + 1,
                'lfs': (lay.lfs or 2) + 1, 'mem': (lay.mem or 2) + 1}[k]
    return r, rng.choice([1, 1, 2, 2, 3, 4])


def random_sup(rng, lay, nodes, hazard):
    '''an application-chosen slot: the application reads the node map
       (nodelist.nodes[i].cores / gpus occupations) and picks for itself'''
    at   = rng.randrange(lay.nn)
    node = lay.ids[at]
    m    = nodes[at]
    kind = rng.choice(['free', 'free', 'free', 'random', 'random', 'down', 'unknown', 'toomuch',
                       'wrongnode', 'frac'])
    if hazard and rng.random() < 0.5:
        kind = hazard
    su   = lay.su
    nc   = rng.choice([1, 1, 2])
    free = [c for c in range(lay.nc) if m['cores'][c] == 0]
    cores = [[c, su] for c in sorted(rng.sample(free, min(nc, len(free))))] if free else [[0, su]]
    gpus, lfs, mem, name = [], 0, 0, 'ok'
    froom = [g for g in range(lay.ng) if m['gpus'][g] < su]
    if froom and rng.random() < 0.4:
        g = rng.choice(froom)
        gpus = [[g, rng.randint(1, su - m['gpus'][g])]]
    if lay.info and rng.random() < 0.3:
        lfs = rng.randint(0, max(m['lfs'], 0))
        mem = rng.randint(0, max(m['mem'], 0))
    if kind == 'random':
        cores = [[c, su] for c in sorted(rng.sample(range(lay.nc), min(nc, lay.nc)))]
        if lay.ng and rng.random() < 0.5:
            gpus = [[rng.randrange(lay.ng), rng.choice([1, 2, 3, 4])]]
    elif kind == 'down':
        if lay.bc and rng.random() < 0.6:
            cores = sorted(cores + [[rng.choice(lay.bc), su]])
        elif lay.bg:
            gpus = [[rng.choice(lay.bg), rng.choice([2, 4])]]
    elif kind == 'unknown':
        if lay.ng and rng.random() < 0.4:
            gpus = [[lay.ng + rng.randint(0, 1), su]]
        else:
            cores = cores + [[lay.nc + rng.randint(0, 1), su]]
    elif kind == 'toomuch':
        if rng.random() < 0.5:
            lfs = (m['lfs'] if lay.info else 0) + rng.randint(1, 2)
        else:
            mem = (m['mem'] if lay.info else 0) + rng.randint(1, 2)
    elif kind == 'wrongnode':
        if lay.nn > 1 and rng.random() < 0.6:
            node = lay.ids[(at + 1) % lay.nn]
        else:
            name = 'elsewhere'
    elif kind == 'frac':
        part = [g for g in range(lay.ng) if 0 < m['gpus'][g] < su]
        if part:
            g = rng.choice(part)
            gpus = [[g, rng.randint(1, su)]]
        cores = [[c, rng.choice([1, 2, 4])] for c, _ in cores]
    elif kind == 'dup':
        if lay.ng and rng.random() < 0.5:
            g = rng.randrange(lay.ng)
            gpus = [[g, rng.choice([2, 3])], [g, rng.choice([2, 3])]]
        else:
            cores = cores + [list(cores[0])]
    elif kind == 'neg':
        cores = cores + [[-1, su]]
    if kind != 'dup':
        # only the 'dup' class lists a resource twice
        cores = [q for k, q in enumerate(cores) if q[0] not in [x[0] for x in cores[:k]]]
        gpus  = [q for k, q in enumerate(gpus)  if q[0] not in [x[0] for x in gpus[:k]]]
    return S(at, node, cores, gpus, lfs, mem, name)


def random_stream(rng, lay, hazard=None):
    '''adaptive on the outcomes (the application knows what it was granted), recorded
       as a plain operation list for replay'''
    rig, ops, held, k = R.NodeAllocRig(lay), [], [], 0
    for _ in range(rng.randint(6, 22)):
        x = rng.random()
        if held and x < 0.32:
            h  = held.pop(rng.randrange(len(held)))
            op = ('release', h)
        elif x < 0.82:
            k += 1
            r, n = random_rr(rng, lay)
            op = ('find', 'h%d' % k, r, n)
        else:
            supplied = [h for h in held if h.startswith('s')]
            if supplied and rng.random() < 0.3:
                h = rng.choice(supplied)
            else:
                k += 1
                h = 's%d' % k
            op = ('alloc', h, random_sup(rng, lay, rig.proj_nodes(), hazard))
        ev = rig.step(op)
        ops.append(op)
        if ev and ev['res'] in ('grant', 'ok') and op[1] not in held and op[0] != 'release':
            held.append(op[1])
    if rng.random() < 0.85:
        rng.shuffle(held)
        for h in held:
            ops.append(('release', h))
            rig.step(ops[-1])
    return rig.trace(), ops


# ------------------------------------------------------------------------------
def classify(inp):
    if inp.get('kind') == 'conc':
        return CONC
    if inp.get('hazard') == 'dup':
        return DUP
    if inp.get('hazard') == 'neg':
        return NEG
    for op in inp['ops']:
        if op[0] == 'alloc':
            for q in (op[2]['cores'], op[2]['gpus']):
                idx = [i for i, _ in q]
                if any(i < 0 for i in idx):
                    return NEG
                if len(idx) != len(set(idx)):
                    return DUP
    return layout_cls(R.Layout.from_dict(inp['layout']))


def validate(chk, items, notes, pool):
    '''items: list of (layout, trace, input dict); one monitor run per layout and batch'''
    groups = {}
    for i, (lay, tr, inp) in enumerate(items):
        groups.setdefault(lay.key(), []).append(i)
    jobs = []
    for idxs in groups.values():
        for lo in range(0, len(idxs), 250):
            jobs.append(idxs[lo:lo + 250])
    jobs.sort(key=len, reverse=True)

    def one(idxs):
        lay = items[idxs[0]][0]
        return idxs, tracecheck.validate('NodeAlloc', 'NodeAllocTrace', lay.cfg_constants(),
                                         [items[i][1] for i in idxs], max_batch=250)

    for idxs, (res, st) in pool.map(one, jobs):
        chk.states      += st['states']
        chk.transitions += st['transitions']
        chk.cmds.append(st['cmd'])
        for i, errs in zip(idxs, res):
            lay, tr, inp = items[i]
            chk.traces += 1
            evs = tuple(e['ev'] + ':' + e.get('res', '') for e in tr['events'])
            if any(x in ('Find:none', 'Find:raise', 'Alloc:refused', 'CFind:none') for x in evs):
                chk.nontrivial.add(hash((lay.key(), evs, tuple(e.get('t', '') for e in tr['events']))))
            for err in errs:
                pre = err.split('.')[0]
                if pre == 'N':
                    notes[err] = notes.get(err, 0) + 1
                    notes.setdefault('example ' + err, {'layout': lay.as_dict(), 'ops': inp.get('ops') or inp.get('programs')})
                elif pre == 'X':
                    raise Machinery('monitor met an unknown event: %s' % inp)
                elif pre == chk.pid:
                    chk.violation(err, classify(inp), 'real NodeList / Node trace violates %s' % err,
                                  {'rig': 'nodealloc', 'input': inp, 'errs': errs})


NOTE_TEXT = {
    'N.CachedRefusalOfFittingRequest':
        'find_slots returned None WITHOUT searching although the request fits: the last-failed cache '
        'compares `__last_failed_rr__ >= rr` (refuses requests SMALLER than the one that failed); '
        'progress only, not C01-C03',
    'N.CachedRefusalOnIdleNodeList':
        'the same while NOTHING is held: release_slots (the only place that resets the cache) will never '
        'be called, so every request not larger than the failed one is refused from then on; progress only',
    'N.AssertRejectsFittingRequest':
        '_assert_rr raised ValueError for a request its own search would place (it ignores '
        'gpu_occupation / core_occupation sharing); progress only',
    'N.SearchMissedFittingRequest': 'find_slots searched and returned None although a search from node 0 fits',
    'N.FindRaisedOtherThanValueError': 'find_slots raised something else than ValueError',
    'N.ValidSuppliedSlotRefused': 'allocate_slot(_check=True) refused a slot that is free',
    'N.ReleaseRaised': 'release_slots raised',
}


def run(chk, tier, seed):
    # all TLC runs of this check share 8 threads (exhaustive runs: 1-2 TLC workers each)
    with ThreadPoolExecutor(max_workers=8) as pool:
        _run(chk, tier, seed, pool)


def _run(chk, tier, seed, pool):
    rng   = random.Random(seed * 6151 + 29)
    quick = tier == 'quick'

    # ---- 3a. TLC behaviours of the AS-CODED model (all deviations TRUE) ------------
    nsim = 30 if quick else 300

    def simulate(x):
        (name, lay, reqs, sups), sd = x
        dump = tlc.scratch('b-nodealloc_sim_')
        try:
            res = tlc.run('NodeAlloc', 'MC', 'MC.cfg', workers=1, timeout=600,
                          simulate='num=%d' % nsim, depth=26, seed=sd, dump_dir=dump,
                          extra_files=mc_files(lay, reqs, sups, devs=AS_CODED, invariants=['TypeOK'], props=[]))
            return res, [ops_from_behaviour(f, reqs, sups)
                         for f in sorted(glob.glob(os.path.join(dump, 'tr_*')))]
        finally:
            shutil.rmtree(dump, ignore_errors=True)

    seeds = [rng.randrange(10 ** 6) for _ in SCENARIOS]
    f_sim = [pool.submit(simulate, x) for x in zip(SCENARIOS, seeds)]

    # ---- 1. design model, exhaustive, intended design (all deviations FALSE) ------
    scen = [s for s in SCENARIOS if s[0] in QUICK] if quick else SCENARIOS

    def exhaustive(sc):
        name, lay, reqs, sups = sc
        return tlc.run('NodeAlloc', 'MC', 'MC.cfg', workers=2 if name in ('basic', 'gap') else 1,
                       timeout=900, extra_files=mc_files(lay, reqs, sups, holders=2 if quick else 3))

    f_exh = [pool.submit(exhaustive, sc) for sc in scen]

    # ---- 2. deviation sensitivity (non-vacuity of the model's properties) ----------
    def deviation(x):
        dev, sname, expect = x
        _, lay, reqs, sups = [s for s in SCENARIOS if s[0] == sname][0]
        return tlc.run('NodeAlloc', 'MC', 'MC.cfg', workers=1, timeout=900,
                       extra_files=mc_files(lay, reqs, sups, devs=[dev]))

    f_dev = [] if quick else [pool.submit(deviation, x) for x in EXPECT]

    # ---- 6a. concurrent part of the design model: exhaustive, behaviours, deviation ----
    cscen = [c for c in CONC_SCENARIOS if c[0] in CONC_QUICK] if quick else CONC_SCENARIOS

    def conc_exhaustive(sc):
        name, lay, reqs, sups, nc = sc
        return tlc.run('NodeAlloc', 'MC', 'MC.cfg', workers=2 if name in ('c-small', 'c-three') else 1,
                       timeout=1500, extra_files=mc_files(lay, reqs, sups, callers=nc))

    def conc_simulate(x):
        (name, lay, reqs, sups, nc), sd = x
        dump = tlc.scratch('b-nodealloc_sim_')
        try:
            res = tlc.run('NodeAlloc', 'MC', 'MC.cfg', workers=1, timeout=600,
                          simulate='num=%d' % (25 if quick else 250), depth=45, seed=sd, dump_dir=dump,
                          extra_files=mc_files(lay, reqs, sups, callers=nc,
                                               devs=[d for d in AS_CODED if d != 'DevSearchOutsideLock'],
                                               invariants=['TypeOK'], props=[]))
            return res, [conc_from_behaviour(f, reqs, sups)
                         for f in sorted(glob.glob(os.path.join(dump, 'tr_*')))]
        finally:
            shutil.rmtree(dump, ignore_errors=True)

    def conc_deviation(sc):
        name, lay, reqs, sups, nc = sc
        return tlc.run('NodeAlloc', 'MC', 'MC.cfg', workers=1, timeout=900,
                       extra_files=mc_files(lay, reqs, sups, callers=nc, devs=['DevSearchOutsideLock'],
                                            invariants=CONC_DEV_INVARIANTS, props=[]))

    cseeds = [rng.randrange(10 ** 6) for _ in cscen]
    f_csim = [pool.submit(conc_simulate, x) for x in zip(cscen, cseeds)]
    f_cexh = [pool.submit(conc_exhaustive, sc) for sc in cscen]
    f_cdev = [] if quick else [pool.submit(conc_deviation, sc) for sc in cscen[:2]]

    # ---- 3b. ... replayed call by call into the real classes (spec -> code) ---------
    items, mism, nbeh = [], [], 0
    for (name, lay, reqs, sups), fut in zip(SCENARIOS, f_sim):
        res, behaviours = fut.result()
        chk.add_tlc(res, 'simulate:' + name)
        for steps in behaviours:
            tr, ops, bad = drive_behaviour(lay, steps)
            nbeh += 1
            inp = {'kind': 'tlc-behaviour', 'scenario': name, 'layout': lay.as_dict(), 'ops': ops}
            items.append((lay, tr, inp))
            if bad:
                mism.append(dict(bad, scenario=name, ops=ops[:bad['step'] + 1]))
    if nbeh and not any(inp['ops'] for _, _, inp in items):
        raise Machinery('no operation could be read from the TLC behaviour dumps (action labels?)')
    chk.notes.append('spec -> code: %d TLC behaviours of the as-coded model replayed, outcome and '
                     'projected map compared after every call: %d behaviours differ' % (nbeh, len(mism)))
    if mism:
        chk.notes.append({'first model / code difference': mism[0]})

    # ---- 4. seeded random request streams over the layout catalogue ------------------
    nrand = 500 if quick else 12000
    lays  = [x for k, x in enumerate(LAYOUTS) if k not in QUICK_SKIP] if quick else LAYOUTS
    for i in range(nrand):
        lay    = lays[i % len(lays)] if i < 2 * len(lays) else rng.choice(lays)
        hazard = None
        if layout_cls(lay) == PLAIN and rng.random() < 0.12:
            hazard = rng.choice(['dup', 'neg'])
        tr, ops = random_stream(rng, lay, hazard)
        items.append((lay, tr, {'kind': 'random', 'layout': lay.as_dict(), 'ops': ops,
                                'hazard': hazard or 'none'}))

    # ---- 6b. concurrent callers on the real classes ----------------------------------
    seen, nsched, cmis, ncb = set(), 0, [], 0

    def conc_item(lay, programs, tr, dl, how):
        inp = {'kind': 'conc', 'how': how, 'layout': lay.as_dict(),
               'programs': programs, 'schedule': tr['schedule']}
        if dl:
            if chk.pid == 'C03':
                chk.violation('C03.CallNeverReturns', CONC, 'threads block each other for good: %s' % dl,
                              {'rig': 'nodealloc', 'input': inp, 'errs': ['C03.CallNeverReturns']})
            return
        key = (lay.key(), conc_key(tr))
        if key not in seen:                  # identical merged traces are validated once
            seen.add(key)
            items.append((lay, tr, inp))

    # TLC behaviours of the concurrent model as exact schedules (spec -> code)
    for (name, lay, reqs, sups, nc), fut in zip(cscen, f_csim):
        res, behaviours = fut.result()
        chk.add_tlc(res, 'simulate:' + name)
        for programs, script, maps in behaviours:
            if not programs:
                continue
            tr, dl = conc_run(lay, programs, script)
            nsched += 1
            ncb    += 1
            got = [e['nodes'] for e in tr['events'] if e['ev'] in ('CTake', 'CGive', 'Alloc')]
            exp = [model_nodes(lay, o) for o in maps]
            if got[:len(exp)] != exp and not dl:
                k = min([i for i in range(min(len(got), len(exp))) if got[i] != exp[i]] or [len(got)])
                cmis.append({'scenario': name, 'programs': programs, 'schedule': script, 'step': k})
            conc_item(lay, programs, tr, dl, 'tlc-behaviour:' + name)
    if not ncb:
        raise Machinery('no schedule could be read from the concurrent TLC behaviour dumps (action labels?)')
    chk.notes.append('spec -> code, concurrent: %d TLC behaviours of the concurrent model replayed as exact '
                     'thread schedules, map compared after every node-level step: %d differ' % (ncb, len(cmis)))
    if cmis:
        chk.notes.append({'first concurrent model / code difference': cmis[0]})

    # all schedules of small programs (quick: at most 2 preemptions)
    for name, lay, programs, bound in CONC_CASES:
        n0 = nsched
        for tr, dl in R.explore(lay, programs, preempt_bound=(1 if len(programs) > 2 else 2) if quick else bound,
                                max_runs=100000 if quick else 2000):
            nsched += 1
            conc_item(lay, programs, tr, dl, 'enumerated:' + name)
        chk.cov.setdefault('concurrent_schedules', {})[name] = nsched - n0

    # seeded random programs under seeded random schedules
    for i in range(40 if quick else 1000):
        lay   = rng.choice(lays)
        progs = conc_random(rng, lay)
        rig   = R.ConcRig(lay, progs, R.sched_ctl.randomised(random.Random(rng.randrange(10 ** 9))))
        tr    = rig.run()
        nsched += 1
        conc_item(lay, progs, tr, rig.deadlock, 'random')
    chk.notes.append('concurrent callers: %d schedules of the real classes run, %d distinct merged traces '
                     'validated' % (nsched, len(seen)))
    chk.evaluations += nsched

    # ---- 5. every trace through the monitor ----------------------------------------
    notes = {}
    validate(chk, items, notes, pool)
    for k in sorted(k for k in notes if not k.startswith('example')):
        chk.notes.append('%s x%d: %s' % (k, notes[k], NOTE_TEXT.get(k, '')))
    for k in ('N.CachedRefusalOfFittingRequest', 'N.CachedRefusalOnIdleNodeList', 'N.AssertRejectsFittingRequest'):
        if 'example ' + k in notes:
            chk.notes.append({'example ' + k: notes['example ' + k]})
    if items:
        tr = items[0][1]
        chk.sample({'kind': items[0][2]['kind'], 'events': [
            {k: v for k, v in e.items() if k != 'nodes'} for e in tr['events'][:10]]})

    # ---- verdicts of the design model runs -------------------------------------------
    for (name, lay, reqs, sups), fut in zip(scen, f_exh):
        res = fut.result()
        chk.add_tlc(res, 'exhaustive:' + name)
        if not res.ok:
            raise Machinery('design model NodeAlloc violates %s in scenario %s '
                            '(intended design must hold):\n%s' % (res.violated, name, res.trace[:3000]))
    chk.exhaustive = True
    for (dev, sname, expect), fut in zip(EXPECT, f_dev):
        res = fut.result()
        chk.add_tlc(res, 'deviation:' + dev)
        if res.ok or res.violated not in expect:
            raise Machinery('deviation %s not detected by the model as expected (got %s)'
                            % (dev, res.violated))
        chk.notes.append('deviation %s breaks %s in the design model' % (dev, res.violated))

    for (name, lay, reqs, sups, nc), fut in zip(cscen, f_cexh):
        res = fut.result()
        chk.add_tlc(res, 'exhaustive:' + name)
        if not res.ok:
            raise Machinery('design model NodeAlloc (concurrent callers) violates %s in scenario %s:\n%s'
                            % (res.violated, name, res.trace[:3000]))
    for (name, lay, reqs, sups, nc), fut in zip(cscen, f_cdev):
        res = fut.result()
        chk.add_tlc(res, 'deviation:DevSearchOutsideLock:' + name)
        if res.ok or res.violated not in CONC_DEV_INVARIANTS:
            raise Machinery('deviation DevSearchOutsideLock not detected by the model (got %s)' % res.violated)
        chk.notes.append('deviation DevSearchOutsideLock breaks %s in the design model (%s)'
                         % (res.violated, name))

    chk.assumptions += [
        'concurrent use: threads are switched at node lock acquisitions, between search and record in '
        'Node.find_slot and between calls; the unprotected reads / writes of NodeList.__index__ and the '
        'last-failed cache inside one such step are taken as atomic',
        'occupations are multiples of 1/4 (exact in binary floating point); other fractions are not driven',
        'uniform node lists built as Pilot.nodelist builds them; NUMA nodes (NumaNode) are not driven',
        'every held placement is released at most once (double release is an application error)']


def replay(chk, obj):
    inp = obj['input']
    lay = R.Layout.from_dict(inp['layout'])
    if inp.get('kind') == 'conc':
        tr, dl = conc_run(lay, inp['programs'], inp['schedule'])
        if dl and chk.pid == 'C03':
            chk.violation('C03.CallNeverReturns', CONC, 'threads block each other for good: %s' % dl,
                          {'rig': 'nodealloc', 'input': inp, 'errs': ['C03.CallNeverReturns']})
    else:
        tr = R.NodeAllocRig(lay).run(inp['ops'])
    res, st = tracecheck.validate('NodeAlloc', 'NodeAllocTrace', lay.cfg_constants(), [tr])
    chk.traces += 1
    for err in res[0]:
        if err.split('.')[0] == chk.pid:
            chk.violation(err, classify(inp), 'replayed trace violates %s' % err,
                          {'rig': 'nodealloc', 'input': inp, 'errs': res[0]})
