'''
C07 (and the executor part of C03) for the NOOP executor: Noop design model
(TLC exhaustive, termination under fairness, deviation constants), schedules of
the real NOOP.work / _handle_task / _collect threads under the baton controller
-- preemption-bounded exhaustive enumeration, TLC behaviours as schedules,
seeded random schedules and scenarios -- every run validated by the NoopTrace
monitor.
'''

import os
import re
import glob
import random
import shutil
import multiprocessing as mp

from .. import tlc, tracecheck
from ..core import Machinery

INVARIANTS = ['StartOnce', 'HandOnOnce', 'ReleaseOnce', 'NeverLeftBehind', 'OutcomeTrue',
              'LockFree', 'TypeOK']
DEVS = ['DevFailedKept', 'DevNoLock', 'DevErrNoUnsched', 'DevNoDeadline']


def T(uid, dur=0, fault='none'):
    '''dur None: no sleep executable (deadline = now); <= 0: expired at launch'''
    return {'uid': uid, 'dur': dur, 'fault': fault}


# scenarios: (name, tasks, bulks, cancels)
SCENARIOS = [
    ('one',            [T('t1', 1)], [['t1']], []),
    ('expired',        [T('t1', None), T('t2', -1), T('t3', 0)], [['t1', 't2', 't3']], []),
    ('bulk-mixed',     [T('t1', 2), T('t2', None), T('t3', 1)], [['t1', 't2'], ['t3']], []),
    ('late-bulk',      [T('t1', 1), T('t2', 0)], [['t1'], ['t2']], []),
    ('cancel-ignored', [T('t1', 2), T('t2', 0)], [['t1', 't2']], [['t1']]),
    ('fail-post-mid',  [T('t1', 1), T('t2', 0, 'post'), T('t3', None)], [['t1', 't2', 't3']], []),
    ('fail-pre-first', [T('t1', 0, 'pre'), T('t2', 1), T('t3', 0)], [['t1', 't2'], ['t3']], []),
    ('fail-descr',     [T('t1', 1, 'descr'), T('t2', 0)], [['t1'], ['t2']], []),
    ('fail-all',       [T('t1', 2, 'post'), T('t2', 0, 'pre')], [['t1', 't2']], [['t2']]),
    ('five',           [T('t1', 3), T('t2', 0), T('t3', 1, 'post'), T('t4', None), T('t5', 1)],
                       [['t1', 't2'], ['t3', 't4'], ['t5']], []),
]


def mc_files(tasks, bulks, devs=(), liveness=False, invariants=True):
    q = lambda u: '"%s"' % u
    def fn(f):
        return '[t \\in MCT |-> CASE ' + ' [] '.join('t = %s -> %s' % (q(t['uid']), f(t)) for t in tasks) + ']'
    mfault = {'none': 'none', 'pre': 'pre', 'post': 'post', 'descr': 'post'}
    mod = ('---- MODULE MCN ----\nEXTENDS Noop\nMCT == {%s}\nMCBulks == <<%s>>\nMCDur == %s\nMCFault == %s\n====\n'
           % (', '.join(q(t['uid']) for t in tasks),
              ', '.join('<<' + ', '.join(q(u) for u in b) + '>>' for b in bulks),
              fn(lambda t: str(max(0, t['dur'] or 0))), fn(lambda t: q(mfault[t['fault']]))))
    cfg = 'CONSTANTS\n T <- MCT\n Bulks <- MCBulks\n Dur <- MCDur\n Fault <- MCFault\n'
    for d in DEVS:
        cfg += ' %s = %s\n' % (d, 'TRUE' if d in devs else 'FALSE')
    cfg += 'SPECIFICATION Spec\nCHECK_DEADLOCK FALSE\n'
    if liveness:
        cfg += 'PROPERTY Termination\n'
    elif invariants:
        for i in INVARIANTS:
            cfg += 'INVARIANT %s\n' % i
    return {'MCN.tla': mod, 'MCN.cfg': cfg}


_ACT = re.compile(r'^\\\* <(\w+)(?:\((.*)\))? line \d+', re.M)


def schedule_from_behaviour(path):
    '''thread names, one per step of a TLC behaviour of Noop'''
    out = []
    for m in _ACT.finditer(open(path).read()):
        name = m.group(1)
        if name.startswith('I_'):
            out.append('intake')
        elif name.startswith('W_'):
            out.append('watcher')
    return out


# ------------------------------------------------------------------------------
# rig runs happen in worker processes (thread heavy, GIL bound)
def _job(args):
    kind, name, tasks, bulks, cancels, arg = args
    from ..rigs import noop_rig as X
    from .. import sched_ctl as SC
    out = []
    if kind == 'dfs':
        bound, limit = arg
        scn = X.Scenario(tasks, bulks, cancels)
        def mk(ch):
            rig = X.NoopRig(scn, ch)
            return rig.ctl, (scn.as_dict(), rig.run())
        for r in SC.explore(mk, max_runs=limit, preempt_bound=bound):
            out.append(r)
    elif kind == 'random':
        seed, n = arg
        rng = random.Random(seed)
        scn = X.Scenario(tasks, bulks, cancels)
        for i in range(n):
            rig = X.NoopRig(scn, SC.randomised(random.Random(rng.randrange(10 ** 9))))
            out.append((scn.as_dict(), rig.run()))
    elif kind == 'randscn':
        seed, n = arg
        rng = random.Random(seed)
        for i in range(n):
            scn = X.random_scenario(rng)
            rig = X.NoopRig(scn, SC.randomised(random.Random(rng.randrange(10 ** 9))))
            out.append((scn.as_dict(), rig.run()))
    elif kind == 'script':
        scn = X.Scenario(tasks, bulks, cancels)
        for sched in arg:
            # a control thread (if any) takes its steps where the model has none
            rig = X.NoopRig(scn, SC.scripted(sched))
            out.append((scn.as_dict(), rig.run()))
    # de-duplicate identical event sequences, keep one schedule each
    seen, uniq = set(), []
    for sd, tr in out:
        key = hash(tuple((e['who'], e['ev'], e['uid'], e['clock'],
                          str(e.get('uids', e.get('removed', e.get('state', ''))))) for e in tr['events']))
        if key in seen:
            continue
        seen.add(key)
        uniq.append((sd, tr))
    return kind, name, len(out), uniq


def classify(tr):
    faults = set(s['fault'] for s in tr['spec'].values()) - {'none'}
    if 'pre' in faults:
        return 'noop executor, launch error (no deadline on the task)'
    if faults:
        return 'noop executor, launch error (deadline set)'
    return 'noop executor, no launch error%s' % (', cancel request' if tr['named'] else '')


def owners(err):
    p = err.split('.')[0]
    if p == 'C08':
        return {'C08'}
    own = {'C07'}
    # one unschedule publication per accepted task is also the executor part of C03
    if err in ('C07.ReleasedTwice', 'C07.NeverReleased', 'C07.ReleaseUnknown'):
        own.add('C03')
    return own


def report(chk, tr, sd, errs, what):
    pid = chk.pid
    for err in errs:
        if pid not in owners(err):
            continue
        p = err.split('.')[0]
        chk.violation(err.replace(p + '.', pid + '.', 1) if p != pid else err, classify(tr),
                      '%s %s' % (what, err),
                      {'rig': 'noop', 'tasks': sd['tasks'], 'bulks': sd['bulks'],
                       'cancels': sd['cancels'], 'schedule': tr['schedule'], 'errs': errs,
                       'events': [[e['who'], e['ev'], e['uid'], e['clock'],
                                   str(e.get('uids', e.get('removed', e.get('state', ''))))]
                                  for e in tr['events'] if e['ev'] not in ('Lock', 'Unlock')][:80]})


def run(chk, tier, seed):
    quick = tier == 'quick'
    rng   = random.Random(seed * 7919 + 11)
    W     = 8

    # ---- 1. design model, 2. TLC behaviours as schedules (TLC runs side by side) ----------
    from concurrent.futures import ThreadPoolExecutor
    expect = [('DevFailedKept', 'fail-post-mid'), ('DevFailedKept', 'fail-pre-first'),
              ('DevNoLock', 'bulk-mixed'), ('DevErrNoUnsched', 'fail-post-mid'),
              ('DevNoDeadline', 'bulk-mixed')]
    nsim = 40 if quick else 400
    todo = []
    for name, tasks, bulks, cancels in SCENARIOS:
        todo.append(('exhaustive', name, tasks, bulks, cancels, None))
        if not quick:
            todo.append(('termination', name, tasks, bulks, cancels, None))
        todo.append(('simulate', name, tasks, bulks, cancels, rng.randrange(10 ** 6)))
    for dev, sname in (expect[:2] if quick else expect):
        _, tasks, bulks, cancels = [s for s in SCENARIOS if s[0] == sname][0]
        todo.append(('deviation', sname, tasks, bulks, cancels, dev))

    def _tlc(item):
        kind, name, tasks, bulks, cancels, arg = item
        if kind == 'exhaustive':
            return tlc.run('Noop', 'MCN', 'MCN.cfg', workers=2, timeout=600,
                           extra_files=mc_files(tasks, bulks)), None
        if kind == 'termination':
            return tlc.run('Noop', 'MCN', 'MCN.cfg', workers=2, timeout=600,
                           extra_files=mc_files(tasks, bulks, liveness=True)), None
        if kind == 'deviation':
            return tlc.run('Noop', 'MCN', 'MCN.cfg', workers=2, timeout=600,
                           extra_files=mc_files(tasks, bulks, devs=[arg])), None
        dump = tlc.scratch('rpnsim_')
        try:
            res = tlc.run('Noop', 'MCN', 'MCN.cfg', workers=1, timeout=300,
                          simulate='num=%d' % nsim, depth=120, seed=arg, dump_dir=dump,
                          extra_files=mc_files(tasks, bulks, invariants=False))
            return res, [schedule_from_behaviour(f)
                         for f in sorted(glob.glob(os.path.join(dump, 'tr_*')))]
        finally:
            shutil.rmtree(dump, ignore_errors=True)

    with ThreadPoolExecutor(max_workers=4) as tp:
        outs = list(tp.map(_tlc, todo))

    jobs = []
    for (kind, name, tasks, bulks, cancels, arg), (res, scheds) in zip(todo, outs):
        chk.add_tlc(res, '%s:%s%s' % (kind, name, ':' + arg if kind == 'deviation' else ''))
        if kind == 'exhaustive' and not res.ok:
            raise Machinery('Noop design model violates %s in %s:\n%s'
                            % (res.violated, name, res.trace[:3000]))
        if kind == 'termination' and not res.ok:
            raise Machinery('Noop design model does not terminate in %s:\n%s'
                            % (name, res.trace[:3000]))
        if kind == 'deviation':
            if res.ok or res.kind != 'invariant':
                raise Machinery('deviation %s not detected in %s (got %s)' % (arg, name, res.violated))
            chk.notes.append('deviation %s (%s): %s' % (arg, name, res.violated))
        if kind == 'simulate':
            if not scheds:
                raise Machinery('no TLC behaviours for scenario %s' % name)
            jobs.append(('script', name, tasks, bulks, cancels, scheds))
    chk.exhaustive = True

    # ---- 3. preemption bounded exhaustive + random schedules ---------------------
    for name, tasks, bulks, cancels in SCENARIOS:
        if quick:
            jobs.append(('dfs', name, tasks, bulks, cancels, (1, 600)))
            jobs.append(('random', name, tasks, bulks, cancels, (rng.randrange(10 ** 9), 100)))
        else:
            jobs.append(('dfs', name, tasks, bulks, cancels, (2, 12000)))
            jobs.append(('random', name, tasks, bulks, cancels, (rng.randrange(10 ** 9), 2000)))
    for k in range(W):
        jobs.append(('randscn', 'random-%d' % k, [], [], [],
                     (rng.randrange(10 ** 9), 60 if quick else 1500)))

    pool = mp.get_context('fork').Pool(W)
    try:
        results = pool.map(_job, jobs, chunksize=1)
    finally:
        pool.close()
        pool.join()

    traces, meta, nruns = [], [], 0
    for (kind, name, n, uniq), job in zip(results, jobs):
        nruns += n
        chk.cov.setdefault('rig_runs', []).append({'kind': kind, 'scenario': name, 'runs': n,
                                                   'distinct_event_sequences': len(uniq)})
        for sd, tr in uniq:
            traces.append(tr)
            meta.append({'kind': kind, 'scenario': name, 'sd': sd})
    chk.evaluations += nruns

    # ---- 4. monitor ----------------------------------------------------------------
    res, st = tracecheck.validate('Noop', 'NoopTrace', '', traces, max_batch=300, parallel=W)
    chk.states += st['states']
    chk.transitions += st['transitions']
    chk.cmds.append(st['cmd'])
    for tr, m, errs in zip(traces, meta, res):
        chk.traces += 1
        # non-trivial: the watcher collected while the intake was still working, or a launch failed
        evs = [(e['who'], e['ev']) for e in tr['events']]
        if ('intake', 'Accept') in evs and ('watcher', 'PubUnsched') in evs:
            last_acc = max(i for i, x in enumerate(evs) if x == ('intake', 'Accept'))
            first_pub = evs.index(('watcher', 'PubUnsched'))
            if first_pub < last_acc or any(s['fault'] != 'none' for s in tr['spec'].values()):
                chk.nontrivial.add(hash(tuple(evs)))
        report(chk, tr, m['sd'], errs, 'real NOOP executor trace violates')
    if traces:
        chk.sample({'scenario': meta[0]['scenario'], 'schedule': traces[0]['schedule'][:40],
                    'events': [(e['who'], e['ev'], e['uid']) for e in traces[0]['events'][:25]]})
    chk.assumptions += [
        'NOOP: python code between two schedule points touches no state shared between '
        'the intake and the _collect thread',
        'NOOP: the clock is virtual: time.sleep(d) advances it by d, idle watcher rounds '
        '(empty _tasks while the intake is busy) are not schedule points',
        'NOOP: launch errors are injected through the profiler calls of the real code or a '
        'description without executable',
        'NOOP: schedules with more than 1 (quick) / 2 (thorough) preemptions are only sampled']


def replay(chk, obj):
    from ..rigs import noop_rig as X
    from .. import sched_ctl as SC
    scn = X.Scenario(obj['tasks'], obj['bulks'], obj.get('cancels') or [])
    rig = X.NoopRig(scn, SC.scripted(obj['schedule']))
    tr  = rig.run()
    res, st = tracecheck.validate('Noop', 'NoopTrace', '', [tr])
    chk.traces += 1
    report(chk, tr, scn.as_dict(), res[0], 'replayed NOOP executor trace violates')
