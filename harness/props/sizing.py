'''
C17: every shipped platform resolves and pilots are sized to fit.

1. the rig loads the shipped resource configurations through the real
   `Session._init_cfg_from_scratch`, resolves every (platform, schema) pair
   through the real `Session.get_resource_config`, and reads the factories'
   tables from the running code;
2. pairs, domains and platforms are handed to TLC as a generated constants
   module (MC.tla): TLC evaluates the membership relation for every pair
   (verdicts are printed, none is skipped) and model checks the node / core /
   GPU arithmetic of `_prepare_pilot` over every platform x pilot size;
3. TLC prints every size it explored; the rig applies each to the real
   `PMGRLaunchingComponent._prepare_pilot` of each platform, and calls the real
   factories for every resolved pair;
4. every agent config `_prepare_pilot` wrote (platform's own SMT) is handed to
   the platform's real resource manager in a faked allocation: the agent must
   work with the figures the job requests (C17.AgentRMAgrees);
5. the SizingBulk design model of `work()` down to the launchers is model
   checked; TLC chooses bulks of 1-3 pilots over mixed platforms / schemas in
   every order, the pattern of equal / different pilot sizes, the launchers
   installed (PSI/J + SAGA, SAGA only, PSI/J only) and the bucket whose
   submission is refused; the cases (quick: one per class + a seeded sample,
   thorough: a larger sample) are run through the real work() ->
   _start_pilot_bulk -> _prepare_pilot -> launcher selection -> real
   PilotLauncherPSIJ / PilotLauncherSAGA.launch_pilots on recording stand-ins
   for psij / radical.saga (C17.SchemaOfPilot, C17.LaunchFailureLocal, the
   sizing clauses, and per submitted job C17.JobSizedPerPilot,
   C17.JobTermsPerPilot, C17.JobShipsOwnAgent, C17.JobPerPilot, C17.LauncherCan);
6. the SizingTrace monitor validates all recorded events (code -> spec).
'''

import random

from .. import tlc, tracecheck
from ..core import Machinery
from ..rigs import sizing_rig as R

DEVS = ['DevFloorNodes', 'DevBlockedIgnored', 'DevBackupNotInJob', 'DevAgentToldRequest',
        'DevSmtDropped']
INVARIANTS = ['TypeOK', 'InvVerdict', 'InvMinimal', 'InvCovers', 'InvNodesGiven', 'InvJobSized',
              'InvAgentAgrees']

QUICK    = dict(nodes=[1, 2, 5], backup=[0, 1, 2], k=[0, 1, 2], gk=[0, 1, 2], smt=[0, 2])
THOROUGH = dict(nodes=[1, 2, 5, 17, 128], backup=[0, 1, 2], k=[0, 1, 2, 3, 5, 16], gk=[0, 1, 2, 5],
                smt=[0, 1, 2, 4])


# ------------------------------------------------------------------------------
def q(s):
    return '"%s"' % str(s).replace('\\', '\\\\').replace('"', '\\"')


def tset(xs, quote=True):
    return '{' + ', '.join(q(x) if quote else str(x) for x in xs) + '}'


def tseq(xs):
    return '<<' + ', '.join(q(x) for x in xs) + '>>'


def tbool(b):
    return 'TRUE' if b else 'FALSE'


def tla_pair(name, schema, ev):
    return ('[name |-> %s, schema |-> %s, ok |-> %s, rm |-> %s, lms |-> %s, lmkeys |-> %s, '
            'sched |-> %s, spawner |-> %s, agentcfg |-> %s, defschema |-> %s, schemas |-> %s, '
            'jm |-> %s, fs |-> %s]'
            % (q(name), q(schema), tbool(ev['ok']), q(ev['rm']), tseq(ev['lms']), tset(ev['lmkeys']),
               q(ev['sched']), q(ev['spawner']), q(ev['agentcfg']), q(ev['defschema']),
               tset(ev['schemas']), tbool(ev['jm']), tbool(ev['fs'])))


def tla_plat(p):
    return ('[name |-> %s, cpn |-> %d, gpn |-> %d, smt |-> %d, nbc |-> %d, nbg |-> %d]'
            % (q(p['name']), p['cpn'], p['gpn'], p['smt'], p['nbc'], p['nbg']))


def mc_files(pairs, dom, plats, scope, devs=(), print_cases=False, invariants=None):
    '''pairs: list of (name, schema, Config event)'''
    mod = '---- MODULE MC ----\nEXTENDS Sizing\n'
    mod += 'MCPairs == {\n  %s}\n' % ',\n  '.join(tla_pair(n, s, e) for n, s, e in pairs)
    mod += ('MCDom == [rm |-> %s, lm |-> %s, sched |-> %s, exec |-> %s, agent |-> %s]\n'
            % tuple(tset(dom[k]) for k in ('rm', 'lm', 'sched', 'exec', 'agent')))
    mod += 'MCPlatforms == {\n  %s}\n' % ',\n  '.join(tla_plat(p) for p in plats)
    mod += ('MCNodes == %s\nMCBackup == %s\nMCK == %s\nMCGK == %s\nMCSmt == %s\n====\n'
            % tuple(tset(scope[k], False) for k in ('nodes', 'backup', 'k', 'gk', 'smt')))
    cfg = ('CONSTANTS\n Pairs <- MCPairs\n Dom <- MCDom\n Platforms <- MCPlatforms\n'
           ' NodeChoices <- MCNodes\n BackupChoices <- MCBackup\n KChoices <- MCK\n GKChoices <- MCGK\n'
           ' SmtOverrides <- MCSmt\n PrintCases = %s\n' % tbool(print_cases))
    for d in DEVS:
        cfg += ' %s = %s\n' % (d, tbool(d in devs))
    cfg += 'SPECIFICATION Spec\nCHECK_DEADLOCK FALSE\n'
    for i in (INVARIANTS if invariants is None else invariants):
        cfg += 'INVARIANT %s\n' % i
    return {'MC.tla': mod, 'MC.cfg': cfg}


BULK_INV  = ['TypeOK', 'InvSchemaOfPilot', 'InvAllPrepared', 'InvLaunchFailureLocal', 'InvOthersPending',
             'InvLauncherCan', 'InvJobPerPilot', 'InvJobSizedPerPilot', 'InvJobTermsPerPilot',
             'InvJobShipsOwnAgent']
BULK_DEVS = ['DevStaleSchema', 'DevFailAll', 'DevSpecFromFirstPilot', 'DevLauncherPerResource']
# preferred members of the mixed group (kept if the shipped configs still have them): the first four
# (quick tier) hold two schemas of one platform, an endpoint PSI/J cannot handle (plain ssh), fork,
# a batch system reached through ssh
MIXED = [('local.localhost', ''), ('local.localhost', 'ssh'), ('ncar.cheyenne', 'ssh'),
         ('ncsa.delta', 'batch'), ('ncar.cheyenne', 'local'), ('nioz.laplace', 'interactive'),
         ('tacc.frontera', '')]
# the launchers the component holds (optional modules installed), in the order it asks them
LSETS = [('PSI_J', 'SAGA'), ('SAGA',), ('PSI_J',)]


def bulk_files(groups, schemas_of, sizes, scheme_of, devs=(), print_cases=False, invariants=None,
               lsets=LSETS):
    plats = sorted(schemas_of)
    mod  = '---- MODULE MCB ----\nEXTENDS SizingBulk\n'
    mod += 'MCGroups == {%s}\n' % ', '.join(
        '{' + ', '.join('<<%s, %s>>' % (q(p), q(sc)) for p, sc in g) + '}' for g in groups)
    mod += 'MCSchemasOf == [p \\in %s |-> CASE %s]\n' % (
        tset(plats), ' [] '.join('p = %s -> %s' % (q(p), tset(schemas_of[p])) for p in plats))
    choices = sorted(set(c for g in groups for c in g))
    mod += 'MCSchemeOf == [c \\in UNION MCGroups |-> CASE %s]\n' % ' [] '.join(
        'c = <<%s, %s>> -> %s' % (q(p), q(sc), tseq(scheme_of[(p, sc)])) for p, sc in choices)
    mod += 'MCPsij == %s\n' % tset(R.PSIJ_EXECUTORS)
    mod += 'MCLauncherSets == {%s}\n' % ', '.join(tseq(l) for l in lsets)
    mod += 'MCSizes == %s\n====\n' % tset(sizes, False)
    cfg  = ('CONSTANTS\n Groups <- MCGroups\n SchemasOf <- MCSchemasOf\n BulkSizes <- MCSizes\n'
            ' SchemeOf <- MCSchemeOf\n PsijExecutors <- MCPsij\n LauncherSets <- MCLauncherSets\n'
            ' SizeIds = {1, 2, 3}\n PrintCases = %s\n' % tbool(print_cases))
    for d in BULK_DEVS:
        cfg += ' %s = %s\n' % (d, tbool(d in devs))
    cfg += 'SPECIFICATION Spec\nCHECK_DEADLOCK FALSE\n'
    for i in (BULK_INV if invariants is None else invariants):
        cfg += 'INVARIANT %s\n' % i
    return {'MCB.tla': mod, 'MCB.cfg': cfg}


def dom_constants(dom):
    return ('DomRM = %s\n DomLM = %s\n DomSched = %s\n DomExec = %s\n DomAgent = %s\n PsijExecutors = %s\n'
            % (tuple(tset(dom[k]) for k in ('rm', 'lm', 'sched', 'exec', 'agent')) + (tset(R.PSIJ_EXECUTORS),)))


def pattern(xs):
    '''(a, b, a) -> (1, 2, 1)'''
    seen = []
    for x in xs:
        if x not in seen:
            seen.append(x)
    return tuple(seen.index(x) + 1 for x in xs)


def case_class(case):
    '''class of a TLC-chosen case (spec, fail, sizes, lset, picks, bucket of each pilot).  Nothing
       refused: how the pilots fall into buckets, which of them are of equal size, the launchers
       installed and picked; a refused bucket: which one, and the launcher it went to'''
    spec, fail, sizes, lset, picks, bks = case
    if not fail:
        return ('sized', pattern(spec), sizes, lset, tuple(sorted(set(picks))))
    return ('refused', pattern(spec), fail, lset, picks[bks.index(fail)])


def select_cases(cases, n, seed):
    '''one case of every class (seeded choice), then a seeded sample up to n'''
    rng, classes = random.Random(seed), {}
    for c in sorted(cases):
        classes.setdefault(case_class(c), []).append(c)
    chosen = [rng.choice(classes[k]) for k in sorted(classes)]
    rest   = sorted(set(cases) - set(chosen))
    if len(chosen) < n and rest:
        chosen += rng.sample(rest, min(len(rest), n - len(chosen)))
    return chosen, len(classes)


# ------------------------------------------------------------------------------
def size_class(p, s):
    parts = ['nodes given' if s['nodes'] else 'cores/gpus given']
    if p['gpn'] - p['nbg'] > 0:
        parts.append('gpu nodes')
    if p['nbc'] or p['nbg']:
        parts.append('blocked')
    if (s['smt'] or p['smt']) > 1:
        parts.append('smt')
    if s['backup']:
        parts.append('backup')
    return 'sizing: ' + ', '.join(parts)


def report(chk, traces, res, note):
    '''traces: list of (kind, key, trace); res: monitor result per trace'''
    other = {}
    for (kind, key, tr), errs in zip(traces, res):
        for clause, idx in errs:
            ev = tr['events'][idx - 1] if idx <= len(tr['events']) else {}
            # a launch failure of one bucket reported as FAILED for healthy pilots of other
            # buckets is a pilot ending 'for the wrong reason': it also serves C14
            if chk.pid == 'C14' and clause == 'C17.LaunchFailureLocal':
                clause = 'C14.LaunchFailureLocal'
            if clause.split('.')[0] != chk.pid:
                other[clause] = other.get(clause, 0) + 1
                continue
            if kind == 'resolve':
                chk.violation(clause, 'platform %s' % tr['name'],
                              '%s (schema %r) does not resolve: %s %s'
                              % (tr['name'], tr['schema'], clause, ev.get('err', '')),
                              {'rig': 'sizing', 'kind': 'resolve', 'name': tr['name'],
                               'schema': tr['schema'], 'errs': errs})
            elif kind == 'bulk':
                spec = [(p['plat'], p['schema']) for p in tr['pilots']]
                mixed = len(set(sc for _, sc in spec)) > 1
                cls = 'bulk of pilots naming %s' % ('different access schemas' if mixed else 'one access schema')
                if clause.split('.')[1].startswith(('Job', 'Launcher')):
                    # the launcher side: which launcher, alone in its bucket or not
                    pid  = ev.get('pid') or ev.get('tpid')
                    mate = [p for p in tr['pilots'] if p['pid'] == pid]
                    n    = len([p for p in tr['pilots'] if mate and p['bucket'] == mate[0]['bucket']])
                    cls  = 'launcher %s, %s' % (ev.get('by', 'any'),
                                                'several pilots in the bucket' if n > 1 else 'any bucket')
                chk.violation(clause, cls,
                              'real work() on bulk %s sizes %s launchers %s (failing bucket %d) violates %s: %s'
                              % (spec, tr.get('sizes'), tr.get('lset'), tr['fail'], clause,
                                 {k: v for k, v in ev.items() if k not in ('plat', 'size')}),
                              {'rig': 'sizing', 'kind': 'bulk', 'spec': spec, 'fail': tr['fail'],
                               'sizes': tr.get('sizes'), 'lset': tr.get('lset'), 'seed': tr.get('seed', 0),
                               'errs': errs, 'events': [{k: v for k, v in e.items()
                                                         if k not in ('plat', 'jd', 'agent', 'size')}
                                                        for e in tr['events']]})
            else:
                chk.violation(clause, size_class(tr['plat'], ev.get('size') or tr['events'][idx - 2]['size']),
                              'real _prepare_pilot%s for %s size %s violates %s (%s)'
                              % (' -> agent resource manager' if ev.get('ev') == 'AgentRM' else '',
                                 tr['plat']['name'], ev.get('size') or tr['events'][idx - 2]['size'],
                                 clause, ev.get('err', '')),
                              {'rig': 'sizing', 'kind': 'size', 'name': tr['plat']['name'],
                               'size': ev.get('size') or tr['events'][idx - 2]['size'], 'event': ev,
                               'errs': errs})
    for c, n in sorted(other.items()):
        chk.notes.append('%s: %s in %d events (code and model differ without breaking a C17 clause)'
                         % (note, c, n))


def resolve_all(rig):
    '''every shipped pair through the real get_resource_config (+ real factories)'''
    pairs, traces, rcfgs = [], [], {}
    for name, schema in rig.pairs():
        ev, rcfg = rig.resolve(name, schema)
        events = [ev]
        if rcfg is not None:
            events.append(rig.factories(ev, rcfg))
            rcfgs.setdefault(name, rcfg)
        pairs.append((name, schema, ev))
        traces.append(('resolve', (name, schema), {'kind': 'resolve', 'name': name, 'schema': schema,
                                                   'events': events}))
    return pairs, traces, rcfgs


# ------------------------------------------------------------------------------
def run(chk, tier, seed):
    quick = tier == 'quick'
    scope = QUICK if quick else THOROUGH
    w     = 8
    rig   = R.SizingRig()
    try:
        rig.load()
        dom = rig.domains()
        pairs, traces, rcfgs = resolve_all(rig)
        if len(pairs) < 100:
            raise Machinery('only %d (platform, schema) pairs found in the shipped configs' % len(pairs))
        plats = [R.SizingRig.platform(n, rcfgs[n]) for n in sorted(rcfgs)]
        known = [p for p in plats if p['cpn'] > 0]
        chk.notes.append('%d pairs of %d platforms; %d platforms resolve, %d of them with a known node size; '
                         'domains: %s' % (len(pairs), len(set(n for n, _, _ in pairs)), len(plats),
                                          len(known), {k: len(v) for k, v in dom.items()}))

        # ---- TLC on the generated constants: relation (a) + arithmetic (b) -------
        res = tlc.run('Sizing', 'MC', 'MC.cfg', workers=w, timeout=1500,
                      extra_files=mc_files(pairs, dom, known, scope, print_cases=True))
        chk.add_tlc(res, 'exhaustive:shipped')
        if not res.ok:
            raise Machinery('design model Sizing violates %s with all deviations off:\n%s'
                            % (res.violated, res.trace[:3000]))
        chk.exhaustive = True
        for v in sorted((tlc.parse_value(t) for t in tlc.extract_tuples(res.out, 'VERDICT')),
                        key=lambda v: (v[1], v[2])):
            for clause in sorted(v[3]):
                ev = [e for n, s, e in pairs if n == v[1] and s == v[2]][0]
                chk.violation(clause, 'platform %s' % v[1],
                              '%s (schema %r) does not resolve: %s %s' % (v[1], v[2], clause, ev['err']),
                              {'rig': 'sizing', 'kind': 'resolve', 'name': v[1], 'schema': v[2],
                               'errs': sorted(v[3])})
        sizes = {}
        for txt in tlc.extract_tuples(res.out, 'SIZE'):
            v = tlc.parse_value(txt)
            sizes.setdefault(v[1], []).append(
                {'nodes': v[2], 'cores': v[3], 'gpus': v[4], 'backup': v[5], 'smt': v[6]})
        if set(sizes) != set(p['name'] for p in known):
            raise Machinery('TLC printed sizes for %d of %d platforms' % (len(sizes), len(known)))

        # ---- deviation sensitivity + a configuration typo must be seen -----------
        if not quick:
            expect = [('DevFloorNodes', 'InvCovers'), ('DevBlockedIgnored', 'InvJobSized'),
                      ('DevBackupNotInJob', 'InvNodesGiven'), ('DevAgentToldRequest', 'InvAgentAgrees'),
                      ('DevSmtDropped', 'InvJobSized')]
            for dev, inv in expect:
                r2 = tlc.run('Sizing', 'MC', 'MC.cfg', workers=w, timeout=900,
                             extra_files=mc_files(pairs, dom, known, QUICK, devs=[dev], invariants=[inv]))
                chk.add_tlc(r2, 'deviation:' + dev)
                if r2.ok or r2.violated != inv:
                    raise Machinery('deviation %s not detected by the model (got %s)' % (dev, r2.violated))
                chk.notes.append('deviation %s breaks %s in the design model' % (dev, inv))
            good = [p for p in pairs if p[2]['ok']][0]
            for field, bad, clause in [('rm', 'SLRUM', 'C17.RMExists'), ('sched', 'CONTINOUS', 'C17.SchedulerExists'),
                                       ('spawner', 'POPEN2', 'C17.ExecutorExists'),
                                       ('agentcfg', 'defualt', 'C17.AgentConfigExists'),
                                       ('lms', ['SRUN', 'MPIRUM'], 'C17.LaunchMethodsExist')]:
                ev = dict(good[2])
                ev[field] = bad
                r2 = tlc.run('Sizing', 'MC', 'MC.cfg', workers=2, timeout=300,
                             extra_files=mc_files([('typo.' + field, '', ev)], dom, known[:1], QUICK,
                                                  invariants=['InvResolves']))
                chk.add_tlc(r2, 'typo:' + field)
                got = [tlc.parse_value(t) for t in tlc.extract_tuples(r2.out, 'VERDICT')]
                if r2.violated != 'InvResolves' or not got or clause not in got[0][3]:
                    raise Machinery('typo in %s not detected by the model (%s, %s)' % (field, r2.violated, got))
            chk.notes.append('typos in rm / scheduler / spawner / agent config / launch method break InvResolves')

        # ---- real _prepare_pilot for every platform x size ------------------------
        for p in known:
            events = []
            for s in sizes[p['name']]:
                events += rig.prepare(p['name'], rcfgs[p['name']], s, with_rm=(s['smt'] == 0))
            traces.append(('size', p['name'], {'kind': 'size', 'plat': p, 'events': events}))
            for s in sizes[p['name']]:
                chk.nontrivial.add((size_class(p, s), s['cores'] % max(p['cpn'], 1) == 0, s['gpus'] > 0))

        # ---- work(): bulks of pilots over mixed platforms / schemas ----------------------
        okp = [(n, sc) for n, sc, e in pairs if e['ok']]
        schemas_of = {}
        for n, sc, e in pairs:
            if e['ok']:
                schemas_of[n] = e['schemas']
        mixed = [c for c in MIXED if c in okp]
        if len(mixed) < 4:
            mixed = (mixed + [c for c in okp if c[1]])[:4]
        groups = [mixed[:4] if quick else mixed[:5]]
        if not quick:     # each platform with several schemas: all of them (and none) in one bulk
            for n in sorted(schemas_of):
                if len(schemas_of[n]) > 1:
                    groups.append([(n, '')] + [(n, sc) for sc in schemas_of[n]][:3])
        sub = {n: schemas_of[n] for g in groups for n, _ in g}
        scheme_of = {c: rig.expected_endpoints(*c)[0].split(':')[0].split('+') for g in groups for c in g}
        r3 = tlc.run('Sizing', 'MCB', 'MCB.cfg', workers=w, timeout=900,
                     extra_files=bulk_files(groups, sub, [1, 2, 3], scheme_of, print_cases=True))
        chk.add_tlc(r3, 'exhaustive:bulk')
        if not r3.ok:
            raise Machinery('design model SizingBulk violates %s with all deviations off:\n%s'
                            % (r3.violated, r3.trace[:3000]))
        cases = sorted(set((tuple(tuple(c) for c in v[1]), v[2], tuple(v[3]), tuple(v[4]), tuple(v[5]),
                            tuple(v[6]))
                           for v in (tlc.parse_value(t) for t in tlc.extract_tuples(r3.out, 'BULK'))))
        if not cases:
            raise Machinery('SizingBulk printed no bulks')
        if not quick:
            for dev, inv in [('DevStaleSchema', 'InvSchemaOfPilot'), ('DevFailAll', 'InvLaunchFailureLocal'),
                             ('DevSpecFromFirstPilot', 'InvJobSizedPerPilot'),
                             ('DevLauncherPerResource', 'InvLauncherCan')]:
                r4 = tlc.run('Sizing', 'MCB', 'MCB.cfg', workers=w, timeout=600,
                             extra_files=bulk_files(groups[:1], sub, [1, 2, 3], scheme_of, devs=[dev],
                                                    invariants=[inv]))
                chk.add_tlc(r4, 'deviation:' + dev)
                if r4.ok or r4.violated != inv:
                    raise Machinery('deviation %s not detected by the model (got %s)' % (dev, r4.violated))
                chk.notes.append('deviation %s breaks %s in the design model' % (dev, inv))
        chosen, nclasses = select_cases(cases, 260 if quick else 4000, seed)
        for k, case in enumerate(chosen):
            spec, fail, sizes, lset = case[:4]
            traces.append(('bulk', case, rig.bulk(spec, fail, sizes, lset, seed=seed * 100003 + k)))
            chk.nontrivial.add(('bulk',) + case_class(case))
        nogpu = jobs = 0
        for kind, _, tr in traces:
            if kind == 'bulk':
                own = {e['pid']: e['jd'] for e in tr['events'] if e['ev'] == 'BPrepared'}
                for e in tr['events']:
                    if e['ev'] == 'Job':
                        jobs += 1
                        if e['by'] == 'PSI_J' and own.get(e['pid'], {}).get('gpus', 0) > 0 and not e['req']['gpus']:
                            nogpu += 1
        chk.notes.append('%d jobs reached the batch system stand-ins; observation: %d PSI/J jobs of pilots with GPUs '
                         'carry no GPU request (ResourceSpecV1 is given node and process count only; whole nodes '
                         'are requested, so C17 holds)' % (jobs, nogpu))
        chk.notes.append('%d of %d TLC-chosen bulks of 1-3 pilots (%d classes: bucket pattern x launchers '
                         'installed / picked x size pattern or refused bucket) through the real work() and the real '
                         'PSI/J / SAGA launchers' % (len(chosen), len(cases), nclasses))
        chk.evaluations += sum(len(t[2]['events']) for t in traces)
    finally:
        rig.close()

    # ---- monitor on everything the real code returned ---------------------------------
    res, st = tracecheck.validate('Sizing', 'SizingTrace', dom_constants(dom), [t[2] for t in traces],
                                  max_batch=400, workers=4, timeout=1500)
    chk.states      += st['states']
    chk.transitions += st['transitions']
    chk.cmds.append(st['cmd'])
    chk.traces += len(traces)
    report(chk, traces, res, tier)
    for kind, key, tr in traces:
        if kind == 'resolve':
            e = tr['events'][0]
            chk.nontrivial.add((e['ok'], e['rm'], tuple(e['lms']), e['sched'], e['spawner'], e['agentcfg']))
    chk.sample({'resolve': traces[0][2]})
    szt = [t for t in traces if t[0] == 'size']
    if szt:
        chk.sample({'plat': szt[-1][2]['plat'], 'events': szt[-1][2]['events'][:3]})
    chk.assumptions += [
        'shipped configurations = resource_*.json / agent_*.json of the package as loaded by the real '
        'Session._init_cfg_from_scratch with an empty user configuration directory',
        'factory domains are the local table `impl` of each factory, read from its frame at check time; '
        'constructors are stubbed when the factories are called for the resolved names',
        'sandboxes of _prepare_pilot are fixed URLs; the agent config is read back from the file '
        '_prepare_pilot writes (mkstemp redirected to a scratch directory)',
        'pilot sizes pass PilotDescription.verify(): nodes or cores(+gpus), backup nodes only with nodes',
        'agent resource manager loop: faked allocation of exactly the requested nodes (Slurm node list, LSF '
        'host file with a batch node, PBSPro vnodes / node file, Fork virtual nodes), platform SMT only '
        '(no $RADICAL_SMT override); a Fork platform without fake_resources is looked at for one node only',
        'work(): staging, tar and ln call-outs are recorders; expected endpoints are read from the shipped '
        'schema the pilot names',
        'launchers: the real PMGRLaunchingComponent.__init__ (component base constructor stubbed) builds the '
        'real PilotLauncherPSIJ / PilotLauncherSAGA with the optional modules of the case installed; psij and '
        'radical.saga are recording stand-ins with the classes / signatures of psij 0.9 and radical.saga; a job '
        'counts as requested what the job object holds when it reaches JobExecutor.submit / Container.run; the '
        'batch system refuses the first job of one TLC-chosen bucket',
        'what a launcher can carry to the batch system is taken as designed: PSI/J node and process count '
        '(no GPU count), SAGA total cpu / gpu count and processes per host (node count left to SAGA)']


def replay(chk, obj):
    rig = R.SizingRig()
    try:
        rig.load()
        dom = rig.domains()
        if obj['kind'] == 'resolve':
            ev, rcfg = rig.resolve(obj['name'], obj['schema'])
            events = [ev] + ([rig.factories(ev, rcfg)] if rcfg is not None else [])
            traces = [('resolve', None, {'kind': 'resolve', 'name': obj['name'], 'schema': obj['schema'],
                                         'events': events})]
        elif obj['kind'] == 'bulk':
            traces = [('bulk', None, rig.bulk([tuple(c) for c in obj['spec']], obj['fail'], obj.get('sizes'),
                                              obj.get('lset') or R.LAUNCHER_ORDER, seed=obj.get('seed', 0)))]
        else:
            rcfg = None
            for n, sch in rig.pairs():
                if n == obj['name'] and rcfg is None:
                    ev, rcfg = rig.resolve(n, sch)
            if rcfg is None:
                raise Machinery('platform %s does not resolve' % obj['name'])
            p = R.SizingRig.platform(obj['name'], rcfg)
            traces = [('size', None, {'kind': 'size', 'plat': p,
                                      'events': rig.prepare(obj['name'], rcfg, obj['size'],
                                                            with_rm=(obj['size']['smt'] == 0))})]
    finally:
        rig.close()
    res, st = tracecheck.validate('Sizing', 'SizingTrace', dom_constants(dom), [t[2] for t in traces])
    chk.traces += 1
    chk.states += st['states']
    chk.transitions += st['transitions']
    chk.cmds.append(st['cmd'])
    report(chk, traces, res, 'replay')
