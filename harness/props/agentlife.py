'''
C14, second half (RightReason): the AgentLife design model (exhaustive TLC), TLC
behaviours of the model replayed as event sequences into the real Agent_0,
small-scope exhaustive and seeded random event sequences, every recorded trace
validated by the AgentLifeTrace monitor.

Faults DURING termination (OneFinalState): finalize() runs steps before it
publishes (stage_output with the real tar, usage report, log tails).  The model
chooses which steps fail (FinBegin(F)) and lets commands arrive while they run;
the rig turns F into what the sandbox holds / which helper raises (every kind
of fault x every termination cause is enumerated, TLC behaviours and random
scripts draw kinds at random).  Verdicts come from REAL conditions only (real tar
exiting non-zero, unreadable log tails, commands arriving meanwhile); runs in which
a helper is made to raise OSError (OS resource exhaustion) yield notes N.*.
'''

import re
import random
import shutil
import itertools

from .. import tlc, tracecheck
from ..core import Machinery
from ..rigs import agentlife_rig as A

INVARIANTS = ['TypeOK', 'InvOneFinalState', 'InvRightReason', 'InvSignal', 'InvBoot']
PROPERTIES = ['ActOthersIgnored', 'ActNotBeforeTime']
DEVS       = ['DevStopOverwrites', 'DevLateOverwrites']          # cause bookkeeping
DEVS_ALL   = DEVS + ['DevFinAbort']
EXPECT     = {'DevStopOverwrites': 'InvRightReason', 'DevLateOverwrites': 'InvRightReason',
              'DevFinAbort': 'InvOneFinalState'}
NFIN       = 3           # steps of finalize before the publication: 1 stage, 2 rusage, 3 tails

IDS = {'p0': A.ME, 'p1': A.OTHERS[0], 'p2': A.OTHERS[1]}


def mc_cfg(runtime, devs=(), maxnow=3, maxev=4, others=('p1',), invariants=None, props=None):
    c = ('CONSTANTS\n Runtime = %d\n MaxNow = %d\n Me = "p0"\n Others = {%s}\n MaxEvents = %d\n NFin = %d\n'
         % (runtime, maxnow, ', '.join('"%s"' % o for o in others), maxev, NFIN))
    for d in DEVS_ALL:
        c += ' %s = %s\n' % (d, 'TRUE' if d in devs else 'FALSE')
    c += 'SPECIFICATION Spec\nCHECK_DEADLOCK FALSE\n'
    for i in (INVARIANTS if invariants is None else invariants):
        c += 'INVARIANT %s\n' % i
    for p in (PROPERTIES if props is None else props):
        c += 'PROPERTY %s\n' % p
    return {'MC.cfg': c}


# ------------------------------------------------------------------------------
class Kinds(object):
    '''turns "steps F of finalize fail" into what the rig is to arrange; the number
       of runs which need the real tar is bounded (a run costs 20-40 ms)'''

    def __init__(self, rng, tar_budget):
        self.rng, self.tar = rng, tar_budget

    def opts(self, fail, during=()):
        rng, env, rs = self.rng, {}, []
        if 1 in fail:
            kind = rng.choice(['missing_file', 'missing_dir', 'empty', 'tgz_is_dir', 'missing_file', 'raise'])
            if self.tar <= 0:
                kind = 'raise'
            self.tar -= 1
            if kind == 'raise':
                env['list'] = 'ok'
                rs.append('sh_callout')
            else:
                env['list'] = kind
        else:
            env['list'] = rng.choice(['none'] * 5 + ['tgz_exists', 'ok' if self.tar > 0 else 'none'])
            if env['list'] == 'ok':
                self.tar -= 1
        # the usage report has no real way to fail: a raising helper (verdicts of such runs are notes
        # only, so it is drawn rarely not to mask the real faults of the same run)
        if 2 in fail and rng.random() < 0.3:
            rs.append('get_rusage')
        if 3 in fail:
            kind = rng.choice(['dir', 'binary', 'dir', 'binary', 'raise'])
            env['tails'] = 'files' if kind == 'raise' else kind
            if kind == 'raise':
                rs.append('ru_open')
        else:
            env['tails'] = rng.choice(['none', 'files'])
        o = {'env': env}
        if rs:
            o['raise'] = rs
        if during:
            o['during'] = [list(x) for x in during]
        return o


def script_from_behaviour(path, kinds):
    script, fin = [], None           # fin: [fail set, events during the steps] of a begun finalize
    for act, args, st in tlc.parse_sim_file(path):
        step = None
        if   act == 'Tick'         : step = ['tick', st['now']]
        elif act == 'LifetimeCheck': step = ['lifetime']
        elif act == 'CancelCmd'    : step = ['cancel', [IDS[u] for u in re.findall(r'"(\w+)"', args)]]
        elif act == 'TerminateCmd' : step = ['terminate']
        elif act == 'Stop'         : step = ['stop']
        elif act == 'FinBegin'     :
            fin = [sorted(int(x) for x in st['ffail']), []]
            if st['fph'] == 'aborted':               # only with DevFinAbort
                script.append(['finalize', kinds.opts(fin[0])])
                fin = None
        elif act == 'FinPublish'   :
            script.append(['finalize', kinds.opts(fin[0], fin[1])])
            fin = None
        elif act == 'Boot'         :
            # a finalize which had not published when the bootstrapper took over: the
            # agent was killed before the publication - as if it had not begun
            if fin:
                script.extend(fin[1])
                fin = None
            script.append(['boot'])
        if step:
            (fin[1] if fin else script).append(step)
    if fin:
        script.append(['finalize', kinds.opts(fin[0], fin[1])])
    if not script or script[-1] != ['boot']:
        script.append(['boot'])
    return script


ALPHABET = [('tick',), ('lifetime',), ('cancel', [A.ME]), ('cancel', [A.OTHERS[0]]),
            ('cancel', [A.OTHERS[0], A.ME]), ('terminate',), ('stop',)]


def feasible(runtime, seq):
    '''the idler calls _check_lifetime while it is registered and the agent is
       not stopped, plus at most once when it was already waiting for the lock'''
    now, lc, term, late = 0, True, False, 0
    for op in seq:
        if op[0] == 'tick':
            now += 1
        elif op[0] == 'lifetime':
            if not lc or (term and late):
                return False
            if term:
                late = 1
            if runtime and now >= runtime:
                lc, term = False, True
        elif op[0] == 'cancel':
            term = term or A.ME in op[1]
        else:
            term = True
    return True


def small_scope(maxlen, runtimes=(0, 1, 2)):
    for runtime in runtimes:
        for n in range(maxlen + 1):
            for seq in itertools.product(ALPHABET, repeat=n):
                if not feasible(runtime, seq):
                    continue
                script, now = [], 0
                for op in seq:
                    if op[0] == 'tick':
                        now += 1
                        script.append(['tick', now])
                    else:
                        script.append([op[0]] + [list(x) for x in op[1:]])
                yield runtime, script + [['finalize'], ['boot']]
        yield runtime, [['boot']]                      # the agent died before finalize


# every kind of fault of a step of finalize, one at a time
FAULT_KINDS = ([{'env': {'list': l}} for l in A.LISTS] +
               [{'env': {'list': 'ok'}, 'raise': ['sh_callout']},
                {'env': {'list': 'missing_file'}, 'raise': ['sh_callout']},
                {'raise': ['get_rusage']},
                {'env': {'tails': 'files'}}, {'env': {'tails': 'dir'}}, {'env': {'tails': 'binary'}},
                {'env': {'tails': 'files'}, 'raise': ['ru_open']}])
# a way to get to finalize for every termination cause: (runtime, events before)
CAUSES = [(0, []), (2, [['tick', 2], ['lifetime']]), (0, [['cancel', [A.ME]]]), (0, [['terminate']]),
          (0, [['stop']]), (0, [['cancel', [A.OTHERS[0]]]]),
          (2, [['tick', 2], ['lifetime'], ['cancel', [A.ME]]]),
          (2, [['cancel', [A.ME]], ['tick', 2], ['lifetime']])]
# commands which arrive while the steps of finalize run
DURING = [[['cancel', [A.ME]]], [['terminate']], [['cancel', [A.OTHERS[0]]]], [['tick', 2], ['lifetime']]]


def fault_matrix(thorough):
    # helpers of this tree's finalize() beyond the ones named above: each is a step which can raise
    extra = [{'env': {'list': 'ok', 'tails': 'files'}, 'raise': [h]}
             for h in A.helpers_of_finalize() if h not in A.STEP_OF]
    for runtime, pre in CAUSES:
        for kind in FAULT_KINDS + extra:
            yield runtime, pre + [['finalize', dict(kind)], ['boot']]
    for runtime, pre in ((0, []), (0, [['stop']]), (2, []), (2, [['terminate']])):
        for during in DURING:
            if during[-1] == ['lifetime'] and not runtime:
                continue
            for kind in ({}, {'env': {'list': 'missing_file'}}, {'env': {'tails': 'dir'}}):
                yield runtime, pre + [['finalize', dict(kind, during=during)], ['boot']]
    if thorough:
        for runtime, pre in CAUSES:
            for k1, k2 in itertools.combinations(FAULT_KINDS, 2):
                env = dict(k1.get('env', {}))
                if set(env) & set(k2.get('env', {})):
                    continue
                env.update(k2.get('env', {}))
                yield runtime, pre + [['finalize', {'env': env, 'raise': k1.get('raise', []) + k2.get('raise', [])}],
                                      ['boot']]


# ------------------------------------------------------------------------------
CLASSES = {'timeout': 'lifetime reached first', 'cancel': 'cancel naming this pilot first',
           'terminate': 'termination command first', 'stop': 'stop() first',
           'none': 'no decisive event'}


def first_reason(trace):
    for e in trace['events']:
        if e['ev'] == 'LifetimeCheck' and trace['runtime'] and e['now'] >= trace['runtime']:
            return 'timeout'
        if e['ev'] == 'CancelCmd' and trace['me'] in e['uids']:
            return 'cancel'
        if e['ev'] == 'TerminateCmd':
            return 'terminate'
        if e['ev'] == 'Stop':
            return 'stop'
    return 'none'


def faults_of(trace):
    return sorted(f for e in trace['events'] if e['ev'] == 'FinBegin' for f in e['faults'])


def classify(trace, clause):
    '''runs without a fault during termination: the termination cause; with
       faults: the failing step (the cause does not matter: known findings name
       the step) - a helper which raises before one which merely fails'''
    faults = faults_of(trace)
    raises = [f for f in faults if f.endswith(':raise')]
    if raises:
        return 'finalize: a helper of step %s raises' % raises[0].split(':')[0]
    if faults:
        return 'finalize: step %s fails (%s)' % tuple(faults[0].split(':'))
    return CLASSES[first_reason(trace)]


def validate(chk, inputs, boots):
    traces = [A.AgentLifeRig(inp['runtime'], inp['script'], boot=b).run()
              for inp, b in zip(inputs, boots)]
    res, st = tracecheck.validate('AgentLife', 'AgentLifeTrace', '', traces, max_batch=1500,
                                  timeout=1200)
    chk.states += st['states']
    chk.transitions += st['transitions']
    chk.cmds.append(st['cmd'])
    notes = {}
    for inp, tr, errs in zip(inputs, traces, res):
        chk.traces += 1
        kinds = tuple(e['ev'] for e in tr['events'])
        if first_reason(tr) != 'none' and len(kinds) > 2:
            chk.nontrivial.add((tr['runtime'] > 0, first_reason(tr), kinds, tuple(faults_of(tr))))
        bad = [e for e in errs if e.split('.')[0] == 'X']
        if bad:
            raise Machinery('agentlife rig produced a malformed trace: %s %s' % (bad, tr))
        # a helper made to raise OSError stands for resource exhaustion of the operating system
        # (EMFILE / EAGAIN): then the publication itself cannot be guaranteed either, which is more
        # than C14 states - what such a run shows is recorded as a note (N.*), not as a violation
        injected = [f for f in faults_of(tr) if f.endswith(':raise')]
        for err in errs:
            if err.split('.')[0] != chk.pid:
                continue
            if injected:
                key = 'N.%s / %s' % (err.split('.', 1)[1], classify(tr, err))
                notes[key] = notes.get(key, 0) + 1
                continue
            fin = [e for e in tr['events'] if e['ev'] == 'Finalize']
            what = 'real Agent_0: %s, final state %s' % (CLASSES[first_reason(tr)],
                                                         fin[0]['advanced'] if fin else '-')
            if faults_of(tr):
                what += '; during finalize: %s; finalize raised: %s; final states published: %d' % (
                    ', '.join(faults_of(tr)), fin[0]['raised'] if fin else '-', fin[0]['npub'] if fin else 0)
            chk.violation(err, classify(tr, err), what,
                          {'rig': 'agentlife', 'input': inp, 'errs': errs, 'trace': tr})
    for key in sorted(notes):
        chk.notes.append('%s: %d run(s) - a helper raising OSError (injected, stands for OS resource exhaustion) '
                         'leaves finalize() before killme.signal is written and the final state is published; '
                         'not a violation of C14' % (key, notes[key]))
    return traces, res


def run(chk, tier, seed):
    rng   = random.Random(seed * 15485863 + 14)
    quick = tier == 'quick'

    # ---- 1. design model, exhaustive ------------------------------------------
    for runtime in (0, 2):
        res = tlc.run('AgentLife', 'AgentLife', 'MC.cfg', workers=8, timeout=600,
                      extra_files=mc_cfg(runtime, maxev=4 if quick else 5,
                                         others=('p1',) if quick else ('p1', 'p2')))
        chk.add_tlc(res, 'exhaustive:runtime=%d' % runtime)
        if not res.ok:
            raise Machinery('design model AgentLife violates %s (intended design must hold):\n%s'
                            % (res.violated, res.trace[:3000]))
    chk.exhaustive = True

    # ---- 2. deviation sensitivity ----------------------------------------------
    if not quick:
        for dev in DEVS_ALL:
            res = tlc.run('AgentLife', 'AgentLife', 'MC.cfg', workers=8, timeout=600,
                          extra_files=mc_cfg(2, devs=[dev]))
            chk.add_tlc(res, 'deviation:' + dev)
            if res.violated != EXPECT[dev]:
                raise Machinery('deviation %s not detected by the model (got %s)' % (dev, res.violated))
            chk.notes.append('deviation %s breaks %s in the design model' % (dev, EXPECT[dev]))

    # ---- 3. TLC behaviours -> event sequences for the real agent ------------------
    inputs, boots, seen = [], [], set()
    kinds = Kinds(rng, 90 if quick else 1500)

    def add(kind, runtime, script, boot):
        k = repr((runtime, script))
        if k in seen:
            return
        seen.add(k)
        inputs.append({'kind': kind, 'runtime': runtime, 'script': script})
        boots.append(boot)

    for runtime in (0, 1, 2):
        dump = tlc.scratch('rpsim_')
        try:
            res = tlc.run('AgentLife', 'AgentLife', 'MC.cfg', workers=1, timeout=600,
                          simulate='num=%d' % (300 if quick else 8000), depth=16,
                          seed=rng.randrange(10 ** 6), dump_dir=dump,
                          extra_files=mc_cfg(runtime, devs=DEVS, others=('p1',), maxev=5,
                                             invariants=['TypeOK'], props=[]))
            chk.add_tlc(res, 'simulate:runtime=%d' % runtime)
            for f in tlc.sim_files(dump):
                add('tlc-behaviour', runtime, script_from_behaviour(f, kinds),
                    len(inputs) < (150 if quick else 3000))
        finally:
            shutil.rmtree(dump, ignore_errors=True)
    n_tlc = len(inputs)

    # ---- 4. small scope, exhaustive ---------------------------------------------------
    for runtime, script in small_scope(3 if quick else 4):
        add('small-scope', runtime, script, rng.random() < (0.05 if quick else 0.02))
    n_small = len(inputs) - n_tlc

    # ---- 4b. every kind of fault of a step of finalize x every termination cause ----------
    for runtime, script in fault_matrix(not quick):
        add('finalize-fault', runtime, script, rng.random() < (0.3 if quick else 0.1))
    n_fault = len(inputs) - n_tlc - n_small

    # ---- 5. seeded random sequences -----------------------------------------------------
    kinds = Kinds(rng, 30 if quick else 1500)
    for _ in range(300 if quick else 12000):
        runtime, script = A.random_script(rng, kinds)
        add('random', runtime, script, rng.random() < 0.1)
    n_rand = len(inputs) - n_tlc - n_small - n_fault

    # ---- 6. run the real agent, validate every trace --------------------------------------
    traces, res = validate(chk, inputs, boots)
    chk.evaluations = len(inputs)
    chk.notes.append('event sequences: %d from TLC behaviours, %d small-scope, %d fault-during-finalize matrix, '
                     '%d random; bootstrap tail evaluated for %d of them'
                     % (n_tlc, n_small, n_fault, n_rand, sum(1 for b in boots if b)))
    with_fault = [t for t in traces if faults_of(t)]
    chk.notes.append('finalize with a failing step: %d runs (%d with the real tar exiting non-zero, %d with a '
                     'helper raising, %d with commands arriving meanwhile); steps seen in finalize: %s'
                     % (len(with_fault),
                        sum(1 for t in with_fault if any(f.startswith('stage:') and not f.endswith(':raise')
                                                         for f in faults_of(t))),
                        sum(1 for t in with_fault if any(f.endswith(':raise') for f in faults_of(t))),
                        sum(1 for i_, t in zip(inputs, traces)
                            if any(st[0] == 'finalize' and len(st) > 1 and st[1].get('during')
                                   for st in i_['script'])),
                        sorted(set(x for t in traces for e in t['events'] if e['ev'] == 'FinBegin'
                                   for x in e.get('steps', [])))))
    if A.boot_fragment() is None:
        chk.notes.append('the tail of bootstrap_0.sh could not be isolated safely: Boot events skipped')
    for i in (0, n_tlc, n_tlc + n_small, n_tlc + n_small + 9):
        if i < len(traces):
            chk.sample({'input': inputs[i], 'events': traces[i]['events'][:8], 'verdict': res[i]})
    chk.assumptions += [
        'the timed callback (_check_lifetime) and the control subscriber callback of Agent_0 are '
        'serialised by the component callback lock: one event == one call',
        'a bare termination command / stop() (neither a lifetime nor a cancel naming this pilot) '
        'may end in CANCELED or FAILED',
        'the bootstrapper is represented by the last lines of bootstrap_0.sh which read '
        'killme.signal; the rest of the script is not executed',
        'faults during termination are REAL conditions of the steps finalize() runs BEFORE it publishes: what the '
        'sandbox holds for the real tar (listed file / directory missing, empty list, tarball cannot be created) and '
        'for the log tails (directory, not UTF-8), commands arriving meanwhile; the logger, the profiler and the '
        'publication itself (write of killme.signal, advance) do not fail',
        'helper functions of agent_0.py made to raise OSError (operating system resource exhaustion) are run as an '
        'extra dimension; what they show is reported as notes N.*, never as a violation: under that condition the '
        'publication cannot be guaranteed either and C14 does not speak about it']


def replay(chk, obj):
    inp = obj['input']
    validate(chk, [inp], [True])
