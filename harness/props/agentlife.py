'''
C14, second half (RightReason): the AgentLife design model (exhaustive TLC), TLC
behaviours of the model replayed as event sequences into the real Agent_0,
small-scope exhaustive and seeded random event sequences, every recorded trace
validated by the AgentLifeTrace monitor.
'''

import re
import random
import shutil
import itertools

from .. import tlc, tracecheck
from ..core import Machinery
from ..rigs import agentlife_rig as A

INVARIANTS = ['TypeOK', 'InvRightReason', 'InvSignal', 'InvBoot']
PROPERTIES = ['ActOthersIgnored', 'ActNotBeforeTime']
DEVS       = ['DevStopOverwrites', 'DevLateOverwrites']

IDS = {'p0': A.ME, 'p1': A.OTHERS[0], 'p2': A.OTHERS[1]}


def mc_cfg(runtime, devs=(), maxnow=3, maxev=4, others=('p1',), invariants=None, props=None):
    c = ('CONSTANTS\n Runtime = %d\n MaxNow = %d\n Me = "p0"\n Others = {%s}\n MaxEvents = %d\n'
         % (runtime, maxnow, ', '.join('"%s"' % o for o in others), maxev))
    for d in DEVS:
        c += ' %s = %s\n' % (d, 'TRUE' if d in devs else 'FALSE')
    c += 'SPECIFICATION Spec\nCHECK_DEADLOCK FALSE\n'
    for i in (INVARIANTS if invariants is None else invariants):
        c += 'INVARIANT %s\n' % i
    for p in (PROPERTIES if props is None else props):
        c += 'PROPERTY %s\n' % p
    return {'MC.cfg': c}


# ------------------------------------------------------------------------------
def script_from_behaviour(path):
    script = []
    for act, args, st in tlc.parse_sim_file(path):
        if   act == 'Tick'         : script.append(['tick', st['now']])
        elif act == 'LifetimeCheck': script.append(['lifetime'])
        elif act == 'CancelCmd'    : script.append(['cancel', [IDS[u] for u in re.findall(r'"(\w+)"', args)]])
        elif act == 'TerminateCmd' : script.append(['terminate'])
        elif act == 'Stop'         : script.append(['stop'])
        elif act == 'Finalize'     : script.append(['finalize'])
        elif act == 'Boot'         : script.append(['boot'])
    if not script or script[-1] != ['boot']:
        script.append(['boot'])
    return script


ALPHABET = [('tick',), ('lifetime',), ('cancel', [A.ME]), ('cancel', [A.OTHERS[0]]),
            ('cancel', [A.OTHERS[0], A.ME]), ('terminate',), ('stop',)]


def feasible(runtime, seq):
    '''the idler calls _check_lifetime while it is registered and the agent is
       not stopped, plus at most once when it was already waiting for the lock'''
    now, lc, term, late = 0, True, False, 0
    for op in seq:
        if op[0] == 'tick':
            now += 1
        elif op[0] == 'lifetime':
            if not lc or (term and late):
                return False
            if term:
                late = 1
            if runtime and now >= runtime:
                lc, term = False, True
        elif op[0] == 'cancel':
            term = term or A.ME in op[1]
        else:
            term = True
    return True


def small_scope(maxlen, runtimes=(0, 1, 2)):
    for runtime in runtimes:
        for n in range(maxlen + 1):
            for seq in itertools.product(ALPHABET, repeat=n):
                if not feasible(runtime, seq):
                    continue
                script, now = [], 0
                for op in seq:
                    if op[0] == 'tick':
                        now += 1
                        script.append(['tick', now])
                    else:
                        script.append([op[0]] + [list(x) for x in op[1:]])
                yield runtime, script + [['finalize'], ['boot']]
        yield runtime, [['boot']]                      # the agent died before finalize


# ------------------------------------------------------------------------------
CLASSES = {'timeout': 'lifetime reached first', 'cancel': 'cancel naming this pilot first',
           'terminate': 'termination command first', 'stop': 'stop() first',
           'none': 'no decisive event'}


def first_reason(trace):
    for e in trace['events']:
        if e['ev'] == 'LifetimeCheck' and trace['runtime'] and e['now'] >= trace['runtime']:
            return 'timeout'
        if e['ev'] == 'CancelCmd' and trace['me'] in e['uids']:
            return 'cancel'
        if e['ev'] == 'TerminateCmd':
            return 'terminate'
        if e['ev'] == 'Stop':
            return 'stop'
    return 'none'


def classify(trace, clause):
    return CLASSES[first_reason(trace)]


def validate(chk, inputs, boots):
    traces = [A.AgentLifeRig(inp['runtime'], inp['script'], boot=b).run()
              for inp, b in zip(inputs, boots)]
    res, st = tracecheck.validate('AgentLife', 'AgentLifeTrace', '', traces, max_batch=1500,
                                  timeout=1200)
    chk.states += st['states']
    chk.transitions += st['transitions']
    chk.cmds.append(st['cmd'])
    for inp, tr, errs in zip(inputs, traces, res):
        chk.traces += 1
        kinds = tuple(e['ev'] for e in tr['events'])
        if first_reason(tr) != 'none' and len(kinds) > 2:
            chk.nontrivial.add((tr['runtime'] > 0, first_reason(tr), kinds))
        bad = [e for e in errs if e.split('.')[0] == 'X']
        if bad:
            raise Machinery('agentlife rig produced a malformed trace: %s %s' % (bad, tr))
        for err in errs:
            if err.split('.')[0] != chk.pid:
                continue
            fin = [e for e in tr['events'] if e['ev'] == 'Finalize']
            chk.violation(err, classify(tr, err),
                          'real Agent_0: %s, final state %s' % (classify(tr, err),
                                                                 fin[0]['advanced'] if fin else '-'),
                          {'rig': 'agentlife', 'input': inp, 'errs': errs, 'trace': tr})
    return traces, res


def run(chk, tier, seed):
    rng   = random.Random(seed * 15485863 + 14)
    quick = tier == 'quick'

    # ---- 1. design model, exhaustive ------------------------------------------
    for runtime in (0, 2):
        res = tlc.run('AgentLife', 'AgentLife', 'MC.cfg', workers=8, timeout=600,
                      extra_files=mc_cfg(runtime, maxev=4 if quick else 5,
                                         others=('p1',) if quick else ('p1', 'p2')))
        chk.add_tlc(res, 'exhaustive:runtime=%d' % runtime)
        if not res.ok:
            raise Machinery('design model AgentLife violates %s (intended design must hold):\n%s'
                            % (res.violated, res.trace[:3000]))
    chk.exhaustive = True

    # ---- 2. deviation sensitivity ----------------------------------------------
    if not quick:
        for dev in DEVS:
            res = tlc.run('AgentLife', 'AgentLife', 'MC.cfg', workers=8, timeout=600,
                          extra_files=mc_cfg(2, devs=[dev]))
            chk.add_tlc(res, 'deviation:' + dev)
            if res.violated != 'InvRightReason':
                raise Machinery('deviation %s not detected by the model (got %s)' % (dev, res.violated))
            chk.notes.append('deviation %s breaks InvRightReason in the design model' % dev)

    # ---- 3. TLC behaviours -> event sequences for the real agent ------------------
    inputs, boots, seen = [], [], set()

    def add(kind, runtime, script, boot):
        k = repr((runtime, script))
        if k in seen:
            return
        seen.add(k)
        inputs.append({'kind': kind, 'runtime': runtime, 'script': script})
        boots.append(boot)

    for runtime in (0, 1, 2):
        dump = tlc.scratch('rpsim_')
        try:
            res = tlc.run('AgentLife', 'AgentLife', 'MC.cfg', workers=1, timeout=600,
                          simulate='num=%d' % (500 if quick else 8000), depth=14,
                          seed=rng.randrange(10 ** 6), dump_dir=dump,
                          extra_files=mc_cfg(runtime, devs=DEVS, others=('p1',), maxev=5,
                                             invariants=['TypeOK'], props=[]))
            chk.add_tlc(res, 'simulate:runtime=%d' % runtime)
            for f in tlc.sim_files(dump):
                add('tlc-behaviour', runtime, script_from_behaviour(f),
                    len(inputs) < (250 if quick else 3000))
        finally:
            shutil.rmtree(dump, ignore_errors=True)
    n_tlc = len(inputs)

    # ---- 4. small scope, exhaustive ---------------------------------------------------
    for runtime, script in small_scope(3 if quick else 4):
        add('small-scope', runtime, script, rng.random() < (0.1 if quick else 0.02))
    n_small = len(inputs) - n_tlc

    # ---- 5. seeded random sequences -----------------------------------------------------
    for _ in range(400 if quick else 12000):
        runtime, script = A.random_script(rng)
        add('random', runtime, script, rng.random() < 0.1)
    n_rand = len(inputs) - n_tlc - n_small

    # ---- 6. run the real agent, validate every trace --------------------------------------
    traces, res = validate(chk, inputs, boots)
    chk.evaluations = len(inputs)
    chk.notes.append('event sequences: %d from TLC behaviours, %d small-scope, %d random; '
                     'bootstrap tail evaluated for %d of them'
                     % (n_tlc, n_small, n_rand, sum(1 for b in boots if b)))
    if A.boot_fragment() is None:
        chk.notes.append('the tail of bootstrap_0.sh could not be isolated safely: Boot events skipped')
    for i in (0, n_tlc, n_tlc + n_small):
        if i < len(traces):
            chk.sample({'input': inputs[i], 'events': traces[i]['events'][:8], 'verdict': res[i]})
    chk.assumptions += [
        'the timed callback (_check_lifetime) and the control subscriber callback of Agent_0 are '
        'serialised by the component callback lock: one event == one call',
        'a bare termination command / stop() (neither a lifetime nor a cancel naming this pilot) '
        'may end in CANCELED or FAILED',
        'the bootstrapper is represented by the last lines of bootstrap_0.sh which read '
        'killme.signal; the rest of the script is not executed']


def replay(chk, obj):
    inp = obj['input']
    validate(chk, [inp], [True])
