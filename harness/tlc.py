'''
TLC driver: run model checking / simulation / trace validation in a scratch
directory and parse what TLC reports.
'''

import os
import re
import json
import glob
import time
import shutil
import tempfile
import subprocess

VERIF    = os.path.dirname(os.path.dirname(os.path.abspath(__file__)))
SPEC_DIR = os.path.join(VERIF, 'spec')
JAR      = '/opt/veriftools/tla/tla2tools.jar'


class TLCError(Exception):
    '''machinery failure (parse error, crash, timeout)'''


class TLCResult(object):

    def __init__(self):
        self.ok          = False     # no error reported by TLC
        self.generated   = 0
        self.distinct    = 0
        self.depth       = 0
        self.violated    = None      # name of invariant / property violated
        self.kind        = None      # invariant | action | temporal | deadlock | postcondition | assert
        self.trace       = ''        # TLC's counterexample text
        self.out         = ''
        self.coverage    = {}        # action name -> (distinct, taken)
        self.wall        = 0.0
        self.cmd         = ''
        self.prints      = []        # parsed PrintT values (strings)

    def summary(self):
        return {'ok': self.ok, 'generated': self.generated,
                'distinct': self.distinct, 'depth': self.depth,
                'violated': self.violated, 'kind': self.kind,
                'wall_s': round(self.wall, 2), 'cmd': self.cmd}


def scratch(prefix='rpverif_'):
    return tempfile.mkdtemp(prefix=prefix, dir=os.environ.get('RP_VERIF_TMP', '/tmp'))


def stage(spec, workdir, extra_files=None):
    '''copy spec/<spec>/*.tla|cfg and spec/common/*.tla into workdir'''
    for d in [os.path.join(SPEC_DIR, 'common'), os.path.join(SPEC_DIR, spec)]:
        if not os.path.isdir(d):
            continue
        for f in glob.glob(os.path.join(d, '*.tla')) + \
                 glob.glob(os.path.join(d, '*.cfg')):
            shutil.copy(f, workdir)
    for name, content in (extra_files or {}).items():
        with open(os.path.join(workdir, name), 'w') as fh:
            fh.write(content)


_RE_STATES = re.compile(r'(\d+) states generated, (\d+) distinct states found')
_RE_DEPTH  = re.compile(r'The depth of the complete state graph search is (\d+)')
_RE_SIMST  = re.compile(r'(\d+) states checked')
_RE_COV    = re.compile(r'^<(\w+) line \d+, col \d+ to line \d+, col \d+ of module (\w+)>: (\d+):(\d+)', re.M)


def run(spec, module, cfg, workers=16, timeout=600, simulate=None, depth=None,
        seed=None, coverage=False, env=None, extra_files=None, deque=False,
        keep=None, dump_dir=None, max_heap='4g', deadlock=None, workdir=None):
    '''
    spec     : directory under /verif/spec
    module   : module name (no .tla)
    cfg      : cfg file name (in spec dir or extra_files)
    simulate : None, or string such as 'num=1000' (TLC -simulate argument)
    dump_dir : with simulate: directory receiving one file per behaviour
    returns TLCResult; raises TLCError on machinery failure
    '''
    own = workdir is None
    wd  = workdir or scratch()
    res = TLCResult()
    try:
        stage(spec, wd, extra_files)
        meta = os.path.join(wd, 'meta')
        # TLC leaves an (empty) tlc-* directory in java.io.tmpdir per run: keep it inside our scratch
        jtmp = os.path.join(wd, 'jtmp')
        os.makedirs(jtmp, exist_ok=True)
        cmd  = ['java', '-XX:+UseParallelGC', '-Xmx%s' % max_heap, '-Djava.io.tmpdir=%s' % jtmp]
        if deque:
            cmd.append('-Dtlc2.tool.queue.IStateQueue=StateDeque')
        cmd += ['-cp', JAR + ':' + os.path.dirname(JAR) + '/CommunityModules-deps.jar',
                'tlc2.TLC', '-workers', str(workers), '-metadir', meta,
                '-noGenerateSpecTE', '-config', cfg]
        if coverage:
            cmd += ['-coverage', '1']
        if deadlock is False:
            cmd += ['-deadlock']
        if seed is not None:
            cmd += ['-seed', str(seed)]
        if simulate:
            sim = simulate
            if dump_dir:
                os.makedirs(dump_dir, exist_ok=True)
                sim = 'file=%s/tr,%s' % (dump_dir, simulate)
            cmd += ['-simulate', sim]
        if depth:
            cmd += ['-depth', str(depth)]
        cmd.append(module + '.tla')

        e = dict(os.environ)
        e.update(env or {})
        t0 = time.time()
        try:
            p = subprocess.run(cmd, cwd=wd, env=e, timeout=timeout,
                               stdout=subprocess.PIPE, stderr=subprocess.STDOUT)
            out = p.stdout.decode('utf-8', 'replace')
            rc  = p.returncode
        except subprocess.TimeoutExpired as ex:
            out = (ex.stdout or b'').decode('utf-8', 'replace')
            rc  = -9
            if not simulate:
                raise TLCError('TLC timeout after %ss: %s\n%s'
                               % (timeout, ' '.join(cmd), out[-2000:]))
        res.wall = time.time() - t0
        res.out  = out
        res.cmd  = ' '.join(cmd[cmd.index('tlc2.TLC'):])
        if keep:
            with open(keep, 'w') as fh:
                fh.write(out)

        m = None
        for m in _RE_STATES.finditer(out):
            pass
        if m:
            res.generated, res.distinct = int(m.group(1)), int(m.group(2))
        else:
            m = None
            for m in _RE_SIMST.finditer(out):
                pass
            if m:
                res.generated = res.distinct = int(m.group(1))
        m = _RE_DEPTH.search(out)
        if m:
            res.depth = int(m.group(1))

        for m in _RE_COV.finditer(out):
            res.coverage[m.group(1)] = (int(m.group(3)), int(m.group(4)))

        # errors
        if 'Error: Invariant' in out:
            m = re.search(r'Error: Invariant (\S+) is violated', out)
            res.violated, res.kind = (m.group(1) if m else '?'), 'invariant'
        elif 'Error: Action property' in out:
            m = re.search(r'Error: Action property (\S+) is violated', out)
            res.violated, res.kind = (m.group(1) if m else '?'), 'action'
        elif re.search(r'Error: Temporal property (\S+) was violated', out):
            m = re.search(r'Error: Temporal property (\S+) was violated', out)
            res.violated, res.kind = m.group(1), 'temporal'
        elif 'Temporal properties were violated' in out:
            res.violated, res.kind = 'temporal', 'temporal'
        elif 'Error: Deadlock reached' in out:
            res.violated, res.kind = 'deadlock', 'deadlock'
        elif 'Error: Postcondition' in out or 'postcondition' in out.lower() and 'violated' in out.lower():
            res.violated, res.kind = 'postcondition', 'postcondition'
        elif 'The first argument of Assert evaluated to FALSE' in out:
            res.violated, res.kind = 'assert', 'assert'

        if res.violated:
            i = out.find('Error:')
            res.trace = out[i:i + 20000]
            res.ok = False
        elif 'No error has been found' in out or \
             (simulate and rc in (0, -9) and 'Error' not in out) or \
             (simulate and 'Error' not in out):
            res.ok = True
        else:
            i = out.find('Error:')
            raise TLCError('TLC failed (rc=%s): %s\n%s\n...\n%s'
                           % (rc, ' '.join(cmd), out[i:i + 1500] if i >= 0 else '', out[-3000:]))
        return res
    finally:
        if own:
            shutil.rmtree(wd, ignore_errors=True)


def sany(spec, module):
    wd = scratch()
    try:
        stage(spec, wd)
        p = subprocess.run(['tla-sany', module + '.tla'], cwd=wd,
                           stdout=subprocess.PIPE, stderr=subprocess.STDOUT,
                           timeout=120)
        out = p.stdout.decode('utf-8', 'replace')
        ok  = p.returncode == 0 and 'error' not in out.lower().replace('errors: 0', '')
        return ok, out
    finally:
        shutil.rmtree(wd, ignore_errors=True)


# ------------------------------------------------------------------------------
# PrintT output parsing: values may be interleaved across workers and wrapped
# over several lines; we extract bracket-balanced <<"TAG", ...>> tuples.
#
def extract_tuples(out, tag):
    pat = re.compile(r'<<\s*"%s"' % re.escape(tag))
    res = []
    i   = 0
    while True:
        m = pat.search(out, i)
        if not m:
            break
        i = m.start()
        depth, j, in_str = 0, i, False
        while j < len(out):
            c = out[j]
            if in_str:
                if c == '\\':
                    j += 1
                elif c == '"':
                    in_str = False
            else:
                if c == '"':
                    in_str = True
                elif out.startswith('<<', j):
                    depth += 1
                    j += 1
                elif out.startswith('>>', j):
                    depth -= 1
                    j += 1
                    if depth == 0:
                        break
            j += 1
        res.append(out[i:j + 1])
        i = j + 1
    return res


# ------------------------------------------------------------------------------
# parse a TLA+ value printed by TLC into python (sets -> sorted lists / frozenset,
# sequences -> lists, records -> dicts, functions (a :> b @@ ...) -> dicts)
#
class _P(object):

    def __init__(self, s):
        self.s = s
        self.i = 0

    def ws(self):
        while self.i < len(self.s) and self.s[self.i] in ' \t\r\n':
            self.i += 1

    def peek(self, tok):
        self.ws()
        return self.s.startswith(tok, self.i)

    def eat(self, tok):
        self.ws()
        if not self.s.startswith(tok, self.i):
            raise ValueError('expected %r at %d: %r' % (tok, self.i, self.s[self.i:self.i + 40]))
        self.i += len(tok)

    def value(self):
        v = self.atom()
        # function constructors: a :> b @@ c :> d
        if self.peek(':>'):
            d = {}
            k = v
            while True:
                self.eat(':>')
                d[_hash(k)] = self.atom()
                if self.peek('@@'):
                    self.eat('@@')
                    k = self.atom()
                else:
                    break
            return d
        return v

    def atom(self):
        self.ws()
        s = self.s
        if self.peek('<<'):
            self.eat('<<')
            out = []
            while not self.peek('>>'):
                out.append(self.value())
                if self.peek(','):
                    self.eat(',')
            self.eat('>>')
            return out
        if self.peek('{'):
            self.eat('{')
            out = []
            while not self.peek('}'):
                out.append(self.value())
                if self.peek(','):
                    self.eat(',')
            self.eat('}')
            return TSet(out)
        if self.peek('[') :
            self.eat('[')
            d = {}
            while not self.peek(']'):
                self.ws()
                m = re.compile(r'[A-Za-z_0-9]+').match(s, self.i)
                k = m.group(0)
                self.i = m.end()
                self.eat('|->')
                d[k] = self.value()
                if self.peek(','):
                    self.eat(',')
            self.eat(']')
            return d
        if self.peek('('):
            self.eat('(')
            v = self.value()
            self.eat(')')
            return v
        if self.peek('"'):
            j = self.i + 1
            buf = []
            while s[j] != '"':
                if s[j] == '\\':
                    j += 1
                buf.append(s[j])
                j += 1
            self.i = j + 1
            return ''.join(buf)
        m = re.compile(r'-?\d+').match(s, self.i)
        if m:
            self.i = m.end()
            return int(m.group(0))
        m = re.compile(r'[A-Za-z_][A-Za-z_0-9]*').match(s, self.i)
        if m:
            self.i = m.end()
            w = m.group(0)
            if w == 'TRUE':
                return True
            if w == 'FALSE':
                return False
            return w
        raise ValueError('cannot parse at %d: %r' % (self.i, s[self.i:self.i + 40]))


class TSet(list):
    '''a TLA+ set (kept as list in TLC's print order)'''


def _hash(k):
    if isinstance(k, list):
        return tuple(_hash(x) for x in k)
    return k


def parse_value(text):
    p = _P(text)
    v = p.value()
    return v


# ------------------------------------------------------------------------------
# -simulate file=... dumps: one module per behaviour
#
_RE_ACT = re.compile(r'^\\\* <(\w+)(?:\((.*)\))? line \d+', re.M)


def parse_sim_file(path):
    '''returns list of (action, args_text, state_dict) for each step'''
    txt   = open(path).read()
    steps = []
    # split on STATE_n ==
    parts = re.split(r'^STATE_(\d+) == *$', txt, flags=re.M)
    # parts: [pre, n1, body1, n2, body2, ...]
    pre = parts[0]
    for k in range(1, len(parts), 2):
        body = parts[k + 1]
        # the action comment precedes the STATE line: it is at the end of `pre`
        m = None
        for m in _RE_ACT.finditer(pre):
            pass
        act, args = (m.group(1), m.group(2)) if m else ('Init', None)
        # body: conjunction list "/\ var = value" until blank line; the trailing
        # comment for the next state is after it
        idx = body.find('\n\n')
        conj = body if idx < 0 else body[:idx]
        pre  = body if idx < 0 else body[idx:]
        state = {}
        for mm in re.finditer(r'^/\\ (\w+) = (.*?)(?=^/\\ |\Z)', conj, flags=re.M | re.S):
            try:
                state[mm.group(1)] = parse_value(mm.group(2).strip())
            except Exception:
                state[mm.group(1)] = mm.group(2).strip()
        steps.append((act, args, state))
    return steps


def sim_files(dump_dir):
    return sorted(glob.glob(os.path.join(dump_dir, 'tr_*')))


def to_json_file(obj, path):
    with open(path, 'w') as fh:
        json.dump(obj, fh)
