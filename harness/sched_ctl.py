'''
Baton-passing deterministic thread controller.

Logical threads are real Python threads; each blocks at every *schedule point*
until the controller hands it the baton.  Exactly one logical thread runs at a
time, so an execution is fully determined by the sequence of thread choices.
Schedules come from a script (list of thread names, e.g. a TLC behaviour),
a seeded RNG, or exhaustive depth-first enumeration with replay.
'''

import threading


class Deadlock(Exception):
    pass


class Abort(BaseException):
    '''raised inside logical threads to unwind them'''


class CLock(object):
    '''instrumented mutex: acquire / release are schedule points'''

    def __init__(self, ctl, name, reentrant=False):
        self.ctl, self.name, self.owner, self.depth = ctl, name, None, 0
        self.reentrant = reentrant

    def acquire(self, blocking=True, timeout=-1):
        me = self.ctl.current()
        if me is None:                     # not under control (setup code)
            return True
        if self.reentrant and self.owner == me:
            self.depth += 1
            return True
        self.ctl.point('lock:%s' % self.name, wants=self)
        assert self.owner is None, 'controller granted a held lock'
        self.owner, self.depth = me, 1
        self.ctl.emit(me, 'Lock', lock=self.name)
        return True

    def release(self):
        me = self.ctl.current()
        if me is None:
            return
        if self.reentrant and self.depth > 1:
            self.depth -= 1
            return
        self.owner, self.depth = None, 0
        self.ctl.emit(me, 'Unlock', lock=self.name)

    def locked(self):
        return self.owner is not None

    __enter__ = acquire

    def __exit__(self, *a):
        self.release()


class _LT(object):
    def __init__(self, name, fn):
        self.name, self.fn = name, fn
        self.sem     = threading.Semaphore(0)
        self.state   = 'new'          # new | ready | running | done
        self.at      = None           # name of the point it is parked at
        self.wants   = None           # CLock it needs to continue
        self.error   = None
        self.thread  = None
        self.steps   = 0


class Controller(object):

    def __init__(self, chooser, emit=None, max_steps=5000):
        '''chooser(enabled_names, ctl) -> name'''
        self.chooser   = chooser
        self._emit     = emit
        self.threads   = {}
        self.order     = []
        self.back      = threading.Semaphore(0)
        self.tls       = threading.local()
        self.choices   = []           # (enabled, chosen)
        self.max_steps = max_steps
        self.aborting  = False
        self.nsteps    = 0

    def emit(self, who, ev, **kw):
        if self._emit:
            self._emit(who, ev, **kw)

    def current(self):
        return getattr(self.tls, 'name', None)

    def spawn(self, name, fn):
        lt = _LT(name, fn)
        self.threads[name] = lt
        self.order.append(name)

        def body():
            self.tls.name = name
            lt.sem.acquire()               # wait for first baton
            try:
                if not self.aborting:
                    fn()
            except Abort:
                pass
            except BaseException as e:     # noqa
                lt.error = e
            lt.state = 'done'
            self.back.release()
        lt.thread = threading.Thread(target=body, daemon=True)
        lt.state  = 'ready'
        lt.at     = 'start'
        lt.thread.start()

    # called by logical threads
    def point(self, name, wants=None):
        me = self.current()
        if me is None:
            return
        lt = self.threads[me]
        lt.at, lt.wants, lt.state = name, wants, 'ready'
        self.back.release()                # baton back to the controller
        lt.sem.acquire()                   # wait to be chosen again
        if self.aborting:
            raise Abort()
        lt.state, lt.wants = 'running', None

    def enabled(self):
        out = []
        for n in self.order:
            lt = self.threads[n]
            if lt.state != 'ready':
                continue
            if lt.wants is not None and lt.wants.owner is not None:
                continue
            out.append(n)
        return out

    def run(self):
        while True:
            en = self.enabled()
            if not en:
                if all(self.threads[n].state == 'done' for n in self.order):
                    break
                raise Deadlock('threads blocked: %s'
                               % {n: (self.threads[n].state, self.threads[n].at)
                                  for n in self.order})
            self.nsteps += 1
            if self.nsteps > self.max_steps:
                self.abort()
                raise Deadlock('step limit')
            ch = self.chooser(en, self)
            if ch is None:
                break
            self.choices.append((tuple(en), ch))
            lt = self.threads[ch]
            lt.state = 'running'
            lt.steps += 1
            lt.sem.release()
            self.back.acquire()
        self.abort()
        for n in self.order:
            if self.threads[n].error is not None:
                raise self.threads[n].error

    def abort(self):
        self.aborting = True
        for n in self.order:
            lt = self.threads[n]
            if lt.state in ('ready', 'new'):
                lt.sem.release()
        for n in self.order:
            self.threads[n].thread.join(timeout=5)


# ------------------------------------------------------------------------------
# choosers
def scripted(script, fallback=None):
    '''follow a list of thread names; names that are not enabled are skipped'''
    it = list(script)

    def ch(en, ctl):
        while it:
            n = it.pop(0)
            if n in en:
                return n
        if fallback:
            return fallback(en, ctl)
        return en[0]
    return ch


def randomised(rng):
    def ch(en, ctl):
        return en[rng.randrange(len(en))]
    return ch


def explore(make_run, max_runs=100000, preempt_bound=None):
    '''
    exhaustive DFS over schedules: make_run(chooser) executes one run from
    scratch and returns (controller, result).  Yields results.

    With preempt_bound = k only schedules with at most k preemptions are
    enumerated (a preemption = switching away from a thread that could have
    continued); switches at points where the running thread is blocked or done
    are free.
    '''
    prefix = []
    runs   = 0
    while True:
        st = {'pos': 0, 'last': None, 'used': 0, 'widths': []}

        def ch(en, ctl, prefix=prefix, st=st):
            last = st['last']
            if last in en:
                opts = [last] + [n for n in en if n != last]
                width = len(opts) if (preempt_bound is None or st['used'] < preempt_bound) else 1
            else:
                opts, width = list(en), len(en)
            i = st['pos']
            st['pos'] += 1
            if i < len(prefix):
                k = prefix[i]
                assert k < width, 'non-deterministic replay'
            else:
                prefix.append(0)
                k = 0
            st['widths'].append(width)
            if last in en and k > 0:
                st['used'] += 1
            st['last'] = opts[k]
            return opts[k]
        ctl, res = make_run(ch)
        runs += 1
        yield res
        widths = st['widths']
        del prefix[len(widths):]
        while prefix and prefix[-1] + 1 >= widths[len(prefix) - 1]:
            prefix.pop()
        if not prefix or runs >= max_runs:
            return
        prefix[-1] += 1
