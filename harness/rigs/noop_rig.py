'''
NOOP executor rig: the REAL NOOP executor (agent/executing/noop.py) under the
baton controller (harness/sched_ctl.py).  Logical threads:

  intake   : work(bulk) for each accepted bulk (work -> _handle_task, error path)
  watcher  : the real _collect loop
  control  : _control_cb(cancel_tasks) -> NOOP.control_cb (which ignores it)

The process of the Popen executor is replaced by task['deadline'] on a virtual
clock: time.time() of noop.py reads it, time.sleep(d) advances it by d.

Schedule points sit at every access to state shared between the threads:
_tasks_lock, _tasks (extend / iteration / replacement), task['deadline'],
time.time / time.sleep, publish, advance.  One event is recorded per point
(after the operation) for NoopTrace.tla.

Launch errors are injected through the profiler the real code calls:
  fault 'pre'  : prof('task_start')     raises (work(), before _handle_task sets the deadline)
  fault 'post' : prof('task_run_start') raises (inside _handle_task, after the deadline is set)
  fault 'descr': the description has no usable 'executable' (None): the real
                 `'sleep' in td['executable']` raises TypeError inside _handle_task
'''

import random

from unittest import mock

from .. import rpshim
from .. import sched_ctl as SC

rp  = rpshim.load()
ru  = __import__('radical.utils', fromlist=['x'])
rps = rp.states
rpc = rp.constants

from radical.pilot.agent.executing import noop as nmod

T0 = 100


class LaunchError(Exception):
    pass


class Scenario(object):
    '''
    tasks  : list of dict(uid, dur=int|None, fault in {none, pre, post, descr})
             dur None: executable without 'sleep' (deadline = now);
             dur <= 0: `sleep <dur>`: deadline already expired at launch
    bulks  : list of uid lists (intake bulks, in order)
    cancels: list of uid lists (one control message each; NOOP ignores them)
    '''
    def __init__(self, tasks, bulks=None, cancels=()):
        self.tasks   = tasks
        self.bulks   = bulks or [[t['uid']] for t in tasks]
        self.cancels = [list(c) for c in cancels]

    def as_dict(self):
        return {'tasks': self.tasks, 'bulks': self.bulks, 'cancels': self.cancels}


class NoopRig(object):

    def __init__(self, scn, chooser, max_steps=4000, mutate=None):
        self.scn      = scn
        self.events   = []
        self.ctl      = SC.Controller(chooser, emit=self.emit, max_steps=max_steps)
        self.now      = float(T0)
        self.spec     = {t['uid']: t for t in scn.tasks}
        self.accepted = []
        self.finished_threads = set()
        self.mutate   = mutate          # callable(rig) applied after the build (mutation demo)
        self._last_scan = {}
        self._build()

    # ----------------------------------------------------------------------
    def clock(self):
        assert self.now == int(self.now), 'virtual clock left the integer grid'
        return int(self.now)

    def emit(self, who, ev, **kw):
        e = {'who': who, 'ev': ev, 'uid': kw.pop('uid', 'none'), 'clock': self.clock()}
        e.update(kw)
        if ev == 'ScanTasks':           # what this thread saw when it iterated _tasks
            self._last_scan[who] = list(kw['uids'])
        self.events.append(e)

    def point(self, name, wants=None):
        self.ctl.point(name, wants=wants)

    def raw_tasks(self):
        return list(list.__iter__(self.ex.__dict__['_tasks_']))

    # ----------------------------------------------------------------------
    def _build(self):
        rig = self
        ctl = self.ctl

        class TDict(dict):
            '''task dict: accesses to 'deadline' are schedule points'''
            def __getitem__(self, k):
                if k == 'deadline' and ctl.current():
                    rig.point('get_deadline')
                    try:
                        v = dict.__getitem__(self, k)
                    except KeyError:
                        rig.emit(ctl.current(), 'GetDeadline', uid=dict.__getitem__(self, 'uid'),
                                 present=False)
                        raise
                    rig.emit(ctl.current(), 'GetDeadline', uid=dict.__getitem__(self, 'uid'),
                             present=True)
                    return v
                return dict.__getitem__(self, k)

            def __setitem__(self, k, v):
                if k == 'deadline' and ctl.current():
                    rig.point('set_deadline')
                    dict.__setitem__(self, k, v)
                    rig.emit(ctl.current(), 'SetDeadline', uid=dict.__getitem__(self, 'uid'))
                    return
                dict.__setitem__(self, k, v)

        class TList(list):
            '''NOOP._tasks'''
            def extend(self, other):
                other = list(other)
                rig.point('tasks_extend')
                list.extend(self, other)
                rig.emit(ctl.current(), 'InsertTasks', uids=[t['uid'] for t in other])

            def __iter__(self):
                if ctl.current():
                    rig.point('tasks_scan')
                    rig.emit(ctl.current(), 'ScanTasks',
                             uids=[t['uid'] for t in list.__iter__(self)])
                return list.__iter__(self)

        class _NOOP(nmod.NOOP):
            '''the real class; `_tasks` is a property so that the *replacement* of the
               list by _collect (`self._tasks = to_continue`) is a schedule point too'''
            @property
            def _tasks(self):
                return self.__dict__['_tasks_']

            @_tasks.setter
            def _tasks(self, v):
                if not ctl.current():
                    self.__dict__['_tasks_'] = TList(v)
                    return
                rig.point('tasks_swap')
                old  = [t['uid'] for t in list.__iter__(self.__dict__['_tasks_'])]
                kept = [t['uid'] for t in v]
                self.__dict__['_tasks_'] = TList(v)
                # removed = what the caller takes out: everything it saw and does not keep
                seen = rig._last_scan.get(ctl.current(), old)
                rig.emit(ctl.current(), 'SwapTasks', kept=kept,
                         removed=[u for u in seen if u not in kept])

        class Prof(object):
            '''profiler / logger stand-in which can fail at a given profile event'''
            def prof(self, event, uid=None, **kw):
                f = rig.spec.get(uid, {}).get('fault')
                if f == 'pre' and event == 'task_start':
                    # the launch fails before _handle_task is entered: no deadline on the task
                    rig.emit(ctl.current(), 'Handle', uid=uid, ok=False, hasdl=False, dl=0)
                    raise LaunchError('cannot launch %s' % uid)
                if f == 'post' and event == 'task_run_start':
                    raise LaunchError('cannot launch %s' % uid)
            def __getattr__(self, name):
                return lambda *a, **k: None

        class Term(object):
            def is_set(self):
                return rig.all_settled()

        class Pub(object):
            def put(self, topic, msg):
                pass

        class Out(object):
            channel = 'agent_staging_output_queue'
            def __init__(self):
                self.got = []
            def put(self, things, qname=None):
                self.got.append([t['uid'] for t in ru.as_list(things)])

        ex = _NOOP.__new__(_NOOP)
        self.ex = ex
        ex._uid  = 'agent.executing.0'
        ex._log  = rpshim.NullLog()
        ex._prof = Prof()
        ex._cfg  = ru.Config(from_dict={})
        ex._session = mock.Mock()
        ex._terminate  = Term()
        ex._tasks_lock = SC.CLock(ctl, 'tasks', reentrant=True)
        ex._tasks      = list()
        ex._delay      = 1.0
        ex._cancel_lock = SC.CLock(ctl, 'cancel', reentrant=True)
        ex._cancel_list = list()
        self.out = Out()
        ex._publishers = {rpc.STATE_PUBSUB: Pub(), rpc.AGENT_UNSCHEDULE_PUBSUB: Pub()}
        ex._outputs    = {rps.AGENT_STAGING_OUTPUT_PENDING: self.out}
        ex._inputs  = dict()
        ex._workers = dict()

        real_publish = ex.publish
        def _publish(pubsub, msg, topic=None):
            if pubsub == rpc.AGENT_UNSCHEDULE_PUBSUB:
                rig.point('publish')
                real_publish(pubsub, msg, topic)
                rig.emit(ctl.current(), 'PubUnsched', uids=[t['uid'] for t in ru.as_list(msg)])
            else:
                real_publish(pubsub, msg, topic)
        ex.publish = _publish

        real_adv = ex.advance
        def _adv(things, state=None, publish=True, push=False, **kw):
            tl = ru.as_list(things)
            rig.point('advance')
            real_adv(things, state, publish=publish, push=push, **kw)
            for t in tl:
                rig.emit(ctl.current(), 'Adv', uid=t['uid'], state=t['state'], push=bool(push),
                         target=str(t.get('target_state') or 'none'))
        ex.advance = _adv

        real_handle = ex._handle_task
        def _handle(task):
            ok = False
            try:
                real_handle(task)
                ok = True
            finally:
                d = dict.get(task, 'deadline')
                if d is not None:
                    assert d == int(d), 'deadline left the integer grid'
                rig.emit(ctl.current(), 'Handle', uid=task['uid'], ok=ok,
                         hasdl=d is not None, dl=int(d) if d is not None else 0)
        ex._handle_task = _handle

        self.TDict = TDict
        self.tasks = {}
        for t in self.scn.tasks:
            if t.get('dur') is None:
                d = {'uid': t['uid'], 'executable': '/bin/true'}
            else:
                d = {'uid': t['uid'], 'executable': '/bin/sleep', 'arguments': [str(t['dur'])]}
            td = rp.TaskDescription(d)
            td.verify()
            descr = td.as_dict()
            if t['fault'] == 'descr':
                descr['executable'] = None
            task = TDict({'uid': t['uid'], 'type': 'task', 'state': rps.AGENT_EXECUTING_PENDING,
                          'origin': 'client', 'description': descr,
                          'task_sandbox_path': '/sbox/' + t['uid'],
                          'slots': [{'node_index': 0, 'node_name': 'n0', 'cores': [0],
                                     'gpus': [], 'lfs': 0, 'mem': 0}]})
            self.tasks[t['uid']] = task

        if self.mutate:
            self.mutate(self)

    # ----------------------------------------------------------------------
    def all_settled(self):
        '''nothing is left for the watcher: intake and control are done, _tasks is empty'''
        return 'intake' in self.finished_threads and 'control' in self.finished_threads \
               and not self.raw_tasks()

    def watcher_has_work(self):
        return bool(self.raw_tasks()) or self.all_settled()

    def idle_point(self, name):
        rig = self

        class Lazy(object):
            @property
            def owner(s):
                return None if rig.watcher_has_work() else 'idle'
        self.ctl.point(name, wants=Lazy())

    # ----------------------------------------------------------------------
    def run(self):
        rig, ex, ctl = self, self.ex, self.ctl

        class VTime(object):
            '''time module seen by noop.py: the virtual clock'''
            @staticmethod
            def time():
                if ctl.current():
                    rig.point('clock')
                return rig.now
            @staticmethod
            def sleep(d):
                # a polling watcher which found nothing continues only when there is
                # something for it to look at (no stuttering schedules)
                rig.idle_point('sleep')
                rig.now += d
                rig.emit(ctl.current(), 'Sleep')

        def intake():
            for bulk in rig.scn.bulks:
                rig.point('intake_get')
                tasks = [rig.tasks[u] for u in bulk]
                rig.accepted.extend(bulk)
                for u in bulk:
                    rig.emit('intake', 'Accept', uid=u)
                ex.work(tasks)
            rig.finished_threads.add('intake')

        def watcher():
            ex._collect()

        def control():
            for uids in rig.scn.cancels:
                rig.point('ctrl_recv')
                rig.emit('control', 'CancelMsg', uids=list(uids))
                ex._control_cb(rpc.CONTROL_PUBSUB, {'cmd': 'cancel_tasks',
                                                    'arg': {'uids': list(uids)}})
            rig.finished_threads.add('control')

        ctl.spawn('intake', intake)
        ctl.spawn('watcher', watcher)
        if self.scn.cancels:
            ctl.spawn('control', control)
        else:
            self.finished_threads.add('control')

        err = None
        with mock.patch.object(nmod, 'time', VTime):
            try:
                ctl.run()
            except SC.Deadlock as e:
                err = 'deadlock: %s' % e
            except Exception as e:              # an exception escaped a logical thread
                err = 'exception: %r' % e
        self.emit('rig', 'End', settled=bool(self.all_settled()), error=err or 'none',
                  accepted=list(self.accepted), tasks=[t['uid'] for t in self.raw_tasks()],
                  pushed=self.out.got)
        return self.trace()

    def trace(self):
        return {'uids': [t['uid'] for t in self.scn.tasks],
                'spec': {t['uid']: {'dur': -99 if t.get('dur') is None else int(t['dur']),
                                    'fault': t['fault']} for t in self.scn.tasks},
                'named': sorted(set(u for c in self.scn.cancels for u in c)),
                'events': self.events,
                'schedule': [c for _, c in self.ctl.choices]}


# ------------------------------------------------------------------------------
def random_scenario(rng, n=None):
    n = n or rng.randint(2, 5)
    tasks = []
    for i in range(n):
        x = rng.random()
        fault = 'none' if x < 0.7 else rng.choice(['pre', 'post', 'descr'])
        tasks.append({'uid': 't%d' % (i + 1), 'dur': rng.choice([None, -1, 0, 1, 2, 3]),
                      'fault': fault})
    uids, bulks = [t['uid'] for t in tasks], []
    while uids:
        k = rng.randint(1, min(3, len(uids)))
        bulks.append(uids[:k])
        uids = uids[k:]
    cancels = [rng.sample([t['uid'] for t in tasks], 1)] if rng.random() < 0.3 else []
    return Scenario(tasks, bulks, cancels)
