'''
NodeAlloc rig: drives the REAL application-level placement API of
radical.pilot.resource_config (RO, RankRequirements, Slot, Node, NodeList)
and records one event per call for NodeAllocTrace.tla.

The API is a sequential library: the linearization point of a call is its
return; an event is logged after every call, also when the call raised.  The
node list is built the way `Pilot.nodelist` builds it from the resource
manager's `node_list` (dicts with name / index / cores / gpus / lfs / mem,
blocked resources DOWN == None -> `Node(dict)` -> `NodeList(nodes=...)` ->
`verify()`).

Operations (python tuples, JSON-able):
  ('find',    holder, rr, n)   nodelist.find_slots(RankRequirements(..), n_slots=n)
  ('alloc',   holder, sup)     nodelist.nodes[sup.at].allocate_slot(Slot(..))   (_check=True)
  ('release', holder)          nodelist.release_slots(<all slots of the holder>)
(ConcRig below runs the same operations in several logical threads sharing one
NodeList, under the baton controller of harness/sched_ctl.py.)
rr  = dict(nc, co, ng, go, lfs, mem)      co / go in share units (su == whole)
sup = dict(at, node, name, cores=[[index, units], ..], gpus=[[..]], lfs, mem)
      name: 'ok' (the name of node `node`) or any other string
'''

import copy

from unittest import mock

from .. import rpshim
from .. import sched_ctl

rp = rpshim.load()

from radical.pilot.resource_config import RankRequirements, Slot, Node, NodeList
from radical.pilot.constants import FREE, DOWN

DOWNV  = 9999
NOINFO = -7777


class Layout(object):
    '''nn nodes x nc cores x ng gpus, lfs / mem per node (lfs None: the nodes carry
       no lfs / mem information), blocked cores / gpus (DOWN), share unit su,
       ids: index attribute of the nodes in list order (default 0 .. nn-1),
       verify: call NodeList.verify() after construction as Pilot.nodelist does'''

    def __init__(self, nn=2, nc=2, ng=1, lfs=2, mem=2, bc=(), bg=(), su=4, ids=None,
                 verify=True):
        self.nn, self.nc, self.ng, self.lfs, self.mem = nn, nc, ng, lfs, mem
        self.bc, self.bg, self.su = tuple(bc), tuple(bg), su
        self.ids    = tuple(ids) if ids is not None else tuple(range(nn))
        self.verify = verify
        assert len(self.ids) == nn and list(self.ids) == sorted(set(self.ids))
        if lfs is None or mem is None:
            self.lfs = self.mem = None

    @property
    def info(self):
        return self.lfs is not None

    def key(self):
        return (self.ids, self.nc, self.ng, self.lfs, self.mem, self.bc, self.bg, self.su)

    def as_dict(self):
        return dict(nn=self.nn, nc=self.nc, ng=self.ng, lfs=self.lfs if self.info else 'none',
                    mem=self.mem if self.info else 'none', bc=list(self.bc), bg=list(self.bg),
                    su=self.su, ids=list(self.ids), verify=self.verify)

    @staticmethod
    def from_dict(d):
        d = dict(d)
        if d.get('lfs') == 'none':
            d['lfs'] = d['mem'] = None
        return Layout(**d)

    def cfg_constants(self):
        def s(x):
            return '{' + ', '.join(str(i) for i in x) + '}'
        return ('NodeIds = %s\n NCores = %d\n NGpus = %d\n LfsCap = %d\n MemCap = %d\n'
                ' HasLfs = %s\n BlockedCores = %s\n BlockedGpus = %s\n SU = %d\n'
                % (s(self.ids), self.nc, self.ng, self.lfs or 0, self.mem or 0,
                   'TRUE' if self.info else 'FALSE', s(self.bc), s(self.bg), self.su))

    def name(self, idx):
        return 'node_%05d' % idx

    def node_dicts(self):
        '''the resource manager's node_list (rm_info.node_list / resource_details)'''
        out = []
        for i in self.ids:
            d = {'name' : self.name(i),
                 'index': i,
                 'cores': [DOWN if c in self.bc else FREE for c in range(self.nc)],
                 'gpus' : [DOWN if g in self.bg else FREE for g in range(self.ng)]}
            if self.info:
                d['lfs'] = self.lfs
                d['mem'] = self.mem
            out.append(d)
        return out


def rr(nc=1, co=None, ng=0, go=None, lfs=0, mem=0, su=4):
    return dict(nc=nc, co=su if co is None else co, ng=ng, go=su if go is None else go,
                lfs=lfs, mem=mem)


def sup(at, node, cores, gpus=(), lfs=0, mem=0, name='ok'):
    return dict(at=at, node=node, name=name, cores=[list(c) for c in cores],
                gpus=[list(g) for g in gpus], lfs=lfs, mem=mem)


class NodeAllocRig(object):

    def __init__(self, lay):
        self.lay = lay
        # as Pilot.nodelist: nodes = [Node(node) for node in node_list]
        nodes = [Node(copy.deepcopy(d)) for d in lay.node_dicts()]
        self.nl = NodeList(nodes=nodes)
        if lay.verify:
            self.nl.verify()
        self.slots   = {}        # holder -> list of real Slot objects
        self.events  = []
        self.holders = []
        self.exact   = True

    # --------------------------------------------------------------------------
    # projections (nothing of the code's logic in here: read the attributes)
    def _units(self, occ):
        if occ is DOWN:
            return DOWNV
        v  = occ * self.lay.su
        iv = int(round(v))
        if abs(v - iv) > 1e-9:
            self.exact = False
        return iv

    def proj_nodes(self):
        out = []
        for node in self.nl.nodes:
            out.append({'id'   : int(node.index),
                        'cores': [self._units(ro.occupation) for ro in node.cores],
                        'gpus' : [self._units(ro.occupation) for ro in node.gpus],
                        'lfs'  : NOINFO if node.lfs is None else int(node.lfs),
                        'mem'  : NOINFO if node.mem is None else int(node.mem)})
        return out

    def proj_slots(self, slots):
        out = []
        for s in slots or []:
            def pairs(ros):
                acc = {}
                for ro in ros:
                    acc[int(ro.index)] = acc.get(int(ro.index), 0) + self._units(ro.occupation)
                return [[i, acc[i]] for i in sorted(acc)]
            idx = int(s.node_index)
            out.append({'node'   : idx,
                        'name_ok': bool(idx in self.lay.ids and s.node_name == self.lay.name(idx)),
                        'cores'  : pairs(s.cores), 'gpus': pairs(s.gpus),
                        'lfs'    : int(s.lfs), 'mem': int(s.mem)})
        return out

    def log(self, ev, **kw):
        e = {'ev': ev}
        e.update(kw)
        e['nodes'] = self.proj_nodes()
        e['index'] = int(self.nl.__index__)
        e['exact'] = bool(self.exact)
        self.events.append(e)
        return e

    def _holder(self, h):
        if h not in self.holders:
            self.holders.append(h)

    # --------------------------------------------------------------------------
    # the calls
    def find(self, h, r, n):
        self._holder(h)
        su  = float(self.lay.su)
        req = RankRequirements(n_cores=r['nc'], core_occupation=r['co'] / su,
                               n_gpus=r['ng'],  gpu_occupation=r['go'] / su,
                               lfs=r['lfs'], mem=r['mem'])
        calls = [0]
        real  = Node.find_slot

        def spy(node, *a, **k):
            calls[0] += 1
            return real(node, *a, **k)

        res, exc, slots = 'none', 'none', None
        with mock.patch.object(Node, 'find_slot', spy):
            try:
                slots = self.nl.find_slots(req, n_slots=n)
            except Exception as e:                        # noqa
                res, exc = 'raise', type(e).__name__
        if slots:
            res = 'grant'
            self.slots[h] = list(slots)
        return self.log('Find', h=h, rr=dict(r), n=n, res=res, exc=exc,
                        searched=bool(calls[0]), slots=self.proj_slots(slots))

    def alloc(self, h, s):
        self._holder(h)
        su   = float(self.lay.su)
        name = self.lay.name(s['node']) if s.get('name', 'ok') == 'ok' else s['name']

        def ros(entries):
            # whole resources the way the tutorial writes them (plain indexes)
            if entries and all(u == self.lay.su for _, u in entries):
                return [int(i) for i, _ in entries]
            return [{'index': int(i), 'occupation': u / su} for i, u in entries]

        slot = Slot(node_index=s['node'], node_name=name, cores=ros(s['cores']),
                    gpus=ros(s['gpus']), lfs=s['lfs'], mem=s['mem'])
        res, exc = 'ok', 'none'
        try:
            if not 0 <= s['at'] < len(self.nl.nodes):
                raise IndexError('no such node')
            self.nl.nodes[s['at']].allocate_slot(slot)
        except Exception as e:                            # noqa
            res, exc = 'refused', type(e).__name__
        if res == 'ok':
            self.slots.setdefault(h, []).append(slot)
        return self.log('Alloc', h=h, sup={k: s[k] for k in ('at', 'node', 'cores', 'gpus', 'lfs', 'mem')},
                        name_ok=bool(s.get('name', 'ok') == 'ok'), res=res, exc=exc)

    def release(self, h):
        slots = self.slots.pop(h, None)
        if not slots:
            return None
        res, exc = 'ok', 'none'
        try:
            self.nl.release_slots(slots)
        except Exception as e:                            # noqa
            res, exc = 'raise', type(e).__name__
        return self.log('Release', h=h, res=res, exc=exc)

    # --------------------------------------------------------------------------
    def step(self, op):
        kind = op[0]
        self.exact = True
        if kind == 'find':
            if self.slots.get(op[1]):
                return None
            return self.find(op[1], op[2], op[3])
        if kind == 'alloc':
            return self.alloc(op[1], op[2])
        if kind == 'release':
            return self.release(op[1])
        raise ValueError('unknown operation %r' % (op,))

    def run(self, ops):
        for op in ops:
            self.step(tuple(op))
        return self.trace()

    def trace(self):
        return {'uids': list(self.holders) or ['none'], 'events': self.events}


# ------------------------------------------------------------------------------
# concurrent use: application threads sharing one NodeList
#
class CNode(Node):
    '''the real Node with schedule points and event logging around its real methods;
       nothing of the placement logic lives here'''

    def find_slot(self, rr):
        rig = self.__rig__
        rig.searched[rig.ctl.current()] = True
        slot = Node.find_slot(self, rr)
        if slot:
            # logged before the next schedule point: atomic with the record
            rig.on_take(slot)
        return slot

    def allocate_slot(self, slot, _check=True):
        if not _check:
            # Node.find_slot has searched and is about to record what it found
            self.__rig__.ctl.point('record')
        return Node.allocate_slot(self, slot, _check)

    def deallocate_slot(self, slot):
        rig = self.__rig__
        try:
            Node.deallocate_slot(self, slot)
        except Exception as e:                            # noqa
            rig.on_give(slot, 'raise', type(e).__name__)
            raise
        rig.on_give(slot, 'ok', 'none')


class ConcRig(NodeAllocRig):
    '''
    programs: {thread name: [operation, ...]}, operations as for NodeAllocRig.  The threads
    are logical threads of a baton controller (sched_ctl): exactly one runs at a time
    and is switched only at schedule points -
      * every acquisition of a node lock (Node.__lock__ is replaced by an instrumented
        re-entrant lock: a thread waiting for a held lock cannot be chosen),
      * between search and record inside Node.find_slot ('record'),
      * between two operations of a thread ('op').
    Events are logged at the node level (one per slot taken / given back, CTake / CGive)
    and at the return of every call (CFind / CRelease / Alloc), each with the thread.
    '''

    def __init__(self, lay, programs, chooser, max_steps=2000):
        self.lay = lay
        self.ctl = sched_ctl.Controller(chooser, max_steps=max_steps)
        nodes = [CNode(copy.deepcopy(d)) for d in lay.node_dicts()]
        for node in nodes:
            node.__rig__  = self
            node.__lock__ = sched_ctl.CLock(self.ctl, 'n%d' % node.index, reentrant=True)
        self.nl = NodeList(nodes=nodes)
        assert all(type(n) is CNode for n in self.nl.nodes)
        if lay.verify:
            self.nl.verify()
        self.slots    = {}
        self.events   = []
        self.holders  = []
        self.exact    = True
        self.cur      = {}         # thread -> holder of the call it is in
        self.searched = {}
        self.programs = {t: [tuple(op) for op in ops] for t, ops in programs.items()}
        self.deadlock = None

    def log(self, ev, **kw):
        kw['t'] = self.ctl.current() or 'none'
        return NodeAllocRig.log(self, ev, **kw)

    def on_take(self, slot):
        t = self.ctl.current()
        self.log('CTake', h=self.cur[t], slot=self.proj_slots([slot])[0])

    def on_give(self, slot, res, exc):
        t = self.ctl.current()
        self.log('CGive', h=self.cur[t], slot=self.proj_slots([slot])[0], res=res, exc=exc)

    # the calls of one thread
    def find(self, h, r, n):
        t = self.ctl.current()
        self._holder(h)
        self.cur[t], self.searched[t] = h, False
        su  = float(self.lay.su)
        req = RankRequirements(n_cores=r['nc'], core_occupation=r['co'] / su,
                               n_gpus=r['ng'],  gpu_occupation=r['go'] / su,
                               lfs=r['lfs'], mem=r['mem'])
        res, exc, slots = 'none', 'none', None
        try:
            slots = self.nl.find_slots(req, n_slots=n)
        except sched_ctl.Abort:
            raise
        except Exception as e:                            # noqa
            res, exc = 'raise', type(e).__name__
        if slots:
            res = 'grant'
            self.slots[h] = list(slots)
        return self.log('CFind', h=h, rr=dict(r), n=n, res=res, exc=exc,
                        searched=bool(self.searched[t]), slots=self.proj_slots(slots))

    def release(self, h):
        t = self.ctl.current()
        slots = self.slots.pop(h, None)
        if not slots:
            return None
        self.cur[t] = h
        res, exc = 'ok', 'none'
        try:
            self.nl.release_slots(slots)
        except sched_ctl.Abort:
            raise
        except Exception as e:                            # noqa
            res, exc = 'raise', type(e).__name__
        return self.log('CRelease', h=h, res=res, exc=exc)

    def alloc(self, h, s):
        self.cur[self.ctl.current()] = h
        return NodeAllocRig.alloc(self, h, s)

    def _thread(self, name):
        def body():
            for k, op in enumerate(self.programs[name]):
                if k:
                    self.ctl.point('op')
                self.step(op)
        return body

    def run(self):
        for name in sorted(self.programs):
            self.ctl.spawn(name, self._thread(name))
        try:
            self.ctl.run()
        except sched_ctl.Deadlock as e:
            self.deadlock = str(e)
            self.ctl.abort()
        tr = self.trace()
        tr['schedule'] = [ch for _, ch in self.ctl.choices]
        return tr


def explore(lay, programs, preempt_bound=None, max_runs=100000):
    '''all schedules (or all with at most preempt_bound preemptions) of the programs'''
    def make_run(chooser):
        rig = ConcRig(lay, programs, chooser)
        tr  = rig.run()
        return rig.ctl, (tr, rig.deadlock)
    return sched_ctl.explore(make_run, max_runs=max_runs, preempt_bound=preempt_bound)
