'''
Resource manager rig (C18): turns an input of the RMNodes design model (an
allocation as a batch system writes it + the pilot's layout) into environment
variables, node files and a `qstat -f` answer, runs the REAL resource manager
subclass (`Cls.__new__` + real `ResourceManager.__init__`, i.e. registry lookup,
`_init_from_scratch()` with the subclass's
`init_from_scratch`, `_parse_nodefile`, `_get_node_list`, the blocked core
marking and `_filter_nodes`), and records one event per step for
RMNodesTrace.tla:

  Indexed    after the real `_get_node_list` returned (full node list)
  Filtered   after the real `_filter_nodes` returned (partition)
  Done       after `_init_from_scratch` + `RMInfo.verify` (what is published)
  Failed     the initialisation raised
  Recreated  a second component of the same pilot: the real constructor again,
             against the same in-memory registry, after the environment / the
             node reachability changed; `fromreg` = it did not call
             `_init_from_scratch` again

Nothing of the RM is re-implemented here: the rig only writes the files, replaces
rc.process.Process (the ssh reachability probe made when the pilot has backup
nodes: per node ok / refused / never answers, as the input says) and the `qstat`
call, and projects RMInfo into JSON.
'''

import os
import shutil
import tempfile

from unittest import mock

from .. import rpshim

rp  = rpshim.load()
ru  = __import__('radical.utils', fromlist=['x'])
rpc = rp.constants

from radical.pilot.agent.resource_manager import base as rmb
from radical.pilot.agent.resource_manager.fork   import Fork
from radical.pilot.agent.resource_manager.slurm  import Slurm
from radical.pilot.agent.resource_manager.pbspro import PBSPro
from radical.pilot.agent.resource_manager.lsf    import LSF
from radical.pilot.agent.resource_manager.cobalt import Cobalt
from radical.pilot.agent.resource_manager.torque import Torque
from radical.pilot.agent.resource_manager.ccm    import CCM

RMInfo = rmb.RMInfo

CLASSES = {'FORK': Fork, 'SLURM': Slurm, 'PBSPRO_VNODE': PBSPro, 'PBSPRO_FILE': PBSPro,
           'LSF': LSF, 'COBALT_FILE': Cobalt, 'COBALT_PART': Cobalt, 'TORQUE': Torque, 'CCM': CCM}

FIELDS = ['rm', 'hosts', 'shape', 'pseudo', 'pslots', 'uneven', 'style', 'cores', 'smt', 'known',
          'gpn', 'gpusrc', 'bc', 'bg', 'requested', 'slack', 'backup', 'agents', 'service',
          'refused', 'hangs', 'oldfiles']

# Slurm environment variables that announce the GPUs of a node
GPU_ENV = {'GPUS_ON_NODE': 'SLURM_GPUS_ON_NODE', 'JOB_GPUS': 'SLURM_JOB_GPUS',
           'STEP_GPUS': 'SLURM_STEP_GPUS', 'DEVICE_ORDINAL': 'GPU_DEVICE_ORDINAL'}

OLD_HOSTS = [81, 82]          # RMNodesOps!OldHosts: what older CCM node files list
PSEUDO = {101: 'login1', 102: 'batch2', 103: 'launch3'}

# environment variables any of the RMs looks at
ENV_VARS = ['SLURM_NODELIST', 'SLURM_JOB_NODELIST', 'SLURM_CPUS_ON_NODE', 'SLURM_GPUS_ON_NODE',
            'SLURM_JOB_GPUS', 'SLURM_STEP_GPUS', 'GPU_DEVICE_ORDINAL', 'PBS_JOBID', 'PBS_NODEFILE',
            'LSB_DJOB_HOSTFILE', 'COBALT_NODEFILE', 'COBALT_PARTNAME', 'RADICAL_SMT', 'HOME']


# ------------------------------------------------------------------------------
def case_from_tuple(t):
    '''<<"CASE", rm, hosts, ...>> printed by the design model -> input dict'''
    c = dict(zip(FIELDS, t[1:]))
    c['hosts'] = list(c['hosts'])
    c['bc']    = sorted(c['bc'])
    c['bg']    = sorted(c['bg'])
    c['refused'] = sorted(c.get('refused', []))
    c['hangs']   = sorted(c.get('hangs', []))
    c['oldfiles'] = c.get('oldfiles', 'none')
    return c


def host_name(h, rm):
    if h == 0:
        return 'localhost'
    if h in PSEUDO:
        return PSEUDO[h]
    if rm == 'COBALT_PART':
        return 'nid%05d' % h
    return 'node%03d' % h


def host_id(name):
    if name == 'localhost':
        return 0
    for k, v in PSEUDO.items():
        if v == name:
            return k
    for pre in ('node', 'nid'):
        if name.startswith(pre) and name[len(pre):].isdigit():
            return int(name[len(pre):])
    return 999


def ranges(ids, width):
    '''consecutive ascending runs -> "001-003,005"'''
    out, i = [], 0
    while i < len(ids):
        j = i
        while j + 1 < len(ids) and ids[j + 1] == ids[j] + 1:
            j += 1
        if j > i:
            out.append('%0*d-%0*d' % (width, ids[i], width, ids[j]))
        else:
            out.append('%0*d' % (width, ids[i]))
        i = j + 1
    return ','.join(out)


def lines_of(c):
    '''the node file lines as RMNodesOps!Lines writes them'''
    rm, hs = c['rm'], c['hosts']
    slots  = c['cores'] if rm == 'LSF' else c['cores'] * c['smt']
    pseudo = {'login': [101], 'batch': [102], 'launch': [103], 'both': [101, 102]}.get(c['pseudo'], [])
    pseudo = [h for h in pseudo for _ in range(c.get('pslots', 1))]
    if c['shape'] == 'slot_adj':
        body = [h for h in hs for _ in range(slots)]
    elif c['shape'] == 'slot_mix':
        body = [h for _ in range(slots) for h in hs]
    else:
        body = list(hs)
    if c.get('uneven'):
        body = body[:-1]              # the last host is listed one line short
    return pseudo + body


def usable_c(c):
    return c['cores'] * c['smt'] - len(c['bc'])


def usable_g(c):
    return c['gpn'] - len(c['bg'])


# ------------------------------------------------------------------------------
class FakeProcess(object):
    '''stands for rc.process.Process in _filter_nodes (the ssh probe): the k-th
       probe started in one inspection answers as `plan[k]` says -
         ok       exit code 0
         refused  exit code 255
         hangs    no answer within the timeout; cancel() ends the process, which
                  (like rc.process.Process) never gets an exit code then'''
    plan    = []       # outcome per node position of the current inspection
    started = 0
    down    = set()    # names which refuse (second inspection of a pilot only)

    def __init__(self, cmd):
        self.cmd, self.retcode, self.stdout, self.stderr = cmd, None, '', ''
        self.cancelled, self.how = False, 'ok'

    def start(self):
        k = FakeProcess.started
        FakeProcess.started += 1
        if k < len(FakeProcess.plan):
            self.how = FakeProcess.plan[k]
        if any(d in self.cmd.split() for d in FakeProcess.down):
            self.how = 'refused'

    def wait(self, timeout=None):
        if   self.how == 'ok'     : self.retcode, self.stdout = 0, 'hostname\n'
        elif self.how == 'refused': self.retcode, self.stderr = 255, 'ssh: connect to host: Connection refused'
        # hangs: nothing happens, with or without cancel()

    def cancel(self):
        self.cancelled = True


class FakeRegistry(object):
    '''in-memory stand-in for ru.zmq.RegistryClient: get / put / close on a store
       shared by the components of one pilot; values travel through msgpack as
       they do between ru.zmq client and server'''
    data = None

    def __init__(self, url=None, **kw):
        self.url = url

    @staticmethod
    def _wire(v):
        return ru.as_string(ru.from_msgpack(ru.to_msgpack(v)))

    def put(self, key, val):
        self.data[key] = self._wire(val)

    def get(self, key, default=None):
        if key not in self.data:
            return default
        return self._wire(self.data[key])

    def close(self):
        pass


def occ(v):
    if v is rpc.DOWN:
        return 'D'
    if v == rpc.FREE:
        return 'F'
    return 'X'


def entry(n):
    return {'name': host_id(n['name']), 'index': int(n['index']),
            'cores': [occ(v) for v in n['cores']], 'gpus': [occ(v) for v in n['gpus']]}


def partition(info):
    return {'nodes':   [entry(n) for n in info['node_list']],
            'agents':  [entry(n) for n in info['agent_node_list']],
            'service': [entry(n) for n in info['service_node_list']],
            'backup':  [entry(n) for n in info['backup_list']]}


# ------------------------------------------------------------------------------
class RMNodesRig(object):

    def __init__(self):
        self.wd   = tempfile.mkdtemp(prefix='b-rmnodes_', dir=os.environ.get('RP_VERIF_TMP', '/tmp'))
        self.old  = os.getcwd()
        self.env0 = {k: os.environ.get(k) for k in ENV_VARS}
        self.log  = rpshim.NullLog()
        os.makedirs(os.path.join(self.wd, '.crayccm'))
        self.files = dict()               # content -> node file (written once)
        self.svc   = False
        self.ccm   = None
        os.chdir(self.wd)                 # ./services and Slurm's rm_info.json live in the cwd
        # stand-ins for what is outside the RM, in place while the rig lives: the ssh
        # probe, the qstat call, the registry client, the launch method preparation
        self.qstat   = ('', 'qstat: command not found', 127)
        self.patches = [
            mock.patch.object(rmb, 'Process', FakeProcess),
            mock.patch.object(ru, 'sh_callout', lambda *a, **k: self.qstat),
            mock.patch.object(ru.zmq, 'RegistryClient', FakeRegistry),
            mock.patch.object(rmb.ResourceManager, '_prepare_launch_methods', lambda rm: None)]
        for p in self.patches:
            p.start()

    def close(self):
        for p in self.patches:
            p.stop()
        os.chdir(self.old)
        for k, v in self.env0.items():
            if v is None:
                os.environ.pop(k, None)
            else:
                os.environ[k] = v
        shutil.rmtree(self.wd, ignore_errors=True)

    # --------------------------------------------------------------------------
    def materialise(self, c):
        '''environment of the pilot job for this allocation; returns the qstat answer'''
        for k in ENV_VARS:
            os.environ.pop(k, None)
        os.environ['HOME'] = self.wd
        rm    = c['rm']
        names = [host_name(h, rm) for h in lines_of(c)]
        qstat = ('', 'qstat: command not found', 127)
        text  = ''.join(n + '\n' for n in names)
        nf    = self.files.get(text)
        if nf is None and rm not in ('FORK', 'SLURM', 'COBALT_PART', 'PBSPRO_VNODE', 'CCM'):
            nf = self.files[text] = os.path.join(self.wd, 'nodefile.%d' % len(self.files))
            with open(nf, 'w') as fh:
                fh.write(text)

        if rm == 'SLURM':
            if c['style'] == 'list':
                expr = ','.join(names)
            else:
                expr = 'node[%s]' % ranges(c['hosts'], 3)
            # the variable Slurm sets differs between versions: alternate
            os.environ['SLURM_JOB_NODELIST' if len(c['hosts']) % 2 else 'SLURM_NODELIST'] = expr
            if not c['known']:
                os.environ['SLURM_CPUS_ON_NODE'] = str(c['cores'] * c['smt'])
            src = c.get('gpusrc', 'config')
            if src == 'GPUS_ON_NODE':
                os.environ[GPU_ENV[src]] = str(c['gpn'])
            elif src in GPU_ENV:                  # a list of device ids
                os.environ[GPU_ENV[src]] = ','.join(str(i) for i in range(c['gpn']))
        elif rm == 'COBALT_PART':
            os.environ['COBALT_PARTNAME'] = ranges(c['hosts'], 1)
        elif rm == 'COBALT_FILE':
            os.environ['COBALT_NODEFILE'] = nf
        elif rm in ('PBSPRO_FILE', 'TORQUE'):
            os.environ['PBS_NODEFILE'] = nf
            os.environ['PBS_JOBID']    = '4711.pbs'
        elif rm == 'PBSPRO_VNODE':
            os.environ['PBS_JOBID'] = '4711.pbs'
            chunks = ['(%s:ncpus=%d)' % (n, c['cores'] * c['smt']) for n in names]
            txt    = '+'.join(chunks)
            # qstat wraps long values: continuation lines start with a tab
            cut    = txt.find('+', len(txt) // 2) + 1 if len(chunks) > 1 else len(txt)
            out    = 'Job Id: 4711.pbs\n    Job_Name = pilot.0000\n    exec_host = x/0\n'
            out   += '    exec_vnode = %s\n' % txt[:cut]
            if txt[cut:]:
                out += '\t%s\n' % txt[cut:]
            out   += '    Hold_Types = n\n    Join_Path = n\n'
            qstat  = (out, '', 0)
        elif rm == 'LSF':
            os.environ['LSB_DJOB_HOSTFILE'] = nf
        elif rm == 'CCM':
            # ~/.crayccm: the current job's node file is the NEWEST nodelist* file; older
            # jobs may have left theirs (other hosts), named so that the name order
            # agrees with the age order, or not (job ids which gained a digit)
            key = (text, c.get('oldfiles', 'none'))
            if self.ccm != key:
                self.ccm = key
                ddir = os.path.join(self.wd, '.crayccm')
                for f in os.listdir(ddir):
                    os.unlink(os.path.join(ddir, f))
                slots = c['cores'] * c['smt']
                old   = ''.join(host_name(h, rm) + '\n' for h in OLD_HOSTS for _ in range(slots))
                files = {'none'       : [],
                         'name_eq_age': ['nodelist.100000', 'nodelist.100001'],
                         'name_ne_age': ['nodelist.99998',  'nodelist.99999']}[key[1]]
                t0 = 1700000000
                for k, f in enumerate(files + ['nodelist.100002']):
                    path = os.path.join(ddir, f)
                    with open(path, 'w') as fh:
                        fh.write(text if f == 'nodelist.100002' else old)
                    os.utime(path, (t0 + 1000 * k, t0 + 1000 * k))      # the current one is last

        # the pilot job carries RADICAL_SMT (set by _prepare_pilot); the platform
        # configuration carries it as well: use either source
        if (c['requested'] + len(c['hosts'])) % 2 == 0:
            os.environ['RADICAL_SMT'] = str(c['smt'])

        svc = os.path.join(self.wd, 'services')
        if c['service'] and not self.svc:
            open(svc, 'w').close()
        elif self.svc and not c['service']:
            os.unlink(svc)
        self.svc = bool(c['service'])
        return qstat

    # --------------------------------------------------------------------------
    def make_rm(self, c):
        for k, v in RMInfo._defaults.items():
            # harness artefact: mutable defaults are shared between RMInfo instances;
            # production builds one per process, the rig builds many
            if isinstance(v, list):
                RMInfo._defaults[k] = list()
            elif isinstance(v, dict):
                RMInfo._defaults[k] = dict()
        cls = CLASSES[c['rm']]
        rm  = cls.__new__(cls)
        rm.name  = cls.__name__
        rm._log  = self.log
        rm._prof = self.log
        known    = c['known']
        uc, ug   = usable_c(c), usable_g(c)
        agents   = {'agent_0': {'target': 'local'}}
        for i in range(c['agents']):
            agents['agent_%d' % (i + 1)] = {'target': 'node'}
        rm._cfg = ru.Config(from_dict={
            'backup_nodes'     : c['backup'],
            'nodes'            : c['requested'] if known else 0,
            'cores'            : (c['requested'] + c['backup']) * uc if known
                                 else c['requested'] * uc - c['slack'],
            'gpus'             : (c['requested'] + c['backup']) * ug if known
                                 else c['requested'] * ug,
            'cores_per_node'   : c['cores'] * c['smt'] if known else 0,
            'gpus_per_node'    : c['gpn'] if c.get('gpusrc', 'config') == 'config' else 0,
            'lfs_size_per_node': 0, 'lfs_path_per_node': '/tmp',
            'agents'           : agents})
        rm._rcfg = ru.Config(from_dict={
            'mem_per_node': 0, 'fake_resources': True, 'launch_methods': {},
            'numa_domain_map': {}, 'n_partitions': 1,
            'system_architecture': {'smt': c['smt'], 'blocked_cores': list(c['bc']),
                                    'blocked_gpus': list(c['bg'])}})
        return rm

    # --------------------------------------------------------------------------
    def run(self, c, mutate=None):
        '''returns the trace dict for RMNodesTrace'''
        self.qstat = self.materialise(c)
        rm     = self.make_rm(c)
        cfg, rcfg = rm._cfg, rm._rcfg
        cfg['reg_addr'] = 'mem://registry'
        events = []
        if mutate:
            mutate(rm)

        real_gnl, real_flt = rm._get_node_list, rm._filter_nodes

        def get_node_list(nodes, rm_info):
            res = real_gnl(nodes, rm_info)
            events.append({'ev': 'Indexed', 'full': [entry(n) for n in res]})
            return res

        def filter_nodes(rm_info):
            n = len(rm_info.node_list)
            FakeProcess.started = 0
            FakeProcess.plan    = ['refused' if k + 1 in c['refused'] else
                                   'hangs'   if k + 1 in c['hangs']   else 'ok' for k in range(n)]
            real_flt(rm_info)
            events.append({'ev': 'Filtered', 'P': partition(rm_info)})

        rm._get_node_list = get_node_list
        rm._filter_nodes  = filter_nodes

        # the pilot's registry: one store shared by all components of this run
        FakeRegistry.data = dict()
        FakeProcess.down  = set()

        info = None
        if True:

            # ---- agent_0: the real constructor, from scratch ---------------------
            try:
                rm.__init__(cfg, rcfg, self.log, self.log)
                info = rm.info
                events.append({'ev': 'Done', 'P': partition(info),
                               'cpn': int(info.cores_per_node), 'gpn': int(info.gpus_per_node),
                               'req': int(info.requested_nodes), 'tpc': int(info.threads_per_core)})
            except Exception as e:
                events.append({'ev': 'Failed', 'exc': type(e).__name__, 'msg': str(e)[:120]})
                info = None

            # ---- another component of the same pilot, later: the environment and the
            #      reachability of the nodes are not what agent_0 saw ----------------
            if info is not None:
                d = info.as_dict()
                if (c['requested'] + c['agents']) % 2:
                    for k in ENV_VARS:
                        if k != 'HOME':
                            os.environ.pop(k, None)
                else:
                    FakeProcess.down = {host_name(c['hosts'][0], c['rm'])}
                FakeProcess.plan, FakeProcess.started = [], 0
                cls   = type(rm)
                rm2   = cls.__new__(cls)
                calls = []
                real_ifs = rm2._init_from_scratch

                def init_from_scratch():
                    calls.append(1)
                    return real_ifs()

                rm2._init_from_scratch = init_from_scratch
                try:
                    rm2.__init__(ru.Config(from_dict=cfg.as_dict()), ru.Config(from_dict=rcfg.as_dict()),
                                 self.log, self.log)
                    info2 = rm2.info
                    events.append({'ev': 'Recreated', 'P': partition(info2), 'fromreg': not calls,
                                   'cpn': int(info2.cores_per_node), 'gpn': int(info2.gpus_per_node),
                                   'same': bool(info2.as_dict() == d)})
                except Exception as e:
                    events.append({'ev': 'Recreated', 'P': partition(RMInfo()), 'fromreg': not calls,
                                   'cpn': 0, 'gpn': 0,
                                   'same': False, 'exc': type(e).__name__})
                FakeProcess.down = set()

        tin = dict(c)
        return {'in': tin, 'events': events}
