'''
Launch rig (C09): REAL launch-method instances generate commands for given
placements; a small per-method command interpreter (trusted base, validated
against the repository's recorded command lines) turns the returned string and
the files it references into the abstract command judged by LaunchTrace.tla.

* launchers are created by the real `LaunchMethod.create` / real `__init__`
  and `init_from_info`; only the registry client (the source of `lm_info`),
  `ru.env_eval` and `ru.get_hostname` are replaced, so no environment discovery
  (`init_from_scratch`) runs;
* the executor protocol is followed: `can_launch` first, `get_launch_cmds` only
  when it accepts (agent/executing/popen.py, agent_0.py);
* `find_launcher` is the real method of a `ResourceManager` built by `__new__`
  whose `_launchers` / `_launch_order` come from the real
  `_prepare_launch_methods`;
* host / rank / node / resource-set files are written by the real code into a
  sandbox under /tmp which is removed afterwards.

No sub-processes, no network, no clock.
'''

import os
import re
import copy
import json
import shlex
import shutil
import hashlib
import tempfile

from unittest import mock

from .. import rpshim

rp = rpshim.load()
ru = __import__('radical.utils', fromlist=['x'])

from radical.pilot.agent.launch_method.base   import LaunchMethod
from radical.pilot.agent.resource_manager.base import RMInfo
from radical.pilot.agent.resource_manager.fork import Fork as ForkRM

LIMIT     = 42                 # host-list limit of the code (mpirun ranks, srun nodes)
SCALE     = 21                 # spec limit 2  <->  code limit 42
LOCAL     = 'n1'               # the node the executor (and Fork) runs on, by default
BASE_NODES = ['n1', 'n2', 'n3']
# nodes whose names are prefix-related to an executor host name used by some
# configuration ('n1', 'n12', 'n1.cluster.org'): proper prefixes, extensions,
# short name vs FQDN.  They are nodes of their own.
ALIAS_NODES = ['n', 'n12', 'n1.cluster.org', 'n12.cluster.org', 'n1.cluster', 'c1', 'c10']
TMP_ROOT  = os.environ.get('RP_VERIF_TMP', '/tmp')


class InterpretError(Exception):
    '''the command interpreter does not understand the command'''


# ------------------------------------------------------------------------------
# node universe: every node a placement may name, with its index
#
def _universe():
    names = list(BASE_NODES)
    for b in BASE_NODES + ALIAS_NODES + ['localhost']:
        names += ['%s_%02d' % (b, j) for j in range(SCALE)]
    names += ['x%02d' % j for j in range(48)]
    names += ['localhost']
    names += ALIAS_NODES
    return names


UNIVERSE   = _universe()
NODE_INDEX = {n: i + 1 for i, n in enumerate(UNIVERSE)}
INDEX_NODE = {str(i): n for n, i in NODE_INDEX.items()}


# ------------------------------------------------------------------------------
# launcher configurations: (factory name, spec configuration, lm_info, extras)
#
def S(m, fl='plain', mode='std', vnew=False, opt='absent'):
    return {'m': m, 'fl': fl, 'mode': mode, 'vnew': vnew, 'opt': opt}


def _mpirun(command='/usr/bin/mpirun', mpt=False, rsh=False, ccmrun='', dplace='',
            omplace='', flavor='OMPI'):
    return {'command': command, 'mpt': mpt, 'rsh': rsh, 'ccmrun': ccmrun,
            'dplace': dplace, 'omplace': omplace, 'mpi_version': '4.1.1',
            'mpi_flavor': flavor}


def _mpiexec(command='/usr/bin/mpiexec', mpt=False, use_rf=False, use_hf=False,
             can_os=False, omplace='', flavor='OMPI'):
    return {'command': command, 'mpt': mpt, 'rsh': False, 'use_rf': use_rf,
            'use_hf': use_hf, 'can_os': can_os, 'ccmrun': '', 'dplace': '',
            'omplace': omplace, 'mpi_version': '4.1.1', 'mpi_flavor': flavor}


CONFIGS = {
    'fork'           : ('FORK',          S('FORK'), {}, {}),
    # the executor's own host name is an extension / the FQDN of another node's name
    'fork_n12'       : ('FORK',          S('FORK'), {}, {'hostname': 'n12'}),
    'fork_fqdn'      : ('FORK',          S('FORK'), {}, {'hostname': 'n1.cluster.org'}),
    'fork_c10'       : ('FORK',          S('FORK'), {}, {'hostname': 'c10'}),
    'ssh'            : ('SSH',           S('SSH'),
                        {'command': '/usr/bin/ssh -o StrictHostKeyChecking=no -o ControlMaster=auto'}, {}),
    'ssh_is_rsh'     : ('SSH',           S('SSH'), {'command': '/usr/bin/rsh'}, {}),
    'rsh'            : ('RSH',           S('RSH'), {'command': '/usr/bin/rsh'}, {}),
    'mpirun'         : ('MPIRUN',        S('MPIRUN'), _mpirun(), {}),
    'mpirun_spectrum': ('MPIRUN',        S('MPIRUN'), _mpirun(flavor='SPECTRUM'), {}),
    'mpirun_hydra'   : ('MPIRUN',        S('MPIRUN'), _mpirun(flavor='HYDRA'), {}),
    'mpirun_mpt'     : ('MPIRUN_MPT',    S('MPIRUN', 'mpt'), _mpirun(mpt=True), {}),
    'mpirun_cheyenne': ('MPIRUN',        S('MPIRUN', 'mpt'),
                        _mpirun(mpt=True, omplace='/usr/bin/omplace'), {}),
    'mpirun_rsh'     : ('MPIRUN_RSH',    S('MPIRUN', 'rsh'),
                        _mpirun(command='/usr/bin/mpirun_rsh', rsh=True), {}),
    'mpirun_dplace'  : ('MPIRUN_DPLACE', S('MPIRUN', 'dplace'),
                        _mpirun(dplace='/usr/bin/dplace'), {}),
    'mpirun_ccmrun'  : ('MPIRUN_CCMRUN', S('MPIRUN', 'ccmrun'),
                        _mpirun(ccmrun='/usr/bin/ccmrun'), {}),
    'mpiexec_rf'     : ('MPIEXEC',       S('MPIEXEC', mode='rf'), _mpiexec(use_rf=True), {}),
    'mpiexec_pals'   : ('MPIEXEC',       S('MPIEXEC', mode='pals'),
                        _mpiexec(use_hf=True, flavor='PALS'), {}),
    'mpiexec_hf'     : ('MPIEXEC',       S('MPIEXEC', mode='hf'),
                        _mpiexec(use_hf=True, flavor='HYDRA'), {}),
    'mpiexec_std'    : ('MPIEXEC',       S('MPIEXEC'), _mpiexec(), {}),
    'mpiexec_os'     : ('MPIEXEC',       S('MPIEXEC'), _mpiexec(can_os=True),
                        {'details': {'oversubscribe': True}}),
    'mpiexec_os_off' : ('MPIEXEC',       S('MPIEXEC'), _mpiexec(can_os=True),
                        {'details': {'oversubscribe': False}}),
    'mpiexec_mpt'    : ('MPIEXEC_MPT',   S('MPIEXEC', 'mpt'),
                        _mpiexec(command='/usr/bin/mpiexec_mpt', mpt=True, omplace='omplace'), {}),
    'mpiexec_mpt_rf' : ('MPIEXEC_MPT',   S('MPIEXEC', 'mpt', 'rf'),
                        _mpiexec(command='/usr/bin/mpiexec_mpt', mpt=True, use_rf=True), {}),
    'srun'           : ('SRUN',          S('SRUN', vnew=True),
                        {'command': '/usr/bin/srun', 'version': '22.05.8', 'vmajor': 22}, {}),
    'srun_old'       : ('SRUN',          S('SRUN', vnew=False),
                        {'command': '/usr/bin/srun', 'version': '18.08.1', 'vmajor': 18}, {}),
    'srun_nogpu'     : ('SRUN',          S('SRUN', vnew=True),
                        {'command': '/usr/bin/srun', 'version': '21.08.1', 'vmajor': 21},
                        {'details': {'exact': False}, 'requested_gpus': 0}),
    'srun_exact'     : ('SRUN',          S('SRUN', vnew=True),
                        {'command': '/usr/bin/srun', 'version': '23.02.1', 'vmajor': 23},
                        {'details': {'exact': True}, 'threads_per_core': 2}),
    'srun_traverse'  : ('SRUN',          S('SRUN', vnew=True),
                        {'command': '/usr/bin/srun', 'version': '20.11.1', 'vmajor': 20},
                        {'resource': 'princeton.traverse'}),
    'aprun'          : ('APRUN',         S('APRUN'),  {'command': '/usr/bin/aprun'}, {}),
    'ccmrun'         : ('CCMRUN',        S('CCMRUN'), {'command': '/usr/bin/ccmrun'}, {}),
    'ibrun'          : ('IBRUN',         S('IBRUN'),  {'command': '/usr/bin/ibrun'}, {}),
    'jsrun'          : ('JSRUN',         S('JSRUN', mode='rs'),
                        {'command': '/usr/bin/jsrun', 'erf': False}, {}),
    'jsrun_smt4'     : ('JSRUN',         S('JSRUN', mode='rs'),
                        {'command': '/usr/bin/jsrun', 'erf': False}, {'threads_per_core': 4}),
    'jsrun_erf'      : ('JSRUN_ERF',     S('JSRUN', mode='erf'),
                        {'command': '/usr/bin/jsrun', 'erf': True}, {}),
    'prte'           : ('PRTE',          S('PRTE'),
                        {'command': '/usr/bin/prun',
                         'details': {'dvm_list': {0: {'nodes': list(range(1, 200)),
                                                      'dvm_uri': 'prte-batch0@0.0;tcp4://1.1.1.1:123'}},
                                     'version_info': {'name': 'PRTE', 'version': '2.0'}}}, {}),
}

# The launch method's section of the resource config (lm_cfg) is a dimension of
# its own: its `options` are absent, present but empty, or present with the
# key the classes read pinned (IBRUN: tasks_per_node).  A configuration name
# 'base+empty' / 'base+pinned' denotes the base configuration with that section.
OPTS        = ['absent', 'empty', 'pinned']
OPT_SECTION = {'empty': {}, 'pinned': {'tasks_per_node': 4}}
BASES       = sorted(CONFIGS)


class _Configs(dict):
    def __missing__(self, key):
        base, _, opt = key.partition('+')
        if base not in self.keys() or opt not in OPT_SECTION:
            raise KeyError(key)
        name, spec, info, extras = self[base]
        extras = copy.deepcopy(extras)
        extras.setdefault('lm_cfg', {})['options'] = copy.deepcopy(OPT_SECTION[opt])
        return (name, dict(spec, opt=opt), info, extras)


CONFIGS = _Configs(CONFIGS)


def variant(base, opt):
    return base if opt == 'absent' else '%s+%s' % (base, opt)


def base_of(cfgname):
    return cfgname.partition('+')[0]


# configurations whose command form switches at the host-list limit
def limit_sensitive(cfgname):
    return CONFIGS[cfgname][1]['m'] in ('MPIRUN', 'SRUN')


def spec_of(cfgname):
    return dict(CONFIGS[cfgname][1])


def hostname_of(cfgname):
    '''host name of the node the executor of this configuration runs on'''
    return CONFIGS[cfgname][3].get('hostname', LOCAL)


def cfgnames_for(spec):
    '''rig configurations realising a configuration of the design model'''
    return [variant(b, o) for b in BASES for o in OPTS if spec_of(variant(b, o)) == spec]


# ------------------------------------------------------------------------------
class FakeRegistry(object):
    '''stands for ru.zmq.RegistryClient: the store of lm_info'''
    store = {}

    def __init__(self, url=None):
        pass

    def get(self, key):
        return copy.deepcopy(FakeRegistry.store.get(key))

    def put(self, key, val):
        raise RuntimeError('launcher tried environment discovery (%s)' % key)

    def close(self):
        pass


_RM_INFOS = {}


def shared_rm_info(extras=None):
    '''the RMInfo is the resource manager's: one object shared by all launchers
       of a configuration, as in the agent'''
    key = json.dumps(extras or {}, sort_keys=True)
    if key not in _RM_INFOS:
        _RM_INFOS[key] = make_rm_info(extras)
    return _RM_INFOS[key]


def make_rm_info(extras=None):
    # list-valued defaults of RMInfo are shared between instances: reset
    for k in ('agent_node_list', 'service_node_list', 'node_list', 'backup_list',
              'partition_ids'):
        if k in RMInfo._defaults and isinstance(RMInfo._defaults[k], list):
            RMInfo._defaults[k] = list()
    extras = extras or {}
    cpn, gpn = 16, 12
    info = RMInfo({
        'cores_per_node'  : cpn,
        'gpus_per_node'   : gpn,
        'threads_per_core': extras.get('threads_per_core', 1),
        'requested_gpus'  : extras.get('requested_gpus', 8),
        'requested_cores' : cpn * len(UNIVERSE),
        'requested_nodes' : len(UNIVERSE),
        'details'         : dict(extras.get('details', {})),
        'node_list'       : [{'name': n, 'index': NODE_INDEX[n], 'cores': [0] * cpn,
                              'gpus': [0] * gpn, 'lfs': 0, 'mem': 0} for n in UNIVERSE]})
    return info


def _patches(hostname=LOCAL):
    return [mock.patch.object(ru.zmq, 'RegistryClient', FakeRegistry),
            mock.patch.object(ru, 'env_eval', lambda *a, **k: {}),
            mock.patch.object(ru, 'get_hostname', lambda *a, **k: hostname)]


def _no_subprocess(lm):
    '''PRTE.__del__ / finalize would call `pterm`: replaced on the instance'''
    if hasattr(lm, '_terminate'):
        lm._terminate = lambda: None


def make_launcher(cfgname, rm_info=None):
    '''a fresh REAL launcher of this configuration'''
    name, _, info, extras = CONFIGS[cfgname]
    lm_info = dict(info)
    lm_info.setdefault('env', {})
    lm_info.setdefault('env_sh', 'env/lm_%s.sh' % name.lower())
    FakeRegistry.store = {'lm.%s' % name.lower(): lm_info}
    # as ResourceManager._prepare_launch_methods: Config of the launch method's
    # section of the resource config, plus pid / reg_addr / resource
    lm_cfg = ru.Config(from_dict=copy.deepcopy(dict({'pre_exec_cached': []},
                                                    **extras.get('lm_cfg', {}))))
    lm_cfg.pid      = 'pilot.0000'
    lm_cfg.reg_addr = 'tcp://fake:1'
    lm_cfg.resource = extras.get('resource', 'local.localhost')
    if rm_info is None:
        rm_info = shared_rm_info({k: v for k, v in extras.items()
                                  if k in ('threads_per_core', 'details', 'requested_gpus')})
    ps = _patches(extras.get('hostname', LOCAL))
    for p in ps:
        p.start()
    try:
        lm = LaunchMethod.create(name, lm_cfg, rm_info,
                                 rpshim.NullLog(), rpshim.NullLog())
    finally:
        for p in ps:
            p.stop()
        FakeRegistry.store = {}
    lm._pwd = TMP_ROOT
    _no_subprocess(lm)
    return lm


# ------------------------------------------------------------------------------
# placements
#
CORE_LAYOUTS = ['one', 'pair', 'stride', 'rev', 'gap']
GPU_LAYOUTS  = ['none', 'own', 'shared', 'two']


def core_of(cl, k):
    return {'one': [k], 'pair': [2 * k, 2 * k + 1], 'stride': [k, k + 4],
            'rev': [7 - k], 'gap': [k, k + 4, k + 9]}[cl]


def gpu_of(gl, k):
    return {'none': [], 'own': [k], 'shared': [0], 'two': [2 * k + 1, 2 * k + 4]}[gl]


def pl_id(pl):
    blob = json.dumps([pl['p'], pl['mpi'], pl['exe'], pl['rps']], sort_keys=True)
    return hashlib.sha1(blob.encode()).hexdigest()[:12]


def finish_pl(p, rps, mpi, exe):
    pl = {'p': p, 'rps': rps, 'mpi': bool(mpi), 'exe': bool(exe)}
    pl['id'] = pl_id(pl)
    return pl


def mk(rs, rps, cl, gl, mpi, exe=True):
    '''the placement Mk(rs, rps, cl, gl, mpi, exe) of Launch.tla'''
    p = []
    for r in range(len(rs) * rps):
        s, q = r // rps, r % rps
        o = sum(1 for j in range(s) if rs[j] == rs[s])
        p.append({'node': rs[s], 'cores': core_of(cl, o * rps + q), 'gpus': gpu_of(gl, o)})
    return finish_pl(p, rps, mpi, exe)


def scale(pl, f=SCALE):
    '''every rank becomes f ranks on f nodes derived from its node: the host
       list of a task of n ranks has f*n entries over f*(distinct nodes) nodes'''
    if f == 1:
        return pl
    p = []
    for r in pl['p']:
        for j in range(f):
            p.append({'node': '%s_%02d' % (r['node'], j), 'cores': list(r['cores']),
                      'gpus': list(r['gpus'])})
    # resource sets keep their shape: ranks of one set must stay adjacent
    if pl['rps'] > 1:
        p, rps = [], pl['rps']
        for s in range(0, len(pl['p']), rps):
            for j in range(f):
                for r in pl['p'][s:s + rps]:
                    p.append({'node': '%s_%02d' % (r['node'], j), 'cores': list(r['cores']),
                              'gpus': list(r['gpus'])})
    return finish_pl(p, pl['rps'], pl['mpi'], pl['exe'])


def boundary(nranks, nnodes, cl='one', gl='none', mpi=True):
    '''nranks ranks round-robin over nnodes nodes (x00..): the limit itself'''
    nodes = ['x%02d' % (i % nnodes) for i in range(nranks)]
    return mk(nodes, 1, cl, gl, mpi)


def from_spec_task(T):
    '''a task record of the design model (as parsed from a TLC state)'''
    p = [{'node': r['node'], 'cores': sorted(r['cores']), 'gpus': sorted(r['gpus'])}
         for r in T['p']]
    return finish_pl(p, T['rps'], T['mpi'], T['exe'])


# ------------------------------------------------------------------------------
_BASE_TD = None


def build_task(pl, sbox, old_slots=False, openmp=False):
    global _BASE_TD
    if _BASE_TD is None:
        _BASE_TD = rp.TaskDescription({'executable': '/bin/app'}).as_dict()
    p   = pl['p']
    uid = 'task.%s' % pl['id']
    td  = dict(_BASE_TD)           # launchers only read the description
    td['metadata'], td['tags'], td['environment'] = {}, {}, {}
    td.update({'executable'    : '/opt/app/bin/app' if pl['exe'] else '',
               'arguments'     : ['-v', 'a b'],
               'ranks'         : len(p),
               'cores_per_rank': len(p[0]['cores']),
               'gpus_per_rank' : float(len(p[0]['gpus'])),
               'gpu_type'      : rp.CUDA if p[0]['gpus'] else '',
               'threading_type': rp.OpenMP if openmp else '',
               'use_mpi'       : pl['mpi'],
               'uid'           : uid})
    if old_slots:
        # the structure produced by continuous_jsrun._find_resources
        slots, rps = [], pl['rps']
        for s in range(0, len(p), rps):
            grp = p[s:s + rps]
            slots.append({'node_name' : grp[0]['node'],
                          'node_index': NODE_INDEX[grp[0]['node']],
                          'cores'     : [list(r['cores']) for r in grp],
                          'gpus'      : [list(grp[0]['gpus'])] * len(grp),
                          'lfs'       : 0,
                          'mem'       : 0})
    else:
        slots = [{'node_name' : r['node'],
                  'node_index': NODE_INDEX[r['node']],
                  'cores'     : [{'index': c, 'occupation': 1.0} for c in r['cores']],
                  'gpus'      : [{'index': g, 'occupation': 1.0} for g in r['gpus']],
                  'lfs'       : 0,
                  'mem'       : 0,
                  'version'   : 1} for r in p]
    return {'uid'              : uid,
            'description'      : td,
            'slots'            : slots,
            'partition'        : 0,
            'task_sandbox_path': sbox,
            'resources'        : {'cpu': len(p) * len(p[0]['cores']),
                                  'gpu': len(p) * len(p[0]['gpus'])}}


# ------------------------------------------------------------------------------
# command interpreters (trusted base)
#
EMPTY_C = {'np': 0, 'a': 1, 'hosts': [], 'nn': 0, 'pins': [], 'via': 'none'}


def _c(np=0, a=1, hosts=None, nn=0, pins=None, via='none'):
    return {'np': int(np), 'a': int(a), 'hosts': list(hosts or []), 'nn': int(nn),
            'pins': list(pins or []), 'via': via}


def parse_hostfile(text):
    '''one entry per line: "h", "h slots=n", "h:n", "h n"; counts are expanded'''
    hosts = []
    for line in text.splitlines():
        line = line.strip()
        if not line:
            continue
        m = re.match(r'^(\S+?)(?:(?:\s+slots=|:|\s+)(\d+))?$', line)
        if not m:
            raise InterpretError('host file line %r' % line)
        hosts += [m.group(1)] * (int(m.group(2)) if m.group(2) else 1)
    return hosts


def parse_rankfile(text):
    ranks = {}
    for line in text.splitlines():
        if not line.strip():
            continue
        m = re.match(r'^rank (\d+)=(\S+) slots=([\d,]*)\s*$', line)
        if not m:
            raise InterpretError('rank file line %r' % line)
        if int(m.group(1)) in ranks:
            raise InterpretError('rank %s twice' % m.group(1))
        ranks[int(m.group(1))] = {'host': m.group(2), 'gpus': [],
                                  'cores': [int(x) for x in m.group(3).split(',') if x]}
    if sorted(ranks) != list(range(len(ranks))):
        raise InterpretError('rank ids %s' % sorted(ranks))
    return [ranks[i] for i in range(len(ranks))]


def parse_cpu_list(text):
    '''"0-3" | "5" | "0,2,5" -> indices'''
    out = []
    for item in text.split(','):
        m = re.match(r'^(\d+)(?:-(\d+))?$', item)
        if not m:
            raise InterpretError('cpu list %r' % text)
        lo = int(m.group(1))
        hi = int(m.group(2)) if m.group(2) else lo
        out += list(range(lo, hi + 1))
    return out


def parse_erf(text, index_node=None):
    index_node = INDEX_NODE if index_node is None else index_node
    lines = [ln for ln in text.splitlines() if ln.strip()]
    if not lines or lines[0].strip() != 'cpu_index_using: logical':
        raise InterpretError('ERF header %r' % lines[:1])
    ranks = {}
    for line in lines[1:]:
        m = re.match(r'^rank: ([\d,]+) : \{ host: (\S+); cpu: ((?:\{[\d,]*\},?)+)'
                     r'(?:; gpu: \{([\d,]*)\})? \}$', line)
        if not m:
            raise InterpretError('ERF line %r' % line)
        ids   = [int(x) for x in m.group(1).split(',')]
        sets  = re.findall(r'\{([\d,]*)\}', m.group(3))
        if len(sets) != len(ids):
            raise InterpretError('ERF line %r: %d ranks, %d cpu sets' % (line, len(ids), len(sets)))
        gpus  = [int(x) for x in (m.group(4) or '').split(',') if x]
        host  = index_node.get(m.group(2), 'index:%s' % m.group(2))
        for i, cs in zip(ids, sets):
            if i in ranks:
                raise InterpretError('ERF rank %d twice' % i)
            ranks[i] = {'host': host, 'cores': [int(x) for x in cs.split(',') if x],
                        'gpus': list(gpus)}
    if sorted(ranks) != list(range(len(ranks))):
        raise InterpretError('ERF rank ids %s' % sorted(ranks))
    return [ranks[i] for i in range(len(ranks))]


def _split(cmd, exec_path):
    toks = shlex.split(cmd) if ('"' in cmd or "'" in cmd or '\\' in cmd) else cmd.split()
    if exec_path:
        if not toks or toks[-1] != exec_path:
            raise InterpretError('command does not end with the exec script: %r' % cmd)
        toks = toks[:-1]
    return toks


def _strip_prefix(toks, prefix):
    pre = shlex.split(prefix)
    if toks[:len(pre)] != pre:
        raise InterpretError('expected %r at the start of %r' % (prefix, toks))
    return toks[len(pre):]


def _intarg(tok, nxt):
    try:
        return int(nxt)
    except (TypeError, ValueError):
        raise InterpretError('option %s needs a number, got %r' % (tok, nxt))


def interpret(spec, lm_info, cmd, exec_path, read, index_node=None):
    '''
    spec     : configuration record (m, fl, mode, vnew)
    lm_info  : the lm_info the launcher was built from (command names)
    read     : path -> text of a file the command references
    returns the abstract command
    '''
    m    = spec['m']
    toks = _split(cmd, exec_path)

    if m == 'FORK':
        if toks:
            raise InterpretError('fork: unexpected %r' % toks)
        return _c(np=1)

    if m in ('SSH', 'RSH'):
        rest = _strip_prefix(toks, lm_info['command'])
        if len(rest) != 1 or rest[0].startswith('-'):
            raise InterpretError('%s: expected exactly one host, got %r' % (m, rest))
        return _c(np=1, hosts=rest, via='list')

    if m == 'MPIRUN':
        if lm_info.get('ccmrun'):
            toks = _strip_prefix(toks, lm_info['ccmrun'])
        toks = _strip_prefix(toks, lm_info['command'])
        np, hosts, via, i = None, None, 'none', 0
        skip = [x for x in (lm_info.get('dplace'), lm_info.get('omplace')) if x]
        while i < len(toks):
            t = toks[i]
            nxt = toks[i + 1] if i + 1 < len(toks) else None
            if t == '-np':
                np = _intarg(t, nxt); i += 2
            elif t == '-host' and hosts is None:
                hosts, via = nxt.split(','), 'list'; i += 2
            elif t in ('-hostfile', '-file') and hosts is None:
                if (t == '-file') != bool(lm_info.get('mpt')):
                    raise InterpretError('mpirun: %s with mpt=%s' % (t, lm_info.get('mpt')))
                hosts, via = parse_hostfile(read(nxt)), 'file'; i += 2
            elif t == '-gpu':
                i += 1
            elif t in skip:
                i += 1
            elif t == '-c' and lm_info.get('dplace'):
                i += 2                                     # dplace core list
            elif not t.startswith('-') and lm_info.get('mpt') and hosts is None and np is None:
                hosts, via = t.split(','), 'list'; i += 1  # MPT: hosts precede -np
            else:
                raise InterpretError('mpirun: unexpected %r in %r' % (t, cmd))
        if np is None:
            raise InterpretError('mpirun: no -np in %r' % cmd)
        return _c(np=np, hosts=hosts, via=via)

    if m == 'MPIEXEC':
        toks = _strip_prefix(toks, lm_info['command'])
        np, hosts, pins, via, i = None, None, [], 'none', 0
        while i < len(toks):
            t = toks[i]
            nxt = toks[i + 1] if i + 1 < len(toks) else None
            if t == '-np':
                np = _intarg(t, nxt); i += 2
            elif t == '-rf':
                pins  = parse_rankfile(read(nxt))
                hosts = [x['host'] for x in pins]; via = 'file'; i += 2
            elif t in ('--hostfile', '-f'):
                hosts, via = parse_hostfile(read(nxt)), 'file'; i += 2
            elif t == '--ppn':
                _intarg(t, nxt); i += 2
            elif t == '--cpu-bind':
                if not nxt.startswith('list:'):
                    raise InterpretError('mpiexec: cpu-bind %r' % nxt)
                pins = [{'host': 'none', 'cores': parse_cpu_list(x), 'gpus': []}
                        for x in nxt[5:].split(':')]
                i += 2
            elif t in ('--oversubscribe', 'omplace'):
                i += 1
            else:
                raise InterpretError('mpiexec: unexpected %r in %r' % (t, cmd))
        if np is None:
            raise InterpretError('mpiexec: no -np in %r' % cmd)
        return _c(np=np, hosts=hosts, pins=pins, via=via)

    if m == 'SRUN':
        toks = _strip_prefix(toks, lm_info['command'])
        np, nn, hosts, via, i = None, 0, None, 'none', 0
        flags = {'--export=ALL', '-K0', '-K1', '--quit-on-interrupt', '--exact',
                 '--ntasks-per-core=1', '--distribution=arbitrary'}
        valued = {'--cpus-per-task', '--threads-per-core', '--mem', '--gpus-per-task',
                  '--gpu-bind'}
        while i < len(toks):
            t = toks[i]
            nxt = toks[i + 1] if i + 1 < len(toks) else None
            key, _, val = t.partition('=')
            if t in flags:
                i += 1
            elif t == '--ntasks':
                np = _intarg(t, nxt); i += 2
            elif key == '--ntasks' and val:
                np = _intarg(key, val); i += 1
            elif t == '--nodes':
                nn = _intarg(t, nxt); i += 2
            elif key == '--nodelist' and val:
                hosts, via = val.split(','), 'list'; i += 1
            elif key == '--nodefile' and val:
                hosts = [x for x in re.split(r'[,\s]+', read(val)) if x]
                via   = 'file'; i += 1
            elif t in valued:
                i += 2
            elif key in valued and val:
                i += 1
            else:
                raise InterpretError('srun: unexpected %r in %r' % (t, cmd))
        if np is None:
            raise InterpretError('srun: no --ntasks in %r' % cmd)
        return _c(np=np, nn=nn, hosts=hosts, via=via)

    if m in ('APRUN', 'CCMRUN', 'IBRUN'):
        if m == 'IBRUN':
            if not toks or not re.match(r'^IBRUN_TASKS_PER_NODE=\d+$', toks[0]):
                raise InterpretError('ibrun: no IBRUN_TASKS_PER_NODE in %r' % cmd)
            toks = toks[1:]
        toks = _strip_prefix(toks, lm_info['command'])
        opts = {'APRUN': ('-n', '-d'), 'CCMRUN': ('-n',), 'IBRUN': ('-n', '-o')}[m]
        np, i = None, 0
        while i < len(toks):
            t = toks[i]
            nxt = toks[i + 1] if i + 1 < len(toks) else None
            if t in opts:
                v = _intarg(t, nxt)
                if t == '-n':
                    np = v
                i += 2
            else:
                raise InterpretError('%s: unexpected %r in %r' % (m, t, cmd))
        if np is None:
            raise InterpretError('%s: no -n in %r' % (m, cmd))
        return _c(np=np)

    if m == 'JSRUN':
        toks = _strip_prefix(toks, lm_info['command'])
        n = a = None
        pins, i = None, 0
        while i < len(toks):
            t = toks[i]
            nxt = toks[i + 1] if i + 1 < len(toks) else None
            mm = re.match(r'^-([nacgr])(\d+)$', t)
            if mm:
                if mm.group(1) == 'n': n = int(mm.group(2))
                if mm.group(1) == 'a': a = int(mm.group(2))
                i += 1
            elif t == '-b':
                i += 2
            elif t.startswith('--smpiargs='):
                i += 1
            elif t == '--erf_input':
                pins = parse_erf(read(nxt), index_node); i += 2
            else:
                raise InterpretError('jsrun: unexpected %r in %r' % (t, cmd))
        if pins is not None:
            if n is not None or a is not None:
                raise InterpretError('jsrun: ERF together with -n/-a in %r' % cmd)
            return _c(np=len(pins), hosts=[x['host'] for x in pins], pins=pins, via='file')
        if n is None or a is None:
            raise InterpretError('jsrun: no -n/-a in %r' % cmd)
        return _c(np=n, a=a)

    if m == 'PRTE':
        toks = _strip_prefix(toks, lm_info['command'])
        np, hosts, via, i = None, None, 'none', 0
        while i < len(toks):
            t = toks[i]
            nxt = toks[i + 1] if i + 1 < len(toks) else None
            if t == '--np':
                np = _intarg(t, nxt); i += 2
            elif t == '--host':
                hosts, via = [], 'list'
                for item in nxt.split(','):
                    h, _, k = item.rpartition(':')
                    if not h:
                        raise InterpretError('prte: host item %r' % item)
                    hosts += [h] * _intarg('--host', k)
                i += 2
            elif t in ('--dvm-uri', '--map-by', '--bind-to'):
                i += 2
            elif t == '--pmixmca':
                i += 3
            elif t == '--verbose':
                i += 1
            else:
                raise InterpretError('prte: unexpected %r in %r' % (t, cmd))
        if np is None:
            raise InterpretError('prte: no --np in %r' % cmd)
        return _c(np=np, hosts=hosts, via=via)

    raise InterpretError('no interpreter for %s' % m)


# ------------------------------------------------------------------------------
FILE_SUFFIXES = ('hf', 'hosts', 'nodes', 'rf', 'rs')


def _plain(x):
    '''ru.TypedDict / ru.Config keep their data outside the dict they derive
       from: convert to plain containers'''
    if hasattr(x, 'as_dict'):
        x = x.as_dict()
    if isinstance(x, dict):
        return {str(k): _plain(v) for k, v in x.items()}
    if isinstance(x, (list, tuple)):
        return [_plain(v) for v in x]
    return x


def config_digest(lm, nodes=False):
    '''the config objects a launcher was given: its section of the resource
       config (lm_cfg) and the resource manager's info (rm_info; its long node
       list only on request)'''
    rm = lm._rm_info
    blob = json.dumps([_plain(lm._lm_cfg),
                       {k: _plain(rm[k]) for k in list(rm.keys()) if nodes or k != 'node_list'}],
                      sort_keys=True, default=repr)
    return hashlib.sha1(blob.encode()).hexdigest()


def digest_selftest():
    '''the digest sees a change of a nested option, of rm_info.details and of
       a node entry (and nothing else differs between two instances)'''
    a, b = make_launcher('ibrun+empty'), make_launcher('ibrun+empty')
    b._rm_info = make_rm_info()
    ok = config_digest(a, True) == config_digest(b, True) and len(list(a._rm_info.keys())) > 5
    d0 = config_digest(b)
    b._lm_cfg.get('options', {}).setdefault('tasks_per_node', 3)
    ok = ok and config_digest(b) != d0
    d1 = config_digest(b)
    b._rm_info.details['x'] = 1
    ok = ok and config_digest(b) != d1
    d2 = config_digest(b, True)
    b._rm_info.node_list[-1]['cores'][0] = 1
    ok = ok and config_digest(b, True) != d2 and config_digest(a) == d0
    return ok


class Instance(object):
    '''one REAL launcher object with its own sandbox'''

    def __init__(self, cfgname, sbox=None, track_nodes=True):
        self.cfgname = cfgname
        self.spec    = spec_of(cfgname)
        self.info    = CONFIGS[cfgname][2]
        self.own     = sbox is None
        self.sbox    = sbox or tempfile.mkdtemp(prefix='rpverif_launch_', dir=TMP_ROOT)
        self.lm      = make_launcher(cfgname)
        self.old     = self.spec['m'] == 'JSRUN'
        self.ngen    = 0
        self.last_digest = None
        self.track   = track_nodes     # fresh comparison instances are not judged
        self.nodes0  = config_digest(self.lm, nodes=True) if track_nodes else None

    def nodes_untouched(self):
        return self.nodes0 is None or config_digest(self.lm, nodes=True) == self.nodes0

    def close(self):
        try:
            self.check_sandbox()
        finally:
            if self.own:
                shutil.rmtree(self.sbox, ignore_errors=True)

    def _files(self, uid):
        out = []
        for sfx in FILE_SUFFIXES:
            f = '%s.%s' % (uid, sfx)
            try:
                with open(os.path.join(self.sbox, f)) as fh:
                    out.append([f, fh.read()])
            except FileNotFoundError:
                pass
        return out

    def check_sandbox(self):
        '''nothing but the known host / rank / node / resource-set files'''
        for f in os.listdir(self.sbox):
            if f.rsplit('.', 1)[-1] not in FILE_SUFFIXES:
                raise InterpretError('unexpected file in the sandbox: %s' % f)

    def _read(self, path):
        full = os.path.realpath(path)
        if not full.startswith(os.path.realpath(self.sbox) + os.sep):
            raise InterpretError('file outside the sandbox: %s' % path)
        if not os.path.isfile(full):
            raise InterpretError('referenced file missing: %s' % path)
        with open(full) as fh:
            return fh.read()

    def gen(self, pl, openmp=False):
        '''can_launch, then (as the executor does) get_launch_cmds'''
        task = build_task(pl, self.sbox, old_slots=self.old, openmp=openmp)
        uid  = task['uid']
        exe  = '%s/%s.exec.sh' % (self.sbox, uid)
        res  = {'can': False, 'out': 'skip', 'raw': '', 'files': [], 'c': dict(EMPTY_C),
                'sig': 'refused', 'why': '', 'cfgsame': True}
        # nothing touches the launcher between two generations: the digest
        # after one call is the digest before the next
        digest = config_digest if self.track else (lambda lm: 'untracked')
        before = self.last_digest or digest(self.lm)
        can, why = self.lm.can_launch(task)
        res['can'] = bool(can)
        res['why'] = str(why)
        if not can:
            self.last_digest = digest(self.lm)
            res['cfgsame'] = self.last_digest == before
            return res
        self.ngen += 1
        try:
            cmds = self.lm.get_launch_cmds(task, exe)
        except Exception as e:
            res.update({'out': 'raise', 'sig': 'raise:%s' % type(e).__name__,
                        'why': '%s: %s' % (type(e).__name__, e),
                        'cfgsame': digest(self.lm) == before})
            self.last_digest = None
            return res
        self.last_digest = digest(self.lm)
        res['cfgsame'] = self.last_digest == before
        cmds = ru.as_list(cmds)
        if len(cmds) != 1:
            raise InterpretError('%d commands returned' % len(cmds))
        raw   = cmds[0]
        files = self._files(uid)
        norm  = raw.replace(self.sbox, '$SBOX')
        blob  = json.dumps([norm, files])
        res.update({'out': 'cmd', 'raw': norm, 'files': files,
                    'sig': hashlib.sha1(blob.encode()).hexdigest()[:16],
                    'c': interpret(self.spec, self.info, raw, exe, self._read)})
        return res


def task_json(pl):
    return {'id': pl['id'], 'mpi': pl['mpi'], 'exe': pl['exe'],
            'p': [{'node': r['node'], 'cores': list(r['cores']), 'gpus': list(r['gpus'])}
                  for r in pl['p']]}


class FreshCache(object):
    '''the same task generated on a fresh instance of the configuration'''

    def __init__(self):
        self.sbox  = tempfile.mkdtemp(prefix='rpverif_launch_', dir=TMP_ROOT)
        self.cache = {}

    def close(self):
        shutil.rmtree(self.sbox, ignore_errors=True)

    def get(self, cfgname, pl, openmp=False):
        key = (cfgname, pl['id'], openmp)
        if key not in self.cache:
            for f in os.listdir(self.sbox):
                os.unlink(os.path.join(self.sbox, f))
            inst = Instance(cfgname, sbox=self.sbox, track_nodes=False)
            self.cache[key] = inst.gen(pl, openmp=openmp)
        return self.cache[key]


def gen_event(inst, fresh, pl, openmp=False):
    r = inst.gen(pl, openmp=openmp)
    f = fresh.get(inst.cfgname, pl, openmp=openmp)
    return {'ev': 'Gen', 'task': task_json(pl), 'can': r['can'], 'out': r['out'],
            'c': r['c'], 'sig': r['sig'], 'fresh': f['sig'], 'cfgsame': r['cfgsame']}, r, f


def run_trace(cfgname, pls, fresh, openmp=False):
    '''one launcher instance, generations for pls in order -> (trace, details)'''
    inst = Instance(cfgname)
    try:
        events, details = [], []
        for pl in pls:
            ev, r, f = gen_event(inst, fresh, pl, openmp=openmp)
            events.append(ev)
            details.append({'raw': r['raw'], 'files': r['files'], 'why': r['why'],
                            'fresh_raw': f['raw'], 'fresh_files': f['files']})
        if events and not inst.nodes_untouched():
            events[-1]['cfgsame'] = False          # rm_info.node_list changed on the way
    finally:
        inst.close()
    trace = {'cfg': spec_of(cfgname), 'cfgname': cfgname,
             'local': [hostname_of(cfgname), 'localhost'], 'events': events}
    return trace, details


# ------------------------------------------------------------------------------
# find_launcher on a real ResourceManager
#
class LauncherSet(object):
    '''a ResourceManager (__new__) whose launchers were prepared by the real
       _prepare_launch_methods from a configured order; `broken` names have an
       lm_info without command, so their creation fails and the real code
       drops them from the order'''

    def __init__(self, order, broken=(), hostname=LOCAL):
        self.configured = list(order)
        self.broken     = set(broken)
        self.hostname   = hostname
        rm = ForkRM.__new__(ForkRM)
        rm.name  = 'FORK'
        rm._log  = rpshim.NullLog()
        rm._prof = rpshim.NullLog()
        rm._cfg  = ru.Config(from_dict={'pid': 'pilot.0000', 'reg_addr': 'tcp://fake:1',
                                        'resource': 'local.localhost'})
        rm._rm_info = make_rm_info()
        lms, store = {}, {}
        by_name = {}
        for cfgname in order:
            name, _, info, extras = CONFIGS[cfgname]
            if name in by_name:
                raise ValueError('launch method %s configured twice' % name)
            by_name[name] = cfgname
            lms[name] = dict(extras.get('lm_cfg', {}))
            li = dict(info)
            li.setdefault('env', {})
            li.setdefault('env_sh', 'env/lm_%s.sh' % name.lower())
            if cfgname in self.broken:
                li.pop('command', None)
                li['broken'] = True
                if name == 'FORK':
                    li.pop('env_sh')
            store['lm.%s' % name.lower()] = li
        self.names = [CONFIGS[c][0] for c in order]
        rm._rm_info.launch_methods = dict(lms, order=list(self.names))
        FakeRegistry.store = store
        ps = _patches(hostname)
        for p in ps:
            p.start()
        try:
            rm._prepare_launch_methods()
        finally:
            for p in ps:
                p.stop()
            FakeRegistry.store = {}
        for lm in rm._launchers.values():
            _no_subprocess(lm)
        self.rm   = rm
        self.sbox = tempfile.mkdtemp(prefix='rpverif_launch_', dir=TMP_ROOT)
        self.kept = list(rm._launch_order) == [CONFIGS[c][0] for c in order
                                                if c not in self.broken]
        self.specs = {CONFIGS[c][0]: spec_of(c) for c in order}

    def close(self):
        shutil.rmtree(self.sbox, ignore_errors=True)

    def find(self, pl):
        rm    = self.rm
        order = list(rm._launch_order)
        cans  = []
        before = [config_digest(rm._launchers[n]) for n in order]
        for name in order:
            lm   = rm._launchers[name]
            task = build_task(pl, self.sbox, old_slots=name.startswith('JSRUN'))
            cans.append(bool(lm.can_launch(task)[0]))
        task = build_task(pl, self.sbox)
        launcher, lname = rm.find_launcher(task)
        if launcher is None:
            sel = 0
        elif lname in order and rm._launchers[lname] is launcher:
            sel = order.index(lname) + 1
        else:
            sel = len(order) + 1                 # not one of the configured methods
        same = before == [config_digest(rm._launchers[n]) for n in order]
        return {'ev': 'Find', 'order': order, 'cfgs': [self.specs[n] for n in order],
                'cans': cans, 'sel': sel, 'kept': self.kept, 'cfgsame': same,
                'task': task_json(pl)}


def find_trace(order, broken, pls, hostname=LOCAL):
    ls = LauncherSet(order, broken, hostname)
    try:
        events = [ls.find(pl) for pl in pls]
    finally:
        ls.close()
    return {'cfg': S('NONE'), 'cfgname': 'find@%s' % hostname, 'local': [hostname, 'localhost'],
            'events': events}


# ------------------------------------------------------------------------------
# the repository's recorded launch commands, as traces for the monitor
#
RECORDED = '/repo/tests/unit_tests/test_lm/test_cases'

REC_METHODS = {'fork': 'FORK', 'ssh': 'SSH', 'rsh': 'RSH', 'mpirun': 'MPIRUN',
               'mpiexec': 'MPIEXEC', 'mpiexec_mpt': 'MPIEXEC', 'srun': 'SRUN',
               'aprun': 'APRUN', 'ccmrun': 'CCMRUN', 'ibrun': 'IBRUN', 'jsrun': 'JSRUN',
               'jsrun_erf': 'JSRUN', 'prte': 'PRTE'}


def _idx(x):
    return x['index'] if isinstance(x, dict) else x


def recorded_traces():
    '''(traces, labels): every recorded command line of the repository's unit
       test cases, interpreted and paired with the recorded slots'''
    import glob
    traces, labels = [], []
    for fn in sorted(glob.glob(os.path.join(RECORDED, 'task.*.json'))):
        tc    = ru.read_json(fn)
        setup = tc.get('setup', {}).get('lm', {})
        slots = setup.get('slots')
        res   = tc.get('results', {})
        if not isinstance(slots, list) or not slots or not isinstance(slots[0], dict):
            continue
        td     = tc['task']['description']
        flavor = setup.get('mpi_flavor')
        for key, val in sorted(res.get('lm', {}).items()):
            if key not in REC_METHODS or not isinstance(val, dict):
                continue
            cmd = val.get('launch_cmd')
            m   = REC_METHODS[key]
            if m == 'FORK':
                cmd = ''
            if cmd is None:
                continue
            if m in ('FORK', 'SSH', 'RSH') and len(slots) != 1:
                continue                   # the unit tests skip these, too
            if m != 'JSRUN' and td.get('ranks') != len(slots):
                continue                   # recorded ranks and slots disagree
            spec = S(m)
            if key == 'mpiexec' and flavor == 'PALS':
                spec = S(m, mode='pals')
            if key == 'mpiexec_mpt':
                spec = S(m, 'mpt')
            if key == 'jsrun':
                spec = S(m, mode='rs')
            if key == 'jsrun_erf':
                spec = S(m, mode='erf')
            words = cmd.split()
            info  = {'command': (words[1] if m == 'IBRUN' else words[0]) if words else '',
                     'mpt': False}
            rfile = res.get('resource_file', {}).get(key if key != 'mpiexec_mpt' else 'mpiexec')
            text  = ''.join(rfile) if rfile else None

            def read(path, text=text):
                if text is None:
                    raise InterpretError('no recorded file for %s' % path)
                return text

            if m == 'JSRUN':
                # the unit tests run jsrun with _in_pytest: every core of a slot
                # is a rank of the resource set, its gpu the slot's first one
                p = []
                for s in slots:
                    g = [_idx(x) for x in s['gpus']][:1]
                    for c in s['cores']:
                        p.append({'node': s['node_name'], 'cores': [_idx(c)], 'gpus': g})
            else:
                p = [{'node': s['node_name'], 'cores': [_idx(c) for c in s['cores']],
                      'gpus': [_idx(g) for g in s['gpus']]} for s in slots]
            pl = finish_pl(p, 1, False, True)
            idx = {str(x['node_index']): x['node_name'] for x in slots}
            c   = interpret(spec, info, cmd, '', read, index_node=idx)
            ev = {'ev': 'Gen', 'task': task_json(pl), 'can': True, 'out': 'cmd', 'c': c,
                  'sig': 'recorded', 'fresh': 'recorded', 'cfgsame': True}
            traces.append({'cfg': spec, 'cfgname': 'recorded:' + key,
                           'local': [s['node_name'] for s in slots] + ['localhost'],
                           'events': [ev]})
            labels.append('%s:%s' % (os.path.basename(fn), key))
    return traces, labels
