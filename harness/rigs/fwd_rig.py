'''
Forwarding rig (C16): one client and N pilots, every side with its own local
control / state pubsub, all of them attached to the proxy control / state
pubsub through the REAL `Session._crosswire_proxy` / `Session.crosswire_pubsub`.

The sessions are created by the REAL `Session.__init__` (client: primary role,
no cfg, RP_PILOT_ID unset; pilots: agent_0 role with the agent config the
pilot launcher writes - uid 'agent_0', pid 'pilot.000N' - and RP_PILOT_ID set
as bootstrap_0.sh exports it).  Only the role specific start-up
(`_init_primary` / `_init_agent_0`: registry, proxy, components) is replaced
by a stub which installs logger / registry stand-ins and calls the real
`_crosswire_proxy()`.  The identity (`_module`) each side stamps on messages
and compares origins with is therefore the one the code computes; the rig
only reads it back (`ident`).  Deliveries are judged per *place* (the local
pubsub of client / pilot.000N), identities are part of the trace.

`ru.zmq.Publisher` / `ru.zmq.Subscriber` are replaced (mock.patch.object, only
while the sessions wire themselves) by endpoints of an in-memory fabric: one
FIFO queue per (publisher, subscriber) pair of a bridge, messages serialised
with the real msgpack helpers of radical.utils, topic filter = prefix match as
in ZeroMQ.  Nothing moves until the rig delivers: one delivery takes the head
of one queue and runs the subscriber's callback - for the forwarders that is
the real `pubsub_fwd` closure, which publishes through its fabric publisher.

Ordinary traffic enters through the real `BaseComponent.publish` /
`AgentComponent.advance` / `ClientComponent.advance` of components built with
`__new__` whose publishers are fabric endpoints.

Ghost data (message id, hop count) travels in the fabric envelope, never in
the payload the real code sees.
'''

import os
import collections
import threading as mt

from unittest import mock

from .. import rpshim

rp  = rpshim.load()

import radical.utils as ru                                        # noqa: E402

from radical.utils.serialize import to_msgpack, from_msgpack      # noqa: E402

from radical.pilot                 import session   as rp_session  # noqa: E402
from radical.pilot                 import constants as rpc         # noqa: E402
from radical.pilot                 import states    as rps         # noqa: E402
from radical.pilot                 import messages  as rpm         # noqa: E402
from radical.pilot.utils.component import AgentComponent, ClientComponent  # noqa: E402

from radical.pilot.pilot_manager import PilotManager               # noqa: E402
from radical.pilot                 import pilot     as rp_pilot    # noqa: E402
from radical.pilot                 import proxy     as rp_proxy    # noqa: E402
from radical.pilot.utils           import component as rp_comp     # noqa: E402

Session = rp_session.Session

KINDS   = {'control': (rpc.CONTROL_PUBSUB, rpc.PROXY_CONTROL_PUBSUB),
           'state'  : (rpc.STATE_PUBSUB,   rpc.PROXY_STATE_PUBSUB)}
CLIENT  = 'client'
MAXHOPS = 2


class RigError(Exception):
    '''the rig itself is used wrongly (machinery)'''


class NoResult(Exception):
    '''a blocking rpc call: everything is delivered, the result event is not set'''


def pilot_id(i):
    return 'pilot.%04d' % i


def fwd_class(msg):
    if not isinstance(msg, dict) or 'fwd' not in msg:
        return 'absent'
    return 'true' if msg['fwd'] else 'false'


def origin_class(msg):
    if not isinstance(msg, dict) or 'origin' not in msg:
        return 'absent'
    return str(msg['origin'])


# ------------------------------------------------------------------------------
class Envelope(object):
    __slots__ = ('data', 'gid', 'hops')

    def __init__(self, data, gid, hops):
        self.data, self.gid, self.hops = data, gid, hops

    def decode(self):
        topic, bmsg = self.data.split(b' ', 1)
        return ru.as_string(topic), ru.as_string(from_msgpack(bmsg))


class Bridge(object):
    '''stands for one ru.zmq.PubSub bridge process'''
    def __init__(self, channel, kind, scope, side):
        self.channel, self.kind, self.scope, self.side = channel, kind, scope, side
        self.addr_pub = 'fab://%s/%s/pub' % (side, channel)
        self.addr_sub = 'fab://%s/%s/sub' % (side, channel)
        self.pubs, self.subs = [], []
        self.down = False                 # the hosting worker was told to terminate


class Fabric(object):

    def __init__(self):
        self.by_pub = {}
        self.by_sub = {}
        self.queues = collections.OrderedDict()     # (pub, sub) -> deque
        self.owner  = None                          # (role kind, side) while wiring
        self.ctx    = None                          # envelope being delivered / root
        self.outs   = None
        self.ngid   = 0
        self.sync   = None                          # rig: real code publishes on its own
        self.rig    = None

    def add_bridge(self, b):
        self.by_pub[b.addr_pub] = b
        self.by_sub[b.addr_sub] = b
        return b

    def inflight(self):
        return sum(len(q) for q in self.queues.values())


FABRIC = None    # the fabric the fake endpoints attach to while a rig wires


class FakePublisher(object):
    '''ru.zmq.Publisher stand-in (same constructor signature)'''
    def __init__(self, channel, url=None, log=None, prof=None, path=None):
        fab = FABRIC
        if fab is None or fab.owner is None:
            raise RigError('publisher created outside of a wiring phase')
        if url not in fab.by_pub:
            raise RigError('publisher for %s connects to %r which is no pub address' % (channel, url))
        self.fab, self.bridge = fab, fab.by_pub[url]
        self.channel, self.url = channel, url
        own, self.side = fab.owner
        # a forwarder publishing on the proxy is the local->proxy one
        self.role = 'app' if own == 'app' else ('l2p' if self.bridge.scope == 'proxy' else 'p2l')
        self.bridge.pubs.append(self)

    def put(self, topic, msg):
        assert isinstance(topic, str), 'invalid topic type'
        fab = self.fab
        if fab.ctx is None:
            if fab.sync is None:
                raise RigError('put outside of a publish / delivery step')
            # real code (Session.close, PilotManager.close) publishes by itself:
            # one Publish step, then everything in flight is delivered
            return fab.sync.free_publish(self, topic, msg)
        if self.role == 'app' and isinstance(fab.ctx, Envelope):
            # an ordinary component publishes from inside its subscriber callback
            # (an RPC result): that is a message of its own, not a forwarded copy
            return fab.rig.nested_publish(self, topic, msg)
        data = ru.as_bytes(topic.replace(' ', '_')) + b' ' + to_msgpack(msg)
        env  = (fab.ctx.gid, fab.ctx.hops + 1)
        fan  = 0
        for sub in self.bridge.subs:
            if sub.stopped or self.bridge.down:
                # a dead endpoint: the publisher does not notice, nobody gets it
                continue
            if not any(data.startswith(ru.as_bytes(t)) for t in sub.topics):
                continue
            fab.queues.setdefault((self, sub), collections.deque()) \
                      .append(Envelope(data, env[0], env[1]))
            fan += 1
        wire = ru.as_string(from_msgpack(to_msgpack(msg)))
        isreq = isinstance(wire, dict) and wire.get('_msg_type') == rpm.RPCRequestMessage._msg_type
        fab.outs.append({'scope': self.bridge.scope, 'kind': self.bridge.kind,
                         'origin': origin_class(wire), 'fwd': fwd_class(wire),
                         'hops': env[1], 'fan': fan,
                         'ruid': str(wire.get('uid')) if isreq else 'none',
                         'raddr': str(wire.get('addr')) if isreq else 'none'})


class FakeSubscriber(object):
    '''ru.zmq.Subscriber stand-in (same constructor signature)'''
    def __init__(self, channel, url=None, topic=None, cb=None, log=None, prof=None, path=None):
        fab = FABRIC
        if fab is None or fab.owner is None:
            raise RigError('subscriber created outside of a wiring phase')
        if url not in fab.by_sub:
            raise RigError('subscriber for %s connects to %r which is no sub address' % (channel, url))
        self.fab, self.bridge = fab, fab.by_sub[url]
        self.channel, self.url = channel, url
        self.topics = [str(t).replace(' ', '_') for t in ru.as_list(topic)]
        self.cbs    = [cb] if cb else []
        self.stopped = False
        own, self.side = fab.owner
        self.role = 'app' if own == 'app' else ('p2l' if self.bridge.scope == 'proxy' else 'l2p')
        self.bridge.subs.append(self)

    def subscribe(self, topic, cb=None, lock=None):
        if cb:
            self.cbs.append(cb)
        self.topics.append(str(topic).replace(' ', '_'))

    def stop(self):
        # the listener thread ends: nothing is delivered to the callbacks anymore
        self.stopped = True


class _Root(object):
    '''delivery context of an ordinary publish: hops start at 0'''
    def __init__(self, gid):
        self.gid, self.hops = gid, -1


# ------------------------------------------------------------------------------
class Registry(dict):
    '''registry client stand-in: bridge addresses of one side'''
    def dump(self, *a, **k): pass
    def close(self, *a, **k): pass


SID = 'rp.session.verif.0000'


def agent_cfg(pid, pmgr='pmgr.0000'):
    '''agent_0 config as PMGRLaunchingComponent._prepare_pilot writes it (the
       keys a session could possibly take its identity from)'''
    return {'uid': 'agent_0', 'sid': SID, 'pid': pid, 'owner': pid, 'pmgr': pmgr,
            'resource': 'local.localhost', 'nodes': 1, 'cores': 1, 'gpus': 0,
            'pilot_sandbox': '/tmp', 'session_sandbox': '/tmp', 'resource_sandbox': '/tmp'}


class FwdRig(object):

    def __init__(self, npilots, bound=None, tag='0', with_rpc=False):
        '''tag: names the worker hosting the proxy pubsubs (their addresses);
           with_rpc: the ordinary control subscriber of every side also runs the real
           BaseComponent._control_cb (RPC handling) of that side's component'''
        global FABRIC
        self.tag, self.with_rpc = tag, with_rpc
        self.handles = {}                                # pilot id -> real Pilot (client side)
        self.reqs     = {}                               # request uid -> address it names
        self.served   = {}                               # side -> runs of its rpc handler
        self.clock    = 0                                # virtual seconds spent in timed waits
        self.advances = []                               # bulks published through advance()
        self.updates  = {}                               # (side, uid, state) -> state updates seen
        self._sync_drain = True
        self.sides  = [CLIENT] + [pilot_id(i) for i in range(npilots)]
        self.kinds  = list(KINDS)
        self.fab    = Fabric()
        self.events = []
        self.got    = {s: {} for s in self.sides}        # place -> gid -> count
        self.pubrec = {}                                 # gid -> publish event
        self.ident  = {}                                 # place -> Session._module
        self.sessions, self.comps, self.apps = {}, {}, {}
        self.pmgrs  = []
        self.bound  = bound
        self._wiring = None

        fab = self.fab
        fab.rig = self
        self.local = {}
        self.proxy = {}
        for k in self.kinds:
            loc, prx = KINDS[k]
            self.proxy[k] = fab.add_bridge(Bridge(prx, k, 'proxy', 'proxy.%s' % tag))
            for s in self.sides:
                self.local[s, k] = fab.add_bridge(Bridge(loc, k, 'local', s))

        rig = self

        def startup(ses):
            # stands for _init_primary / _init_agent_0: logger, registry,
            # (client) control publisher - then the REAL crosswiring
            side = rig._wiring
            ses._log, ses._prof, ses._rep = rpshim.NullLog(), rpshim.NullLog(), rpshim.NullLog()
            ses._reg      = Registry(rig._registry(side))
            ses._cfg.path = '/tmp'
            if ses._role == Session._PRIMARY:
                fab.owner = ('app', side)
                ses._reg_service = rpshim.NullLog()
                ses._ctrl_sub    = rpshim.NullLog()
                ses._ctrl_pub    = ru.zmq.Publisher(
                    channel=rpc.CONTROL_PUBSUB, url=ses._reg['bridges.control_pubsub.addr_pub'])
            fab.owner = ('fwd', side)
            ses._crosswire_proxy()              # REAL: four crosswire_pubsub calls

        FABRIC = fab
        try:
            with mock.patch.object(ru.zmq, 'Publisher', FakePublisher), \
                 mock.patch.object(ru.zmq, 'Subscriber', FakeSubscriber), \
                 mock.patch.object(Session, '_init_primary', startup), \
                 mock.patch.object(Session, '_init_agent_0', startup):
                for s in self.sides:
                    self._wire_side(s)
        finally:
            FABRIC    = None
            fab.owner = None

    # ----------------------------------------------------------------------
    def _registry(self, side):
        reg = {}
        for k in KINDS:
            loc, prx = KINDS[k]
            lb, pb = self.local[side, k], self.proxy[k]
            reg['bridges.%s.addr_pub' % loc] = lb.addr_pub
            reg['bridges.%s.addr_sub' % loc] = lb.addr_sub
            reg['bridges.%s.addr_pub' % prx] = pb.addr_pub
            reg['bridges.%s.addr_sub' % prx] = pb.addr_sub
        return reg

    def _wire_side(self, side):
        fab = self.fab

        # the session of this side through the REAL constructor: it computes
        # the identity (_module) the forwarders stamp and compare
        self._wiring = side
        env = {k: v for k, v in os.environ.items() if k != 'RP_PILOT_ID'}
        if side == CLIENT:
            with mock.patch.dict(os.environ, env, clear=True):
                ses = Session(uid=SID, _role=Session._PRIMARY)
        else:
            env['RP_PILOT_ID'] = side           # bootstrap_0.sh: export RP_PILOT_ID="$PILOT_ID"
            with mock.patch.dict(os.environ, env, clear=True):
                ses = Session(uid=SID, cfg=agent_cfg(side), _role=Session._AGENT_0)
        self._wiring = None
        self.sessions[side] = ses
        self.ident[side]    = str(ses._module)

        # ordinary component of this side: real publish / advance, fabric publishers
        fab.owner = ('app', side)
        cls  = ClientComponent if side == CLIENT else AgentComponent
        comp = cls.__new__(cls)
        comp._log, comp._prof = rpshim.NullLog(), rpshim.NullLog()
        comp._outputs    = {}
        comp._publishers = {}
        comp._uid          = 'verif.%s' % side
        comp._rpc_handlers = {}
        comp._rpc_reqs     = {}
        comp._cancel_lock  = mt.Lock()
        comp._cancel_list  = []
        # as agent_0 does for its pilot: handlers are addressed by the side
        def echo(*a, **k):
            self.served[side] = self.served.get(side, 0) + 1
            return [side] + list(a)
        comp.register_rpc_handler('verif_echo', echo, rpc_addr=side)
        for k in self.kinds:
            b = self.local[side, k]
            comp._publishers[b.channel] = FakePublisher(b.channel, url=b.addr_pub)
            self.apps[side, k] = FakeSubscriber(b.channel, url=b.addr_sub, topic=b.channel,
                                                cb=self._app_cb(side, k))
        self.comps[side] = comp

    def add_pmgr(self, uid, pids):
        '''a real PilotManager of the client session (no components; waiting
           for pilot states is mocked): its close() publishes cancel_pilots /
           kill_pilots through the real code'''
        global FABRIC
        ses  = self.sessions[CLIENT]
        pmgr = PilotManager.__new__(PilotManager)
        pmgr._uid, pmgr._session, pmgr._closed = uid, ses, False
        pmgr._log, pmgr._prof, pmgr._rep = rpshim.NullLog(), rpshim.NullLog(), mock.MagicMock()
        pmgr._cmgr        = rpshim.NullLog()
        pmgr._pcb_lock    = mt.RLock()
        pmgr._pilots_lock = mt.RLock()
        pmgr._callbacks   = {}
        pmgr._terminate   = mt.Event()
        pmgr._term        = mt.Event()
        pmgr._inputs      = {}
        pmgr._subscribers = {}
        pmgr._pilots      = {pid: mock.MagicMock() for pid in pids}
        pmgr.wait_pilots  = mock.MagicMock()
        pmgr.dump         = mock.MagicMock()
        b = self.local[CLIENT, 'control']
        FABRIC, self.fab.owner = self.fab, ('app', CLIENT)
        try:
            pmgr._publishers = {b.channel: FakePublisher(b.channel, url=b.addr_pub)}
        finally:
            FABRIC, self.fab.owner = None, None
        ses._pmgrs[uid] = pmgr
        self.pmgrs.append(pmgr)
        return pmgr

    def close_client(self, rng=None):
        '''REAL Session.close(terminate=True) of the client session while all
           pilots are connected.  What the closing code publishes is delivered
           at once (to rest) before close() goes on - a subscriber stopped by
           then gets nothing'''
        self._sync_rng, self._sync_via = rng, 'close'
        self.fab.sync  = self
        try:
            self.sessions[CLIENT].close(terminate=True)
        finally:
            self.fab.sync = None

    def free_publish(self, pub, topic, msg):
        fab = self.fab
        fab.ngid += 1
        gid = fab.ngid
        fab.ctx, fab.outs = _Root(gid), []
        try:
            pub.put(topic, msg)
        finally:
            outs, fab.ctx, fab.outs = fab.outs, None, None
        self._log_publish(pub.side, pub.bridge.kind, gid, outs, self._sync_via)
        if self._sync_drain and not self.drain(self._sync_rng):
            raise RigError('messages circulate')

    def _app_cb(self, side, kind):
        def cb(topic, msg):
            gid = self.fab.ctx.gid
            self.got[side][gid] = self.got[side].get(gid, 0) + 1
            if kind == 'state' and isinstance(msg, dict) and msg.get('cmd') == 'update':
                # what a state subscriber (task manager, ...) of this side learns
                for t in ru.as_list(msg.get('arg')):
                    if isinstance(t, dict) and 'uid' in t:
                        k = (side, t['uid'], t.get('state'))
                        self.updates[k] = self.updates.get(k, 0) + 1
            if self.with_rpc and kind == 'control':
                # the component of this side: REAL _control_cb -> _handle_rpc_msg
                self.comps[side]._control_cb(topic, msg)
                if side == CLIENT:
                    for h in self.handles.values():
                        h._control_cb(topic, msg)         # REAL Pilot._control_cb
        return cb

    # ----------------------------------------------------------------------
    def nested_publish(self, pub, topic, msg):
        '''a component publishes from inside its control callback: a new message
           (RPC result); `re` links it to the request being delivered'''
        fab = self.fab
        parent, pouts = fab.ctx, fab.outs
        fab.ngid += 1
        gid  = fab.ngid
        wire = ru.as_string(from_msgpack(to_msgpack(msg)))
        is_res = isinstance(wire, dict) and wire.get('_msg_type') == rpm.RPCResultMessage._msg_type
        fab.ctx, fab.outs = _Root(gid), []
        try:
            pub.put(topic, msg)
        finally:
            outs, fab.ctx, fab.outs = fab.outs, parent, pouts
        self._log_publish(pub.side, pub.bridge.kind, gid, outs, 'reply',
                          re=parent.gid if is_res else 0)

    def publish_req(self, a, b):
        '''side a sends an RPC request addressed to side b (what BaseComponent.rpc /
           Pilot.rpc put on the wire, without waiting for the result)'''
        fab = self.fab
        fab.ngid += 1
        gid = fab.ngid
        req = rpm.RPCRequestMessage(uid='rpc.%s.%04d' % (self.tag, gid), cmd='verif_echo',
                                    addr=b, args=[gid], kwargs={})
        self.comps[a]._rpc_reqs[req.uid] = {'req': req, 'res': None, 'evt': mt.Event(), 'time': 0}
        fab.ctx, fab.outs = _Root(gid), []
        try:
            self.comps[a].publish(rpc.CONTROL_PUBSUB, req)
        finally:
            outs, fab.ctx, fab.outs = fab.outs, None, None
        return self._log_publish(a, 'control', gid, outs, 'rpc_req')

    def add_pilot_handle(self, pid):
        '''a real Pilot object of the client application (waiting for states mocked)'''
        global FABRIC
        h = rp_pilot.Pilot.__new__(rp_pilot.Pilot)
        h._uid, h._log, h._rpc_reqs = pid, rpshim.NullLog(), {}
        h.wait = mock.MagicMock()
        b = self.local[CLIENT, 'control']
        FABRIC, self.fab.owner = self.fab, ('app', CLIENT)
        try:
            h._ctrl_pub = FakePublisher(b.channel, url=b.addr_pub)
        finally:
            FABRIC, self.fab.owner = None, None
        self.handles[pid] = h
        return h

    def rpc_call(self, a, b, rng=None, delay=0):
        '''the REAL blocking call: Pilot.rpc (client -> pilot) or BaseComponent.rpc
           (any other pair).  The result event's wait(timeout) runs on a virtual
           clock: the first `delay` waits time out with nothing delivered (a slow
           pilot / proxy), the next one delivers everything in flight; no result
           at rest ends the call (the real code would wait on).  b may name an
           address nobody serves: the reply never comes'''
        rig = self
        waits = [0]

        class DrainEvent(object):
            def __init__(self): self._f = False
            def set(self): self._f = True
            def is_set(self): return self._f
            def wait(self, timeout=None):
                rig.clock += int(timeout or 0)
                waits[0] += 1
                if waits[0] <= delay:
                    return self._f              # timed out: nothing moved meanwhile
                rig.drain(rng)
                if not self._f:
                    if waits[0] <= delay + 2:
                        return False            # two more periods, then give up
                    raise NoResult()
                return True

        class MT(object):
            Event = DrainEvent
            def __getattr__(self, k): return getattr(mt, k)

        self._sync_rng, self._sync_via = rng, 'rpc_call'
        self._sync_drain = not delay            # delayed: what is published waits in the queues
        self.fab.sync = self
        try:
            with mock.patch.object(rp_comp, 'mt', MT()), mock.patch.object(rp_pilot, 'mt', MT()):
                if a == CLIENT and b in self.handles:
                    return self.handles[b].rpc('verif_echo', 7)
                return self.comps[a].rpc('verif_echo', 7, rpc_addr=b)
        except NoResult:
            return None
        finally:
            self.fab.sync, self._sync_drain = None, True

    # ----------------------------------------------------------------------
    def _payload(self, gid, origin, fwd, via):
        if via == 'dict':
            msg = {'cmd': 'verif', 'arg': {'n': gid}}
        elif via == 'rpc_req':
            msg = rpm.RPCRequestMessage(uid='rpc.%04d' % gid, cmd='verif', addr='nobody')
        elif via == 'rpc_res':
            msg = rpm.RPCResultMessage(uid='rpc.%04d' % gid, val=gid)
        elif via == 'comp_start':
            msg = rpm.ComponentStartedMessage(uid='comp.%04d' % gid, pid=gid)
        else:
            raise RigError('unknown message form %r' % via)
        if origin != 'asis':
            if origin == 'absent':
                if 'origin' in msg: del msg['origin']
            else:
                msg['origin'] = origin
        if fwd != 'asis':
            if fwd == 'absent':
                if 'fwd' in msg: del msg['fwd']
            else:
                msg['fwd'] = (fwd == 'true')
        return msg

    def publish(self, side, kind, origin='absent', fwd='absent', via='dict'):
        '''an ordinary component of `side` publishes one message on its local
           `kind` pubsub through the real BaseComponent.publish'''
        fab = self.fab
        fab.ngid += 1
        gid = fab.ngid
        if origin == 'own':
            origin = self.ident[side]
        msg = self._payload(gid, origin, fwd, via)
        fab.ctx, fab.outs = _Root(gid), []
        try:
            self.comps[side].publish(KINDS[kind][0], msg)
        finally:
            outs, fab.ctx, fab.outs = fab.outs, None, None
        return self._log_publish(side, kind, gid, outs, via)

    def advance_bulk(self, side, tasks, state, fwd=True, push=False, preset=False):
        '''the publication API of the components: REAL (Agent|Client)Component
           .advance(things, state, publish=True, push=.., fwd=..) for a bulk of tasks
           [(uid, origin)] - origin 'client', 'raptor' or 'agent'.  However many
           messages the call publishes, each is a Publish step of its own; nothing
           is delivered yet.  preset: the state is set on the things, not passed'''
        comp   = self.comps[side]
        things = [{'uid': uid, 'type': 'task', 'state': state if preset else rps.NEW,
                   'origin': origin, 'description': {}} for uid, origin in tasks]

        class Out(object):
            channel = 'verif_output'
            def put(self, things, qname=None): pass
        comp._outputs = {state: Out()}
        self._sync_rng, self._sync_via, self._sync_drain = None, 'advance', False
        self.fab.sync = self
        try:
            kw = {} if fwd is None else {'fwd': fwd}
            comp.advance(things, None if preset else state, publish=True, push=push, ts=1, **kw)
        finally:
            self.fab.sync, self._sync_drain = None, True
        asked = fwd is True or (fwd is None and side != CLIENT)
        self.advances.append({'side': side, 'asked': asked,
                              'tasks': [(t['uid'], t['origin'], t['state']) for t in things]})

    def log_updates(self):
        '''at rest: how often the client side saw the update of each of ITS tasks
           that a pilot published with the forward flag'''
        for a in self.advances:
            if a['side'] == CLIENT or not a['asked']:
                continue
            for uid, origin, state in a['tasks']:
                if origin == 'client':
                    self.events.append({'ev': 'Update', 'side': CLIENT, 'uid': uid, 'state': str(state),
                                        'from': a['side'],
                                        'n': self.updates.get((CLIENT, uid, state), 0)})
        self.advances = []

    def publish_advance(self, side, fwd=None):
        '''a state update through the real (Agent|Client)Component.advance;
           fwd=None uses the default of the class'''
        fab = self.fab
        fab.ngid += 1
        gid = fab.ngid
        thing = {'uid': 'task.%06d' % gid, 'type': 'task', 'state': rps.NEW}
        state = rps.AGENT_EXECUTING if side != CLIENT else rps.TMGR_SCHEDULING
        fab.ctx, fab.outs = _Root(gid), []
        try:
            if fwd is None:
                self.comps[side].advance(thing, state, publish=True, push=False, ts=1)
            else:
                self.comps[side].advance(thing, state, publish=True, push=False, ts=1, fwd=fwd)
        finally:
            outs, fab.ctx, fab.outs = fab.outs, None, None
        return self._log_publish(side, 'state', gid, outs, 'advance')

    def _log_publish(self, side, kind, gid, outs, via, re=0):
        if len(outs) != 1:
            raise RigError('ordinary publish made %d puts' % len(outs))
        o  = outs[0]
        ev = {'ev': 'Publish', 'side': side, 'ident': self.ident[side], 'kind': o['kind'],
              'id': gid, 'via': via, 'origin': o['origin'], 'fwd': o['fwd'], 'fan': o['fan'],
              're': re, 'ruid': o.get('ruid', 'none')}
        if ev['ruid'] != 'none':
            self.reqs[ev['ruid']] = o.get('raddr')
        if o['kind'] != kind or o['scope'] != 'local':
            raise RigError('ordinary publish went to %s/%s' % (o['scope'], o['kind']))
        self.pubrec[gid] = ev
        self.events.append(ev)
        return ev

    # ----------------------------------------------------------------------
    def links(self):
        '''non-empty (publisher, subscriber) queues in creation order'''
        return [k for k, q in self.fab.queues.items() if q]

    def find_link(self, kind, subrole, subside, pubrole, pubside):
        for (p, s), q in self.fab.queues.items():
            if q and s.role == subrole and s.side == subside and p.role == pubrole \
                    and p.side == pubside and s.bridge.kind == kind:
                return (p, s)
        return None

    def head(self, link):
        return self.fab.queues[link][0]

    def deliver(self, link):
        '''one delivery: head of the queue -> callback(s) of the subscriber'''
        fab = self.fab
        pub, sub = link
        env = fab.queues[link].popleft()
        topic, msg = env.decode()
        wire_o, wire_f = origin_class(msg), fwd_class(msg)
        if sub.stopped or sub.bridge.down:
            # the subscriber was stopped / the bridge shut down with this message on its way
            ev = {'ev': 'Lost', 'sub': sub.role, 'side': sub.side, 'kind': sub.bridge.kind,
                  'id': env.gid, 'hops': env.hops}
            self.events.append(ev)
            return ev
        fab.ctx, fab.outs = env, []
        exc = 'none'
        try:
            for cb in sub.cbs:
                # Subscriber._listener: a raising callback is logged, the
                # listener goes on with the next message
                try:
                    cb(topic, msg)
                except RigError:
                    raise
                except Exception as e:
                    exc = repr(e)[:200]
        finally:
            outs, fab.ctx, fab.outs = fab.outs, None, None
        ev = {'ev': 'Deliver', 'sub': sub.role, 'side': sub.side, 'src': pub.role,
              'from': pub.side, 'kind': sub.bridge.kind, 'id': env.gid, 'hops': env.hops,
              'origin': wire_o, 'fwd': wire_f, 'outs': outs, 'exc': exc,
              'got': self.got[sub.side].get(env.gid, 0) if sub.role == 'app' else 0}
        self.events.append(ev)
        return ev

    def quiet(self, drained=True):
        if drained:
            self.log_updates()
            for side in self.sides:
                reqs = len([1 for addr in self.reqs.values() if addr == side])
                if reqs or self.served.get(side):
                    self.events.append({'ev': 'Served', 'side': side, 'reqs': reqs,
                                        'runs': self.served.get(side, 0)})
        ev = {'ev': 'Quiet', 'drained': bool(drained), 'left': self.fab.inflight()}
        self.events.append(ev)
        return ev

    def drain(self, rng=None):
        '''deliver until nothing is in flight (or the bound is hit: circulation)'''
        bound = self.bound or (60 * max(1, self.fab.ngid) * len(self.sides) ** 2)
        n = 0
        while True:
            ls = self.links()
            if not ls:
                return True
            if n >= bound:
                return False
            self.deliver(rng.choice(ls) if rng else ls[0])
            n += 1

    def got_table(self):
        n = self.fab.ngid
        return {s: [self.got[s].get(i, 0) for i in range(1, n + 1)] for s in self.sides}

    def trace(self):
        return {'sides': list(self.sides), 'idents': [self.ident[s] for s in self.sides],
                'nmsgs': self.fab.ngid, 'events': self.events}


# ------------------------------------------------------------------------------
# the proxy service (proxy.py) hosting the proxy pubsubs of several sessions
#
class _Term(object):
    '''mp.Event handed to a worker: set = shut the session's proxy pubsubs down'''
    def __init__(self): self._f, self.on_set = False, None
    def is_set(self): return self._f
    def wait(self, timeout=None): return self._f
    def set(self):
        self._f = True
        if self.on_set:
            self.on_set()


class _Queue(object):
    def __init__(self): self.items = []
    def put(self, x): self.items.append(x)
    def get(self, timeout=None):
        if not self.items:
            import queue
            raise queue.Empty()
        return self.items.pop(0)


class ProxyRig(object):
    '''REAL Proxy._register / _lookup / _unregister / _heartbeat / _monitor on a
       Proxy.__new__ object.  `mp` of the proxy module is replaced by fakes: the
       "worker process" of a session is a FwdRig (client + pilots of that
       session, wired by the real code) whose proxy pubsubs go down when the
       worker's termination event is set.  `time` of the proxy module is a
       virtual clock in ticks of _TIMEOUT / timeout_ticks seconds.'''

    T0 = 1000000

    def __init__(self, sessions, npilots=1, timeout_ticks=2, with_rpc=False):
        self.sessions = list(sessions)
        self.npilots  = npilots if isinstance(npilots, dict) else {s: npilots for s in sessions}
        self.timeout  = timeout_ticks
        self.tick     = rp_proxy._TIMEOUT / float(timeout_ticks)
        self.now      = 0
        self.events   = []
        self.workers  = {}      # sid -> current worker record
        self.rigs     = []      # every FwdRig ever hosted (sid, incarnation, rig)
        self.cfgs     = {}      # sid -> cfg the worker announced
        self.with_rpc = with_rpc
        self._pass    = 0

        self.all_workers = []   # every worker ever spawned, in spawn order
        self.mode        = 'intime'   # how the next spawned worker reports its endpoints
        self.requests    = {}   # request name -> handler, as the real constructor registers them
        rig = self

        class Process(object):
            def __init__(self, target=None, args=()):
                self.sid, self.q, self.term = args[0], args[1], args[2]
                self.joined, self.rig, self.killed, self.reported = False, None, False, False
                self.mode = rig.mode
            def start(self):
                # Proxy._worker: start the session's proxy pubsubs, announce their addresses
                n = len([1 for r in rig.rigs if r[0] == self.sid])
                self.rig = FwdRig(rig.npilots[self.sid], tag='%s.%d' % (self.sid, n),
                                  with_rpc=rig.with_rpc)
                self.term.on_set = self.shutdown
                cfg = {b.channel: {'addr_pub': b.addr_pub, 'addr_sub': b.addr_sub}
                       for b in self.rig.proxy.values()}
                rig.rigs.append((self.sid, n, self.rig))
                rig.workers[self.sid] = self
                rig.cfgs[self.sid]    = cfg
                rig.all_workers.append(self)
                self.cfg = cfg
                if self.mode == 'intime':
                    self.report()
            def report(self):
                # q.put(cfg) of Proxy._worker: in time, or late (the put raced the kill)
                self.reported = True
                self.q.put(self.cfg)
            def shutdown(self):
                for b in self.rig.proxy.values():
                    b.down = True
            def is_up(self): return not self.killed and not self.term.is_set()
            def join(self, timeout=None): self.joined = True
            def terminate(self):
                self.killed = True
                self.shutdown()

        class MP(object):
            Queue, Event = _Queue, _Term
        MP.Process = Process

        class Time(object):
            @staticmethod
            def time(): return rig.T0 + rig.now * rig.tick
            @staticmethod
            def sleep(x): pass

        self._mp, self._time = MP, Time

        # the service object through its REAL constructor: only the zmq server base
        # class and the monitor thread are stand-ins (the monitor loop is run pass
        # by pass by the rig)
        class Thread(object):
            def __init__(self, target=None, args=(), **kw): self.daemon = False
            def start(self): pass

        class MT(object):
            def __getattr__(self, k): return getattr(mt, k)
        MT.Thread = Thread

        def server_init(srv, uid=None, url=None, path=None, **kw):
            srv._uid, srv._url, srv._path, srv._log = uid, url, path or '/tmp', rpshim.NullLog()

        def register_request(srv, name, cb):
            rig.requests[name] = cb

        with mock.patch.object(rp_proxy, 'mp', MP), mock.patch.object(rp_proxy, 'mt', MT()), \
             mock.patch.object(ru.zmq.Server, '__init__', server_init), \
             mock.patch.object(ru.zmq.Server, 'register_request', register_request):
            self.proxy = rp_proxy.Proxy(path='/tmp')
        for name in ('register', 'lookup', 'unregister', 'heartbeat'):
            if name not in self.requests:
                raise RigError('Proxy() registers no %r request' % name)

    # ----------------------------------------------------------------------
    def _patched(self):
        import contextlib
        st = contextlib.ExitStack()
        st.enter_context(mock.patch.object(rp_proxy, 'mp', self._mp))
        st.enter_context(mock.patch.object(rp_proxy, 'time', self._time))
        return st

    def state(self):
        out = []
        for sid in self.sessions:
            c = self.proxy._clients.get(sid)
            w = self.workers.get(sid)
            hb = int(round((c['hb'] - self.T0) / self.tick)) if c else 0
            out.append({'reg': bool(c), 'up': bool(w and w.is_up()), 'hb': max(hb, 0)})
        return out

    def own_cfg(self, sid):
        '''endpoints of the live channel worker of the session (None: it has none)'''
        w = self.workers.get(sid)
        return w.cfg if w and w.is_up() else None

    def _log(self, op, sid, ok=True, cfgok=True, mode='intime'):
        ev = {'op': op, 'sid': sid, 'now': self.now, 'ok': bool(ok), 'cfgok': bool(cfgok),
              'mode': mode, 'st': self.state()}
        self.events.append(ev)
        return ev

    def _request(self, op, method, sid):
        res, ok = None, True
        with self._patched():
            try:
                res = method({'sid': sid})
            except RigError:
                raise
            except Exception:
                ok = False
        return res, ok

    def register(self, sid, mode='intime'):
        '''mode: the spawned worker reports its endpoints 'intime', 'late' (after
           the registration gave up and killed it: see late_report) or "never" '''
        self.mode = mode
        res, ok = self._request('Register', self.requests['register'], sid)
        self.mode = 'intime'
        good = (not ok) or res == self.own_cfg(sid)
        ev = self._log('Register', sid, ok, good, mode)
        if ok and not good:
            # client and pilots crosswire to the endpoints they were given: not the
            # pubsubs of their own worker - whatever they forward goes nowhere
            for b in self.workers[sid].rig.proxy.values():
                b.down = True
        if ok:
            # the pilots of the session find its proxy pubsubs through lookup
            for _ in range(self.npilots[sid]):
                self.lookup(sid)
        return ev

    def unregister(self, sid):
        _, ok = self._request('Unregister', self.requests['unregister'], sid)
        return self._log('Unregister', sid, ok)

    def heartbeat(self, sid):
        _, ok = self._request('Heartbeat', self.requests['heartbeat'], sid)
        return self._log('Heartbeat', sid, ok)

    def lookup(self, sid):
        res, ok = self._request('Lookup', self.requests['lookup'], sid)
        return self._log('Lookup', sid, ok, ok and res == self.own_cfg(sid))

    def late_report(self, n=None):
        '''the endpoint report of a worker which was given up arrives after all
           (n: index in spawn order; default: the oldest one outstanding)'''
        ws = [w for w in self.all_workers if w.mode == 'late' and not w.reported]
        if n is not None:
            ws = [w for w in ws if self.all_workers.index(w) == n]
        if ws:
            ws[0].report()
        return self._log('Report', 'none')

    def tick_(self):
        self.now += 1
        return self._log('Tick', 'none')

    def monitor(self):
        '''one pass of the loop of the REAL Proxy._monitor'''
        rig = self
        class Once(object):
            n = 0
            def is_set(self):
                Once.n += 1
                return Once.n > 1
            def set(self): Once.n = 2
        self.proxy._term = Once()
        with self._patched():
            self.proxy._monitor()
        self.proxy._term = mt.Event()
        return self._log('Monitor', 'none')

    def send(self, sid, rng=None):
        '''the client and one pilot of the session each publish a message with the
           forward flag; an RPC round trip if the session has RPC components'''
        w = self.workers.get(sid)
        if not w:
            return
        r = w.rig
        r.publish(CLIENT, 'control', origin='absent', fwd='true')
        r.publish(r.sides[-1], 'state', origin='absent', fwd='true')
        if self.with_rpc:
            r.publish_req(r.sides[-1], CLIENT)
        r.drain(rng)

    def traces(self):
        '''(proxy service trace, [(sid, incarnation, forwarding trace)])'''
        fts = []
        for sid, n, r in self.rigs:
            if r.fab.ngid:
                r.quiet(r.drain())
                fts.append((sid, n, r.trace()))
        return ({'sessions': list(self.sessions), 'timeout': self.timeout, 'events': self.events},
                fts)


# ------------------------------------------------------------------------------
def advance_defaults():
    '''fwd flag the real advance() of each component class publishes with when
       the caller does not say: {'client': 'false', 'agent': 'true'} expected'''
    rig = FwdRig(1)
    out = {}
    for side, name in ((CLIENT, 'client'), (pilot_id(0), 'agent')):
        out[name] = rig.publish_advance(side)['fwd']
    return out
