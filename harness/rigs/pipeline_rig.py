'''
Pipeline rig (C05, C08, end-to-end part of C13): an in-memory radical.pilot.

REAL components, built with __new__ plus the attributes they read, composed on
an in-memory fabric (queues = lists of bulks, state pubsub = one FIFO per
publisher towards the client, control pubsub = one FIFO per component):

  client   TaskManager._state_sub_cb/_update_tasks/_task_cb + real Task objects
  tsched   tmgr RoundRobin.work (real work_cb intake filter, _assign_pilot, advance)
  tin      tmgr staging_input Default.work
  ain      agent staging_input Default.work
  asched   agent scheduler Continuous: parent work_cb/work, scheduler loop bursts
  exec     agent executor Popen: work_cb/work/_handle_task/_launch_task,
           _check_running (watcher rounds), _control_cb -> cancel_task
  aout     agent staging_output Default.work
  tout     tmgr staging_output Default.work

Nothing moves unless the driver takes a step:
  submit:<k>  step:<comp>  deliver:<publisher>  unsched  exit:<uid>  cancel:<k>
  ctrl:<comp>
Faults are real: a missing source file for a staging directive, no launcher,
a spawn error, a non-zero exit code, a work() routine that raises for a bulk.
One event per step is recorded (with the client-side Task states after it) for
PipelineTrace.tla.
'''

import os
import copy
import json
import queue
import random
import shutil
import tempfile
import threading as mt
import collections

from unittest import mock

from .. import rpshim

rp  = rpshim.load()
ru  = __import__('radical.utils', fromlist=['x'])
rps = rp.states
rpc = rp.constants

from radical.pilot import session as rp_session
from radical.pilot import task    as rp_task
from radical.pilot.task_manager import TaskManager
from radical.pilot.utils import staging_helper as rp_sh
from radical.pilot.tmgr.scheduler.round_robin   import RoundRobin
from radical.pilot.tmgr.staging_input.default   import Default as TmgrIn
from radical.pilot.tmgr.staging_output.default  import Default as TmgrOut
from radical.pilot.agent.staging_input.default  import Default as AgentIn
from radical.pilot.agent.staging_output.default import Default as AgentOut
from radical.pilot.agent.executing import popen as pmod
from radical.pilot.agent.scheduler import base as sbase
from . import sched_rig as SR

import signal
signal.signal(signal.SIGTERM, signal.SIG_DFL)     # popen.py installs swallowing handlers
signal.signal(signal.SIGINT,  signal.default_int_handler)

SID = 'rp.session.verif'
PID = 'pilot.0000'
PID2 = 'pilot.0001'      # a second pilot of the task manager (its tasks share the one in-memory agent)

ROUTE = {rps.TMGR_STAGING_INPUT_PENDING   : 'tin',
         rps.AGENT_STAGING_INPUT_PENDING  : 'ain',
         rps.AGENT_SCHEDULING_PENDING     : 'asched',
         rps.AGENT_EXECUTING_PENDING      : 'exec',
         rps.AGENT_STAGING_OUTPUT_PENDING : 'aout',
         rps.TMGR_STAGING_OUTPUT_PENDING  : 'tout'}
COMPS  = ['tsched', 'tin', 'ain', 'asched', 'exec', 'aout', 'tout']
AGENT  = {'ain', 'asched', 'aschedc', 'exec', 'aout'}
CTRL   = ['tsched', 'tin', 'ain', 'asched', 'aschedc', 'exec', 'aout', 'tout']
FAULTS = ['none', 'tin', 'ain', 'nolauncher', 'spawn', 'exit', 'aout', 'tout']
RAISES = ['none', 'tin', 'ain', 'asched', 'exec', 'aout', 'tout']


class Stop(Exception):
    pass


class WorkRaised(Exception):
    pass


def T(uid, fault='none', raises='none', cores=1, soe=False, out=False, prio=0):
    '''fault: a task-level failure; raises: the work() of that component raises
       for the bulk containing this task; soe: stage_on_error; out: the task
       writes out.dat and asks for it to be transferred to the client'''
    return {'uid': uid, 'fault': fault, 'raises': raises, 'cores': cores, 'soe': soe, 'out': out,
            'prio': prio}


class Scenario(object):
    def __init__(self, tasks, bulks=None, cancels=(), ncores=2, lossy=False):
        self.lossy   = lossy      # non-final state notifications may get lost
        self.tasks   = tasks
        self.bulks   = bulks or [[t['uid'] for t in tasks]]
        self.cancels = [list(c) for c in cancels]
        self.ncores  = ncores

    def as_dict(self):
        return {'tasks': self.tasks, 'bulks': self.bulks, 'cancels': self.cancels,
                'ncores': self.ncores}


class PipelineRig(object):

    def __init__(self, scn):
        self.scn    = scn
        self.spec   = {t['uid']: t for t in scn.tasks}
        self.events = []
        self.q      = {c: [] for c in COMPS}
        self.smsgs  = collections.OrderedDict()           # publisher -> [state msgs]
        self.cmsgs  = {c: [] for c in CTRL}
        self.unsched = []
        self.submitted = 0
        self.cancelled = 0
        self.procs  = {}
        self.to_watch = []
        self.faults_hit = []
        self.cur    = None
        self.root   = tempfile.mkdtemp(prefix='rppipe_', dir=os.environ.get('RP_VERIF_TMP', '/tmp'))
        self.cb_log = []
        try:
            self._build()
        except Exception:
            self.cleanup()
            raise

    def cleanup(self):
        shutil.rmtree(self.root, ignore_errors=True)

    # ----------------------------------------------------------------------
    # fabric endpoints
    def _pub(self, who):
        rig = self
        class Pub(object):
            def put(s, topic, msg):
                if topic == rpc.AGENT_UNSCHEDULE_PUBSUB:
                    for t in ru.as_list(msg):
                        rig.unsched.append(rig._copy(t))
                    return
                if topic == rpc.STATE_PUBSUB and msg.get('cmd') == 'update':
                    if who in AGENT and not msg.get('fwd'):
                        return                               # stays on the agent side
                    rig.smsgs.setdefault(who, []).append(rig._copy(msg))
                    rig.note_pub(who, msg)
        return Pub()

    def _out(self, who):
        rig = self
        class Out(object):
            channel = 'queue'
            def put(s, things, qname=None):
                things = ru.as_list(things)
                if not things:
                    return
                dest = ROUTE[things[0]['state']]
                rig.q[dest].append([rig._copy(t) for t in things])
                rig.note_push(who, dest, things)
        return Out()

    def _copy(self, x):
        if isinstance(x, dict):
            return {k: self._copy(v) for k, v in x.items() if k != 'proc'}
        if isinstance(x, (list, tuple)):
            return [self._copy(v) for v in x]
        return copy.deepcopy(x)

    def note_pub(self, who, msg):
        if self.cur is not None:
            for t in ru.as_list(msg.get('arg')):
                self.cur['pub'].append([who, t['uid'], t['state']])

    def note_push(self, who, dest, things):
        if self.cur is not None:
            for t in things:
                self.cur['push'].append([t['uid'], dest])

    class In(object):
        def __init__(self, rig, name):
            self.rig, self.name = rig, name
        def get_nowait(self, qname=None, timeout=None):
            q = self.rig.q[self.name]
            return q.pop(0) if q else []

    # ----------------------------------------------------------------------
    def _component(self, cls, who, in_state, worker=None):
        c = cls.__new__(cls)
        c._uid  = who
        c._log  = rpshim.NullLog()
        c._prof = rpshim.NullLog()
        c._cfg  = ru.Config(from_dict={})
        c._session = self.session
        c._publishers = {rpc.STATE_PUBSUB: self._pub(self.short[who]),
                         rpc.AGENT_UNSCHEDULE_PUBSUB: self._pub(self.short[who])}
        out = self._out(self.short[who])
        c._outputs = {st: out for st in ROUTE}
        c._cancel_lock = mt.RLock()
        c._cancel_list = list()
        c._inputs  = {'in': {'qname': None, 'queue': PipelineRig.In(self, self.short[who]),
                             'states': [in_state]}}
        c._workers = {in_state: worker or c.work}
        rig, name = self, self.short[who]
        real_work = c._workers[in_state]
        def _work(things):
            bad = [t['uid'] for t in things if rig.spec[t['uid']]['raises'] == name]
            if bad:
                rig.faults_hit.append(['raise', name, [t['uid'] for t in things]])
                if rig.cur is not None:
                    rig.cur['raised'] = [t['uid'] for t in things]
                raise WorkRaised('work of %s failed for bulk with %s' % (name, bad))
            return real_work(things)
        c._workers[in_state] = _work
        return c

    def _build(self):
        root = self.root
        self.short = {}
        def nm(who, s):
            self.short[who] = s
            return who

        # ---- session with the real sandbox helpers -------------------------------
        s = rp_session.Session.__new__(rp_session.Session)
        s._uid, s._log = SID, rpshim.NullLog()
        s._cache_lock  = mt.RLock()
        s._cache = {'endpoint_fs': dict(), 'resource_sandbox': dict(), 'session_sandbox': dict(),
                    'pilot_sandbox': dict(), 'client_sandbox': root + '/client',
                    'js_shells': dict(), 'fs_dirs': dict()}
        s.get_resource_config = lambda resource, schema=None: {
            'filesystem_endpoint': 'file://localhost/', 'default_remote_workdir': root + '/work'}
        s._cfg  = ru.Config(from_dict={'reg_addr': 'none'})
        s._rcfg = ru.Config(from_dict={'scattered': True, 'new_session_per_task': False})
        self.session = s
        self.pilot = {'uid': PID, 'type': 'pilot', 'state': rps.PMGR_ACTIVE,
                      'description': {'resource': 'local.localhost', 'access_schema': 'local',
                                      'cores': 8},
                      'pilot_sandbox': ''}
        os.makedirs(root + '/client')
        with open(root + '/client/in.dat', 'w') as fh:
            fh.write('input')
        self.cwd = root + '/cwd'
        os.makedirs(self.cwd)

        # ---- client: task manager ---------------------------------------------------
        tm = TaskManager.__new__(TaskManager)
        tm._uid, tm._log, tm._prof = 'tmgr.0000', rpshim.NullLog(), rpshim.NullLog()
        tm._tasks, tm._tasks_lock = dict(), mt.RLock()
        tm._pilots, tm._pilots_lock = dict(), mt.RLock()
        tm._callbacks = {m: dict() for m in rpc.TMGR_METRICS}
        tm._tcb_lock  = mt.RLock()
        tm._terminate = mt.Event()
        tm._closed    = False
        tm._task_info = collections.defaultdict(dict)
        tm._session   = s
        tm.advance    = lambda *a, **k: None
        tm.register_callback(lambda task, state: self.cb_log.append([task.uid, state]))
        self.tm = tm

        # ---- tmgr scheduler -----------------------------------------------------------
        ts = self._component(RoundRobin, nm('tmgr.0000.scheduling.0000', 'tsched'),
                             rps.TMGR_SCHEDULING_PENDING)
        ts._cfg = ru.Config(from_dict={'owner': 'tmgr.0000', 'scheduler': 'round_robin'})
        ts.register_input = ts.register_subscriber = ts.register_publisher = lambda *a, **k: None
        outs = ts._outputs
        ts.register_output = lambda *a, **k: None
        ts.initialize()
        ts._outputs = outs
        self.pilot2 = copy.deepcopy(self.pilot)
        self.pilot2['uid'] = PID2
        ts.control_cb(rpc.CONTROL_PUBSUB, {'cmd': 'add_pilots',
                                           'arg': {'pilots': [copy.deepcopy(self.pilot),
                                                              copy.deepcopy(self.pilot2)],
                                                   'tmgr': 'tmgr.0000'}})
        self.tsched = ts

        # ---- stagers ----------------------------------------------------------------------
        def stager(cls, who, short, st):
            c = self._component(cls, nm(who, short), st)
            c._stager = rp_sh.StagingHelper(c._log)
            if not isinstance(c._stager._backend, rp_sh.StagingHelper_Local):
                c._stager._backend = rp_sh.StagingHelper_Local(c._log)
            c._pwd = self.cwd
            return c
        self.tin = stager(TmgrIn, 'tmgr_staging_input.0000', 'tin', rps.TMGR_STAGING_INPUT_PENDING)
        self.tin._pilots, self.tin._pilots_lock = {PID: self.pilot, PID2: self.pilot2}, mt.RLock()
        self.tin._connected = [PID, PID2]
        self.tin._session_sbox = str(s._get_session_sandbox(self.pilot))
        self.tin._tar_idx, self.tin._mkdir_threshold = 0, 1024 * 1024
        self.ain  = stager(AgentIn,  'agent_staging_input.0000',  'ain',  rps.AGENT_STAGING_INPUT_PENDING)
        self.ain._workers[rps.AGENT_STAGING_INPUT_PENDING] = self._wrap_raise(self.ain, 'ain', self.ain._work)
        self.aout = stager(AgentOut, 'agent_staging_output.0000', 'aout', rps.AGENT_STAGING_OUTPUT_PENDING)
        self.tout = stager(TmgrOut,  'tmgr_staging_output.0000',  'tout', rps.TMGR_STAGING_OUTPUT_PENDING)

        # ---- agent scheduler: parent + scheduler process (from the scheduler rig) ----------
        lay = SR.Layout(nn=1, nc=self.scn.ncores, ng=0, lfs=0, mem=0)
        sr  = SR.SchedRig(lay, {}, script=[])
        self.sr = sr
        for who, obj in (('asched', sr.parent), ('aschedc', sr.child)):
            self.short['agent.scheduler.%s' % who] = who
            obj._publishers = {rpc.STATE_PUBSUB: self._pub(who)}
            obj._outputs    = {st: self._out(who) for st in ROUTE}
            def _reg_out(states, qname, obj=obj, who=who):
                for st in ru.as_list(states):
                    obj._outputs[st] = self._out(who)
            def _reg_pub(pubsub, obj=obj, who=who):
                obj._publishers[pubsub] = self._pub(who)
            obj.register_output, obj.register_publisher = _reg_out, _reg_pub
        sr.parent._inputs = {'in': {'qname': None, 'queue': PipelineRig.In(self, 'asched'),
                                    'states': [rps.AGENT_SCHEDULING_PENDING]}}
        sr.parent._workers = {rps.AGENT_SCHEDULING_PENDING:
                              self._wrap_raise(sr.parent, 'asched', sr.parent.work)}
        def _sleep(dt):
            raise Stop()
        sr.sleep = _sleep

        # ---- executor ------------------------------------------------------------------------
        rig = self
        class FakeProc(object):
            def __init__(s, uid):
                s.uid, s.code, s.killed, s.pid = uid, None, False, 5000 + len(rig.procs)
            def poll(s):
                return s.code
            def wait(s, timeout=None):
                if s.code is None:                  # only reached after a kill
                    s.code = -15
                return s.code
        class Launcher(object):
            def cancel_task(s, task, pid):
                p = rig.procs[task['uid']]
                p.killed = True
                if rig.cur is not None:
                    rig.cur['killed'].append(task['uid'])
        class RM(object):
            def find_launcher(s, task):
                if rig.spec[task['uid']]['fault'] == 'nolauncher':
                    rig.faults_hit.append(['fault', 'nolauncher', [task['uid']]])
                    return None, None
                return Launcher(), 'FORK'
            def get_launcher(s, name):
                return Launcher()
        self.FakeProc = FakeProc
        ex = self._component(pmod.Popen, nm('agent.executing.0000', 'exec'),
                             rps.AGENT_EXECUTING_PENDING)
        ex._rm = RM()
        ex._tasks, ex._check_lock, ex._watch_queue = dict(), mt.Lock(), queue.Queue()
        ex._to_tasks, ex._to_lock = list(), mt.Lock()
        ex._create_exec_script   = lambda launcher, task: ('/x/%s.exec.sh' % task['uid'], None)
        ex._create_launch_script = lambda launcher, task, p: (None, '/x/%s.launch.sh' % task['uid'])
        self.ex = ex

    def _wrap_raise(self, comp, name, real_work):
        rig = self
        def _work(things):
            things = ru.as_list(things)
            bad = [t['uid'] for t in things if rig.spec[t['uid']]['raises'] == name]
            if bad:
                rig.faults_hit.append(['raise', name, [t['uid'] for t in things]])
                if rig.cur is not None:
                    rig.cur['raised'] = [t['uid'] for t in things]
                raise WorkRaised('work of %s failed for bulk with %s' % (name, bad))
            return real_work(things)
        return _work

    # ----------------------------------------------------------------------
    # task construction: faults are real data
    def _descr(self, t):
        d = {'uid': t['uid'], 'executable': '/bin/true', 'ranks': 1, 'cores_per_rank': t['cores'],
             'input_staging': [], 'output_staging': [], 'priority': t.get('prio', 0)}
        f = t['fault']
        if f == 'tin':
            d['input_staging'].append({'source': 'client:///missing.dat', 'target': 'task:///m.dat',
                                       'action': rpc.TRANSFER})
        elif f == 'ain':
            d['input_staging'].append({'source': 'pilot:///missing.dat', 'target': 'task:///m.dat',
                                       'action': rpc.COPY})
        elif f == 'aout':
            d['output_staging'].append({'source': 'task:///missing.out', 'target': 'pilot:///m.out',
                                        'action': rpc.COPY})
        elif f == 'tout':
            d['output_staging'].append({'source': 'task:///missing.out', 'target': 'client:///m.out',
                                        'action': rpc.TRANSFER})
        else:
            d['input_staging'].append({'source': 'client:///in.dat', 'target': 'task:///in.dat',
                                       'action': rpc.TRANSFER})
        if t.get('out'):
            d['output_staging'].append({'source': 'task:///out.dat',
                                        'target': 'client:///out.%s.dat' % t['uid'],
                                        'action': rpc.TRANSFER})
        if t.get('soe'):
            d['stage_on_error'] = True
        return d

    # ----------------------------------------------------------------------
    # steps
    def enabled(self):
        en = []
        if self.submitted < len(self.scn.bulks):
            en.append('submit')
        for c in COMPS:
            if self.q[c]:
                en.append('step:' + c)
        sr = self.sr
        if sr.qS.items or sr.qU.items or (self.child_dirty and any(sr.child._waitpool[p] for p in sr.child._waitpool)):
            en.append('step:aschedc')
        if not self.ex._watch_queue.empty() or \
           any((self.procs[t['uid']].code is not None) or ('proc' not in t) for t in self.to_watch):
            en.append('step:watch')
        for pub, msgs in self.smsgs.items():
            if msgs:
                en.append('deliver:' + pub)
                if self.scn.lossy and all(t['state'] not in rps.FINAL for t in ru.as_list(msgs[0]['arg'])):
                    en.append('drop:' + pub)
        if self.unsched:
            en.append('unsched')
        for uid, p in self.procs.items():
            if p.code is None:
                en.append('exit:' + uid)
        if self.cancelled < len(self.scn.cancels):
            en.append('cancel')
        for c in CTRL:
            if self.cmsgs[c]:
                en.append('ctrl:' + c)
        return en

    child_dirty = True

    def client_states(self):
        out = {}
        for uid in sorted(self.spec):
            t = self.tm._tasks.get(uid)
            if t is None:
                out[uid] = {'state': 'none', 'exit': 'none', 'exc': False}
            else:
                out[uid] = {'state': t.state,
                            'exit': 'none' if t.exit_code is None else str(t.exit_code),
                            'exc': bool(t.exception)}
        return out

    def live_cores(self):
        '''cores in use by processes which were started and have neither ended nor been killed'''
        return sum(self.spec[u]['cores'] for u, p in self.procs.items() if p.code is None and not p.killed)

    def do(self, step):
        kind, _, arg = step.partition(':')
        self.cur = {'ev': kind, 'arg': arg or 'none', 'pub': [], 'push': [], 'raised': [],
                    'killed': [], 'uids': [], 'err': 'none', 'spawned': []}
        fake_time = mock.Mock()
        fake_time.sleep = self.sr.sleep
        fake_time.time  = lambda: 1.0
        fake_open = mock.Mock()
        rig = self

        def fake_popen(*a, **kw):
            uid = kw.get('cwd', '').rstrip('/').rsplit('/', 1)[-1]
            if rig.spec[uid]['fault'] == 'spawn':
                rig.faults_hit.append(['fault', 'spawn', [uid]])
                raise OSError('cannot spawn')
            p = rig.FakeProc(uid)
            rig.procs[uid] = p
            rig.cur['spawned'].append(uid)
            return p
        try:
            with mock.patch.object(sbase, 'time', fake_time), \
                 mock.patch.object(ru, 'PWatcher', mock.Mock()), \
                 mock.patch.object(ru.zmq, 'RegistryClient', mock.Mock()), \
                 mock.patch.object(pmod, 'sp', mock.Mock(Popen=fake_popen, STDOUT=-2)), \
                 mock.patch.object(pmod.ru, 'ru_open', lambda *a, **k: fake_open), \
                 mock.patch.object(pmod, '_pids', []), \
                 mock.patch.object(tempfile, 'tempdir', self.root):
                self._do(kind, arg)
        except Stop:
            pass
        except Exception as e:            # an exception escaped a component / the client
            self.cur['err'] = '%s: %s' % (type(e).__name__, str(e)[:120])
        ev, self.cur = self.cur, None
        ev['client'] = self.client_states()
        ev['pool']   = self.sr.proj_pool()
        ev['free']   = sum(1 for n in self.sr.child.nodes for c in n['cores'] if c == rpc.FREE)
        ev['intasks'] = sorted(self.ex._tasks.keys())
        ev['live']    = self.live_cores()
        self.events.append(ev)

    def _do(self, kind, arg):
        cur = self.cur
        if kind == 'submit':
            bulk = self.scn.bulks[self.submitted]
            self.submitted += 1
            docs = []
            for uid in bulk:
                td = rp.TaskDescription(from_dict=self._descr(self.spec[uid]))
                t  = rp_task.Task(self.tm, td, 'client')
                self.tm._tasks[uid] = t
                d  = t.as_dict()
                d['description'] = d['description'].as_dict() \
                    if hasattr(d['description'], 'as_dict') else dict(d['description'])
                d  = json.loads(json.dumps(d, default=str))
                d['state'] = rps.TMGR_SCHEDULING_PENDING
                docs.append(d)
            cur['uids'] = list(bulk)
            # TaskManager.submit_tasks: advance(TMGR_SCHEDULING_PENDING, publish, push)
            self.smsgs.setdefault('tmgr', []).append(
                {'cmd': 'update', 'arg': [{'uid': d['uid'], 'type': 'task', 'state': d['state']}
                                          for d in docs]})
            self.q['tsched'].append(docs)
        elif kind == 'step':
            comp = {'tsched': self.tsched, 'tin': self.tin, 'ain': self.ain, 'asched': self.sr.parent,
                    'exec': self.ex, 'aout': self.aout, 'tout': self.tout}.get(arg)
            if arg == 'aschedc':
                self.child_dirty = False
                self.sr.stop = False
                self.sr.child._schedule_tasks()
            elif arg == 'watch':
                try:
                    while True:
                        self.to_watch.append(self.ex._watch_queue.get_nowait())
                except queue.Empty:
                    pass
                self.ex._check_running(self.to_watch)
            else:
                if self.q[arg]:
                    cur['uids'] = [t['uid'] for t in self.q[arg][0]]
                comp.work_cb()
        elif kind == 'deliver':
            msg = self.smsgs[arg].pop(0)
            cur['uids'] = [[t['uid'], t['state']] for t in ru.as_list(msg['arg'])]
            self.tm._state_sub_cb(rpc.STATE_PUBSUB, msg)
        elif kind == 'drop':
            msg = self.smsgs[arg].pop(0)
            cur['uids'] = [[t['uid'], t['state']] for t in ru.as_list(msg['arg'])]
        elif kind == 'unsched':
            t = self.unsched.pop(0)
            cur['uids'] = [t['uid']]
            self.child_dirty = True
            self.sr.parent.unschedule_cb(rpc.AGENT_UNSCHEDULE_PUBSUB, t)
        elif kind == 'exit':
            p = self.procs[arg]
            code = 3 if self.spec[arg]['fault'] == 'exit' else 0
            p.code = -15 if p.killed else code
            if self.spec[arg].get('out'):
                sbox = self.ex._tasks[arg]['task_sandbox_path'] if arg in self.ex._tasks else None
                if sbox:
                    os.makedirs(sbox, exist_ok=True)
                    with open(os.path.join(sbox, 'out.dat'), 'w') as fh:
                        fh.write('output of %s' % arg)
            if code:
                self.faults_hit.append(['fault', 'exit', [arg]])
            cur['uids'] = [arg]
            cur['code'] = str(p.code)
        elif kind == 'cancel':
            uids = self.scn.cancels[self.cancelled]
            self.cancelled += 1
            cur['uids'] = list(uids)
            # the real TaskManager.cancel_tasks (alternating with Task.cancel for single tasks):
            # what it publishes on the control channel is what every component receives
            sent = []
            self.tm.publish = lambda topic, m: sent.append((topic, m))
            if len(uids) == 1 and self.cancelled % 2 == 0 and uids[0] in self.tm._tasks:
                self.tm._tasks[uids[0]].cancel()
            else:
                self.tm.cancel_tasks(list(uids))
            for topic, msg in sent:
                assert topic == rpc.CONTROL_PUBSUB, topic
                for c in CTRL:
                    self.cmsgs[c].append(copy.deepcopy(msg))
        elif kind == 'ctrl':
            msg = self.cmsgs[arg].pop(0)
            cur['uids'] = list(msg['arg']['uids'])
            comp = {'tsched': self.tsched, 'tin': self.tin, 'ain': self.ain, 'asched': self.sr.parent,
                    'aschedc': self.sr.child, 'exec': self.ex, 'aout': self.aout,
                    'tout': self.tout}[arg]
            comp._control_cb(rpc.CONTROL_PUBSUB, msg)
            if arg == 'aschedc':
                # the _CANCEL item is held by the scheduler rig: enqueue it now
                while self.sr.held_put:
                    self.sr.do_flush()
                self.child_dirty = True
        else:
            raise ValueError(step)
        if kind == 'step' and arg in ('asched',):
            self.child_dirty = True

    # ----------------------------------------------------------------------
    def run(self, chooser, max_steps=400):
        '''chooser(enabled) -> step; runs to quiescence'''
        try:
            n = 0
            while n < max_steps:
                en = self.enabled()
                if not en:
                    break
                st = chooser(en)
                if st is None:
                    break
                self.do(st)
                n += 1
            self.events.append({'ev': 'end', 'arg': 'none', 'pub': [], 'push': [], 'raised': [],
                                'killed': [], 'uids': [], 'spawned': [], 'err': 'none' if n < max_steps else 'step limit',
                                'client': self.client_states(), 'pool': self.sr.proj_pool(),
                                'free': sum(1 for nd in self.sr.child.nodes for c in nd['cores'] if c == rpc.FREE),
                                'intasks': sorted(self.ex._tasks.keys()), 'live': self.live_cores()})
            return self.trace()
        finally:
            self.cleanup()

    def trace(self):
        return {'uids': sorted(self.spec), 'spec': {u: {'fault': t['fault'], 'raises': t['raises'],
                                                       'cores': t['cores'], 'soe': bool(t.get('soe')),
                                                       'out': bool(t.get('out'))} for u, t in self.spec.items()},
                'bulks': self.scn.bulks, 'named': sorted(set(u for c in self.scn.cancels for u in c)),
                'ncores': self.scn.ncores, 'faults_hit': self.faults_hit,
                'cb_log': self.cb_log, 'events': self.events}


def scripted(script, rng=None):
    '''follow a list of steps where enabled, else pick by rng / first'''
    it = list(script)
    def ch(en):
        while it:
            s = it.pop(0)
            if s in en:
                return s
            # tolerate steps named by kind only
            m = [e for e in en if e.startswith(s)]
            if m:
                return m[0]
        if rng is not None:
            return en[rng.randrange(len(en))]
        return en[0]
    return ch


def randomised(rng):
    return lambda en: en[rng.randrange(len(en))]
