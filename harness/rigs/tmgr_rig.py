'''
Client side scheduler rig: drives the REAL tmgr schedulers
(radical.pilot.tmgr.scheduler.round_robin.RoundRobin / backfilling.Backfilling)
through their callbacks and records one event per callback for
TmgrSchedTrace.tla.

What is real: the scheduler object (`Cls.__new__` + the real `initialize()`,
hence the real `_configure()` state), the real `work`, `control_cb`,
`_base_state_cb`, `_update_pilot_states`, `update_pilots`, `update_tasks`,
`_assign_pilot`, the real `ClientComponent.advance` (on recording publisher /
output stand-ins), `states._pilot_state_progress`, and the sandbox derivation:
the session is a `Session.__new__` object carrying the real resource configs,
so `_assign_pilot` runs the REAL `Session._get_{client,resource,session,pilot,
task}_sandbox` / `_get_endpoint_fs` / `get_resource_config` methods (no stub).
Pilot descriptions name an absolute sandbox, so no shell is spawned for the
`$HOME` expansion.

What is replaced, per instance / per module: `register_input/output/subscriber`
(no ZeroMQ; the input queue is a list which the REAL `work_cb` drains, so that an
exception escaping `work()` fails the whole bulk exactly as in production), the
publisher and the staging-input output (recorders), the module
constants `backfilling._HWM/_BF_START_VAL/_BF_STOP_VAL` (scaled per rig; they are
read from the environment at import time in production).

Every thing pushed to the TMGR_STAGING_INPUT_PENDING output is a Forward; the
state notifications the scheduler publishes itself are looped back into its own
`_base_state_cb` (it subscribes to the state pubsub it publishes on).

Callbacks are run one at a time (each is one event): they are serialised by
`_pilots_lock` / `_wait_lock` in production.
'''

import copy
import random

from unittest import mock

from .. import rpshim

rp  = rpshim.load()
ru  = __import__('radical.utils', fromlist=['x'])
rps = rp.states
rpc = rp.constants

from radical.pilot.session         import Session
from radical.pilot.resource_config import ResourceConfig
from radical.pilot.tmgr.scheduler  import base as tbase
from radical.pilot.tmgr.scheduler  import round_robin, backfilling

POLICY = {'RR': round_robin.RoundRobin, 'BF': backfilling.Backfilling}
OWNER  = 'tmgr.0000'
SID    = 'rp.session.verif.0000'
SBOX   = '/tmp/b-tmgrsched_sandbox'          # only ever used as a string

PSTATES = ['NEW', 'PMGR_LAUNCHING_PENDING', 'PMGR_LAUNCHING', 'PMGR_ACTIVE_PENDING',
           'PMGR_ACTIVE', 'DONE', 'FAILED', 'CANCELED']

_RCFGS = None


def pval(s):
    '''PVal of TmgrOps.tla: the code's pilot state value + 1'''
    return rps._pilot_state_value(None if s == 'none' else s) + 1


def make_session():
    '''Session.__new__ + what the real sandbox helpers read'''
    global _RCFGS
    if _RCFGS is None:
        # as Session._init_primary does
        _RCFGS = ru.Config('radical.pilot.resource', name='*', expand=False)
    s = Session.__new__(Session)
    s._uid   = SID
    s._log   = rpshim.NullLog()
    s._prof  = rpshim.NullLog()
    s._rcfgs = ru.Config()
    for site in ['local']:
        s._rcfgs[site] = ru.Config()
        for res, rcfg in _RCFGS[site].items():
            s._rcfgs[site][res] = ResourceConfig(rcfg)
    s._cache_lock = ru.RLock()
    s._cache      = {'endpoint_fs'     : dict(), 'resource_sandbox': dict(),
                     'session_sandbox' : dict(), 'pilot_sandbox'   : dict(),
                     'client_sandbox'  : '/tmp/b-tmgrsched_client',
                     'js_shells'       : dict(), 'fs_dirs'         : dict()}
    return s


class _Pub(object):
    def __init__(self, rig):
        self.rig = rig
    def put(self, topic, msg):
        self.rig.published.append(msg)


class _In(object):
    '''stands for the scheduling queue getter'''
    channel = 'tmgr_scheduling_queue'
    def __init__(self):
        self.bulk = []
    def get_nowait(self, qname=None, timeout=None):
        b, self.bulk = self.bulk, []
        return b


class _Out(object):
    channel = 'tmgr_staging_input_queue'
    def __init__(self, rig):
        self.rig = rig
    def put(self, things, qname=None):
        for t in ru.as_list(things):
            self.rig.on_forward(t)


class TmgrRig(object):

    def __init__(self, policy, tasks, pilots, named=None, cores=None, pcores=None,
                 hwm_pct=100, lo='PMGR_ACTIVE', hi='PMGR_ACTIVE', echo=True,
                 explicit_sandbox=()):
        '''
        policy : 'RR' | 'BF'
        tasks  : list of task uids (sorted: batches are delivered in this order)
        pilots : list of pilot uids
        named  : uid -> pid for tasks which name their pilot
        cores  : uid -> cores (ranks, one core each); default 1
        pcores : pid -> cores of the pilot description; hwm = int(cores * pct / 100)
        lo, hi : backfilling's eligible state window (RADICAL_PILOT_BACKFILLING_START/STOP)
        '''
        self.policy  = policy
        self.tasks   = list(tasks)
        self.pilots  = list(pilots)
        self.named   = {t: (named or {}).get(t, 'none') for t in self.tasks}
        self.cores   = {t: int((cores or {}).get(t, 1)) for t in self.tasks}
        self.pcores  = {p: int((pcores or {}).get(p, 2)) for p in self.pilots}
        self.hwm_pct = int(hwm_pct)
        self.hwm     = {p: int(self.pcores[p] * self.hwm_pct / 100) for p in self.pilots}
        self.lo, self.hi = lo, hi
        self.echo    = echo
        self.explicit_sandbox = set(explicit_sandbox)

        self.events    = []
        self.published = []
        self.cur_fwd   = []
        self.forwarded = {}        # uid -> task dict as pushed downstream (last)
        self.submitted = {}        # uid -> task dict as submitted
        self.nraised   = 0
        self.grole     = {p: 'none' for p in self.pilots}   # role as commanded

        self.c = self._make()

    # --------------------------------------------------------------------------
    def _make(self):
        cls = POLICY[self.policy]
        c = cls.__new__(cls)
        c._uid     = '%s.scheduling.0000' % OWNER
        c._log     = rpshim.NullLog()
        c._prof    = rpshim.NullLog()
        c._cfg     = ru.Config(from_dict={'owner': OWNER, 'scheduler': self.policy})
        c._session = make_session()
        c._publishers = {rpc.STATE_PUBSUB: _Pub(self)}
        c._outputs    = dict()
        rig = self

        def _reg_out(states, qname=None):
            for st in ru.as_list(states):
                c._outputs[st] = _Out(rig)
        c._inputs, c._workers = dict(), dict()
        c._cancel_list, c._cancel_lock = list(), ru.RLock()
        self.inq = _In()

        def _reg_in(states, queue, worker=None):
            # as Component.register_input, minus the ZeroMQ getter
            states = ru.as_list(states)
            c._inputs['%s.%s' % (c._uid, worker.__name__)] = \
                    {'queue': rig.inq, 'qname': None, 'states': states}
            for st in states:
                c._workers[st] = worker
        c.register_input      = _reg_in
        c.register_output     = _reg_out
        c.register_subscriber = lambda *a, **k: None
        c.register_publisher  = lambda *a, **k: None

        with self._patches():
            c.initialize()                      # the real one (calls _configure)

        real_adv = c.advance
        def _adv(things, state=None, publish=True, push=False, **kw):
            kw.setdefault('ts', 1.0)            # no wall clock
            return real_adv(things, state, publish=publish, push=push, **kw)
        c.advance = _adv
        return c

    def _patches(self):
        class _Ctx(object):
            def __init__(s, ps):
                s.ps = ps
            def __enter__(s):
                for p in s.ps:
                    p.start()
            def __exit__(s, *a):
                for p in reversed(s.ps):
                    p.stop()
        return _Ctx([mock.patch.object(backfilling, '_HWM', self.hwm_pct),
                     mock.patch.object(backfilling, '_BF_START_VAL', pval(self.lo) - 1),
                     mock.patch.object(backfilling, '_BF_STOP_VAL',  pval(self.hi) - 1)])

    # --------------------------------------------------------------------------
    def pilot_doc(self, pid, state):
        d = {'uid': pid, 'type': 'pilot', 'state': state, 'pilot_sandbox': '',
             'description': {'resource': 'local.localhost', 'access_schema': 'local',
                             'cores': self.pcores[pid], 'sandbox': SBOX}}
        if pid in self.explicit_sandbox:
            d['pilot_sandbox'] = 'file://localhost%s/explicit/%s/' % (SBOX, pid)
        return d

    def task_doc(self, uid):
        d = {'uid': uid, 'type': 'task', 'state': rps.TMGR_SCHEDULING_PENDING,
             'description': {'uid': uid, 'executable': '/bin/true',
                             'ranks': self.cores[uid], 'cores_per_rank': 1}}
        if self.named[uid] != 'none':
            d['pilot'] = self.named[uid]
        return d

    # --------------------------------------------------------------------------
    def on_forward(self, task):
        pid = task.get('pilot') or 'none'
        ts  = str(task.get('task_sandbox') or '')
        ps  = str(task.get('pilot_sandbox') or '')
        ok  = (('/%s/' % pid) in ps and ts.startswith(ps) and
               ts.endswith('/%s/' % task['uid']) and
               task.get('state') == rps.TMGR_STAGING_INPUT_PENDING and
               task.get('client_sandbox') == '/tmp/b-tmgrsched_client' and
               SID in str(task.get('session_sandbox')))
        self.cur_fwd.append({'t': task['uid'], 'p': pid, 'sbx': 'ok' if ok else 'bad'})
        self.forwarded[task['uid']] = copy.deepcopy(task)

    def proj(self):
        c = self.c
        role, pst, used, tasks, done, hwm, early, init = {}, {}, {}, {}, {}, {}, {}, {}
        for p in self.pilots:
            e = c._pilots.get(p) or {}
            role[p] = e.get('role')  or 'none'
            pst[p]  = e.get('state') or 'none'
            info    = e.get('info')  or {}
            used[p]  = int(info.get('used', 0))
            tasks[p] = list(info.get('tasks', []))
            done[p]  = list(info.get('done', []))
            hwm[p]   = int(info.get('hwm', -1))
            init[p]  = 'done' in info
            early[p] = [t['uid'] for t in c._early.get(p, [])]
        wp = c._wait_pool
        wait = list(wp.keys()) if isinstance(wp, dict) else [t['uid'] for t in wp]
        return {'role': role, 'pst': pst, 'used': used, 'tasks': tasks, 'done': done,
                'hwm': hwm, 'init': init, 'early': early, 'wait': wait, 'pids': list(c._pids),
                'idx': int(c._idx)}

    def _call(self, ev, fn, **kw):
        self.cur_fwd   = []
        self.published = []
        raised = 'none'
        echo   = 'none'
        with self._patches():
            try:
                fn()
            except Exception as e:
                raised = type(e).__name__
                self.nraised += 1
            failed = []
            # loop back what the scheduler published on the state pubsub
            msgs, self.published = self.published, []
            for msg in msgs:
                for thing in ru.as_list(msg.get('arg')):
                    if thing.get('type') == 'task' and thing.get('state') == rps.FAILED:
                        failed.append(thing['uid'])
                if self.echo:
                    try:
                        self.c._base_state_cb(rpc.STATE_PUBSUB, copy.deepcopy(msg))
                    except Exception as e:
                        echo = type(e).__name__
        e = {'ev': ev, 'raised': raised, 'echo': echo, 'fwd': self.cur_fwd, 'failed': failed,
             'batch': [], 'add': [], 'pids': [], 'p': 'none', 's': 'none'}
        e.update(kw)
        e['st'] = self.proj()
        self.events.append(e)
        return e

    # --------------------------------------------------------------------------
    # environment operations, each through the real callback
    def submit(self, uids):
        uids = [u for u in self.tasks if u in set(uids)]
        docs = [self.task_doc(u) for u in uids]
        for d in docs:
            self.submitted[d['uid']] = d
        # the bulk arrives on the input queue; the real work_cb routes it to work()
        self.inq.bulk = docs
        return self._call('Submit', lambda: self.c.work_cb(), batch=uids)

    def add(self, pairs):
        '''pairs: [pid, state of the pilot document], in message order.  The command
           may name pilots which are added already (half-valid command)'''
        pairs = [list(x) for x in pairs]
        docs  = [self.pilot_doc(p, s) for p, s in pairs]
        msg   = {'cmd': 'add_pilots', 'arg': {'pilots': docs, 'tmgr': OWNER}}
        for p, _ in pairs:
            self.grole[p] = 'added'
        return self._call('AddPilots', lambda: self.c.control_cb(rpc.CONTROL_PUBSUB, msg), add=pairs)

    def remove(self, pids):
        '''pids in message order; the command may name pilots which are not added
           (never added, or removed already): those keep their role'''
        pids = list(pids)
        msg  = {'cmd': 'remove_pilots', 'arg': {'pids': list(pids), 'tmgr': OWNER}}
        for p in pids:
            if self.grole[p] == 'added':
                self.grole[p] = 'removed'
        return self._call('RemovePilots', lambda: self.c.control_cb(rpc.CONTROL_PUBSUB, msg), pids=pids)

    def pstate(self, pid, state):
        msg = {'cmd': 'update', 'arg': [{'uid': pid, 'type': 'pilot', 'state': state}]}
        return self._call('PilotState', lambda: self.c._base_state_cb(rpc.STATE_PUBSUB, msg),
                          p=pid, s=state)

    def tstates(self, uids, state=rps.DONE):
        '''final notification (full task dict, as advance publishes it) for tasks
           which were forwarded; `state` may also be TMGR_STAGING_OUTPUT_PENDING: the
           agent's output stager publishes the full dict from there on ($all)'''
        uids = [u for u in self.tasks if u in set(uids) and u in self.forwarded]
        docs = []
        for u in uids:
            d = copy.deepcopy(self.forwarded[u])
            d['state'] = state
            d['target_state'] = state if state in rps.FINAL else rps.DONE
            docs.append(d)
        msg = {'cmd': 'update', 'arg': docs}
        return self._call('TaskStates', lambda: self.c._base_state_cb(rpc.STATE_PUBSUB, msg),
                          batch=uids, s=state)

    def noise(self, uids, state=rps.AGENT_EXECUTING):
        '''non-final notifications carry uid, type and state only'''
        uids = [u for u in self.tasks if u in set(uids)]
        msg  = {'cmd': 'update', 'arg': [{'uid': u, 'type': 'task', 'state': state} for u in uids]}
        return self._call('Noise', lambda: self.c._base_state_cb(rpc.STATE_PUBSUB, msg),
                          batch=uids, s=state)

    def do(self, op):
        k = op[0]
        if   k == 'submit' : return self.submit(op[1])
        elif k == 'add'    : return self.add(op[1])
        elif k == 'remove' : return self.remove(op[1])
        elif k == 'pstate' : return self.pstate(op[1], op[2])
        elif k == 'tstates': return self.tstates(op[1], op[2] if len(op) > 2 else rps.DONE)
        elif k == 'noise'  : return self.noise(op[1], op[2] if len(op) > 2 else rps.AGENT_EXECUTING)
        raise ValueError('unknown op %r' % (op,))

    def run(self, ops):
        for op in ops:
            self.do(op)
        return self.trace()

    # --------------------------------------------------------------------------
    # seeded random environment: one final notification per forwarded task; most
    # commands respect what the task manager facade guarantees (a pilot is not added
    # twice, only added pilots are removed), with probability p_half a command also
    # names a pilot it cannot be applied to, in any position.  The pilot document of an add message carries ANY state:
    # control and state messages travel on different channels, so the document may
    # be older or newer than what the notifications said, or contradict it.
    def run_random(self, seed, nops=14, max_batch=3, p_half=0.15):
        rng  = random.Random(seed)
        ops  = []
        fin  = set()
        for _ in range(nops):
            st    = self.proj()
            new   = [t for t in self.tasks if t not in self.submitted]
            live  = [t for t in self.tasks if t in self.forwarded and t not in fin]
            nadd  = [p for p in self.pilots if self.grole[p] != 'added']
            added = [p for p in self.pilots if self.grole[p] == 'added']
            acts  = []
            if new  : acts += ['submit'] * 3
            if nadd : acts += ['add'] * 3
            if added: acts += ['remove']
            half = rng.random() < p_half        # a command naming pilots it cannot apply to
            if live : acts += ['tstates'] * 3
            acts += ['pstate'] * 2 + ['noise']
            k = rng.choice(acts)
            if k == 'submit':
                op = ['submit', rng.sample(new, rng.randint(1, min(max_batch, len(new))))]
            elif k == 'add':
                ps = rng.sample(nadd, rng.randint(1, min(2, len(nadd))))
                if half and added:
                    ps = ps[:1] + rng.sample(added, 1)
                    rng.shuffle(ps)
                op = ['add', [[p, self._add_state(rng, st['pst'][p])] for p in ps]]
            elif k == 'remove':
                ps = rng.sample(added, rng.randint(1, min(2, len(added))))
                if half and nadd:
                    ps = ps[:1] + rng.sample(nadd, 1)
                    rng.shuffle(ps)
                op = ['remove', ps]
            elif k == 'tstates':
                b  = rng.sample(live, rng.randint(1, min(max_batch, len(live))))
                op = ['tstates', b, rng.choice([rps.DONE, rps.DONE, rps.FAILED, rps.CANCELED,
                                                rps.TMGR_STAGING_OUTPUT_PENDING])]
                fin.update(b)
            elif k == 'pstate':
                op = ['pstate', rng.choice(self.pilots),
                      rng.choice(PSTATES + ['PMGR_ACTIVE'] * 4)]
            else:
                sub = list(self.submitted) or self.tasks
                op  = ['noise', rng.sample(sub, rng.randint(1, min(max_batch, len(sub)))),
                       rng.choice([rps.TMGR_SCHEDULING, rps.AGENT_EXECUTING,
                                   rps.AGENT_STAGING_OUTPUT_PENDING])]
            ops.append(op)
            self.do(op)
        return ops, self.trace()

    def _add_state(self, rng, cur):
        return rng.choice(PSTATES + ['PMGR_ACTIVE'] * 5)

    # --------------------------------------------------------------------------
    def trace(self):
        return {'policy': self.policy, 'tasks': list(self.tasks), 'pilots': list(self.pilots),
                'named': dict(self.named), 'cores': dict(self.cores), 'hwm': dict(self.hwm),
                'lo': pval(self.lo), 'hi': pval(self.hi), 'events': self.events}


# ------------------------------------------------------------------------------
# lock granularity probe (design counterpart: spec/TmgrSched/TmgrLocks.tla)
#
# work() runs in the component thread, control_cb in the control subscriber
# thread; only subscriber callbacks are serialised by Component._cb_lock.  The
# probe runs the REAL work() and the REAL control_cb(add_pilots) in two threads
# of which exactly one runs at any time (baton passing, no real races, no
# sleeping): `_pilots_lock` and `_wait_lock` of the instance are replaced by
# re-entrant stand-ins whose acquisition by a new owner is a schedule point.
# All schedules are enumerated by re-execution.
#
import threading as mt


class _Abort(BaseException):
    '''unwinds the threads of a deadlocked schedule'''


class _ILock(object):

    def __init__(self, probe, name):
        self.probe, self.name = probe, name
        self.owner, self.depth = None, 0

    def acquire(self, blocking=True, timeout=-1):
        me = self.probe.me()
        if self.owner == me:
            self.depth += 1
            return True
        self.probe.point(me, self)
        self.owner, self.depth = me, 1
        return True

    def release(self):
        self.depth -= 1
        if self.depth <= 0:
            self.probe.sections[self.owner] = self.probe.sections.get(self.owner, 0) + 1
            self.owner, self.depth = None, 0

    def __enter__(self):
        self.acquire()
        return self

    def __exit__(self, *a):
        self.release()


class LockProbe(object):

    def __init__(self, policy, init_wait=0, prefix=(), mode='add'):
        '''mode 'add'   : work([t2]) against control_cb(add_pilots [p1]); init_wait
                          tasks were parked before
           mode 'remove': p1 and p2 are added; work([t2]) against
                          control_cb(remove_pilots [p1]).  p1 counts as removed once
                          the first critical section of control_cb (the role flip)
                          is over; a task bound to p1 after that is `late` '''
        self.policy, self.init_wait, self.prefix = policy, init_wait, list(prefix)
        self.mode  = mode
        self.rig = TmgrRig(policy, ['t1', 't2', 't3'], ['p1', 'p2'], pcores={'p1': 8, 'p2': 8},
                           echo=False)
        self.sections = {}        # thread -> critical sections completed
        self.late     = []        # tasks bound to p1 after it was marked removed
        self.names = ['W', 'C']
        self.go    = {n: mt.Semaphore(0) for n in self.names}
        self.ctl   = mt.Semaphore(0)
        self.want  = {n: None  for n in self.names}
        self.done  = {n: False for n in self.names}
        self.err   = {n: None  for n in self.names}
        self.abort = False
        self.taken = []           # (choice, alternatives) at every branching decision
        self.steps = []           # every scheduling decision, for the report

    def me(self):
        return mt.current_thread().name

    def point(self, me, lock):
        self.want[me] = lock
        self.ctl.release()
        self.go[me].acquire()
        if self.abort:
            raise _Abort()
        self.want[me] = None

    def _thread(self, name, fn):
        def body():
            self.go[name].acquire()
            try:
                if not self.abort:
                    fn()
            except _Abort:
                pass
            except Exception as e:                       # noqa
                self.err[name] = type(e).__name__
            self.done[name] = True
            self.ctl.release()
        t = mt.Thread(target=body, name=name)
        t.daemon = True
        return t

    def run(self):
        rig, c = self.rig, self.rig.c
        with rig._patches():
            if self.init_wait:
                c.work([rig.task_doc('t3')])            # parked earlier: no pilot yet
            if self.mode == 'remove':
                rig.add([['p1', 'PMGR_ACTIVE'], ['p2', 'PMGR_ACTIVE']])
                rig.cur_fwd = []
                on_fwd = rig.on_forward
                def _on_forward(task):
                    on_fwd(task)
                    if task.get('pilot') == 'p1' and self.sections.get('C', 0) >= 1:
                        self.late.append(task['uid'])
                rig.on_forward = _on_forward
            c._pilots_lock = _ILock(self, 'pilots_lock')
            c._wait_lock   = _ILock(self, 'wait_lock')
            if self.mode == 'remove':
                msg = {'cmd': 'remove_pilots', 'arg': {'pids': ['p1'], 'tmgr': OWNER}}
            else:
                msg = {'cmd': 'add_pilots', 'arg': {'pilots': [rig.pilot_doc('p1', 'PMGR_ACTIVE')],
                                                    'tmgr': OWNER}}
            ths = [self._thread('W', lambda: c.work([rig.task_doc('t2')])),
                   self._thread('C', lambda: c.control_cb(rpc.CONTROL_PUBSUB, msg))]
            for t in ths:
                t.start()
            deadlock, k, held = False, 0, {}
            while True:
                live = [n for n in self.names if not self.done[n]]
                if not live:
                    break
                runnable = [n for n in live
                            if self.want[n] is None or self.want[n].owner in (None, n)]
                if not runnable:
                    deadlock = True
                    held = {n: [l.name for l in (c._pilots_lock, c._wait_lock) if l.owner == n]
                            for n in self.names}
                    self.abort = True
                    for n in live:
                        self.go[n].release()
                    for n in live:
                        self.ctl.acquire()
                    break
                pick = runnable[0]
                if len(runnable) > 1:
                    if k < len(self.prefix) and self.prefix[k] in runnable:
                        pick = self.prefix[k]
                    self.taken.append((pick, list(runnable)))
                    k += 1
                self.steps.append('%s%s' % (pick, ':' + self.want[pick].name if self.want[pick] else ''))
                self.go[pick].release()
                self.ctl.acquire()
            for t in ths:
                t.join(10)
        st  = rig.proj()
        cnt = {}
        for f in rig.cur_fwd:
            cnt[f['t']] = cnt.get(f['t'], 0) + 1
        return {'policy': self.policy, 'init_wait': self.init_wait, 'deadlock': deadlock,
                'mode': self.mode, 'late': list(self.late),
                'bound': {f['t']: f['p'] for f in rig.cur_fwd},
                'schedule': [p for p, _ in self.taken], 'steps': self.steps,
                'wait': st['wait'], 'pids': st['pids'], 'fwd': cnt, 'errors': dict(self.err),
                'blocked': {n: (self.want[n].name if self.want[n] else 'none') for n in self.names}
                           if deadlock else {}, 'held': held}


def lock_schedules(policy, init_wait, limit=500, mode='add'):
    '''enumerate all schedules of work() against control_cb(add_pilots / remove_pilots)'''
    out, todo, seen = [], [[]], set()
    while todo and len(out) < limit:
        prefix = todo.pop()
        p   = LockProbe(policy, init_wait, prefix, mode=mode)
        res = p.run()
        key = tuple(res['schedule'])
        if key in seen:
            continue
        seen.add(key)
        out.append(res)
        for i in range(len(prefix), len(p.taken)):
            pick, alts = p.taken[i]
            for a in alts:
                if a != pick:
                    todo.append([x for x, _ in p.taken[:i]] + [a])
    return out
