'''
Script rig (C10): lets the REAL executor write the launch script and the exec
script of a task and then runs them, as the executor would, with real shells.

    Popen._handle_task                       (stdout/stderr names, launcher lookup)
      -> AgentExecutingComponent._create_exec_script / _create_launch_script
         (_get_rp_env, _get_rank_ids, _get_task_env, _extend_pre_exec,
          _get_prep_exec, _get_exec, _get_launch, ...)
      -> LaunchMethod.get_exec / _create_arg_string (ru.sh_quote), Fork / MPIRun

are the unmodified methods of the tree under test; the executor instance is
built with `__new__` and initialised by the real `initialize()`.  Only
`_launch_task` is replaced (per instance): the rig starts the launch script
itself, exactly like `_launch_task` does (`Popen(args=launch_path, cwd=sbox)`,
the `#!` line picks the shell the code intends).

Stand-ins for the world outside RP (all under one temp root in /tmp):
  * `$RP_PILOT_SANDBOX/prof`            no-op `$RP_PROF`
  * `$RP_PILOT_SANDBOX/env/lm_*.sh`     launcher environment files
  * `bin/c10_exe`, `bin/c10_exe_py`     the task's executable: a probe that dumps
                                        argv / environ / cwd and exits as told
  * `bin/c10_cmd <id>`                  pre/post commands: log `<id> <rank>`, exit as told
  * `bin/c10_mpirun n cmd`              an MPI launcher: n instances of cmd with
                                        PMIX_RANK=0..n-1, first non-zero exit code
  * `bin/sleep`                         so that rp_sync_ranks polls fast

One *case* = one task shape (a terminal state of the Script design model: cfg,
failing commands F, executable exit codes) + concrete strings for the token
classes + sandbox / name variants.  One case gives one trace for ScriptTrace.tla:
the command log in the order it was written, the probe's observation per rank,
the exit code of each rank's exec script (MPI stand-in only) and of the launch
script.
'''

import os
import json
import shutil
import signal
import tempfile
import threading as mt
import subprocess as sp
import multiprocessing as mp

from unittest import mock

from .. import rpshim

rp  = rpshim.load()
ru  = __import__('radical.utils', fromlist=['x'])
rpc = rp.constants

from radical.pilot.agent.executing        import base as xbase

# importing the popen module installs SIGTERM / SIGINT handlers that swallow the
# signal (and an atexit hook): keep the harness process' own handlers
_sig = {s: signal.getsignal(s) for s in (signal.SIGTERM, signal.SIGINT)}
from radical.pilot.agent.executing.popen  import Popen
for _s, _h in _sig.items():
    try:
        signal.signal(_s, _h)
    except (ValueError, TypeError):          # not the main thread / handler not settable
        pass
from radical.pilot.agent.launch_method.fork   import Fork
from radical.pilot.agent.launch_method.mpirun import MPIRun
from radical.pilot.agent.launch_method.mpiexec import MPIExec
from radical.pilot.resource_config        import Slot


ALARMED  = ['plain', 'space', 'squote', 'dquote', 'glob', 'empty', 'nonascii', 'backslash']
INFO     = ['dollar', 'backtick', 'newline']

# concrete strings per token class (the seed picks which ones a run gets)
TOKENS = {
    'plain'    : ['abc', '-n', 'key=value', '42', 'a.b/c_d', '--opt=1,2'],
    'space'    : ['a b', ' lead', 'trail ', 'two  spaces', 'tab\there'],
    'squote'   : ["it's", "'", "'quoted'", "a'b'c"],
    'dquote'   : ['say "hi"', '"', 'a"b', '{"k": 1}', '""'],
    'glob'     : ['*', '?', '*.sh', '[a-z]*', '{a,b}', '~', 'a;b', 'x&y', '(z)', '<in>', '#c', 'p|q'],
    'empty'    : [''],
    'nonascii' : ['na\u00efve', '\u65e5\u672c\u8a9e', '\u03c0\u22483', '\U0001f680'],
    'backslash': ['a\\b', '\\', 'trail\\', '\\\\srv\\share', '\\n', 'C:\\dir\\'],
    'dollar'   : ['$HOME', '$RP_TASK_ID', 'cost$', '${RP_RANK}', '$(echo x)', '$$'],
    'backtick' : ['`echo x`', 'a`true`b'],
    'newline'  : ['l1\nl2', '\n', 'trail\n'],
}

SID      = 'rp.session.verif.0000'
PID      = 'pilot.0000'
RESOURCE = 'local.localhost'
ADDR_REG = 'tcp://10.0.0.1:10001'
ADDR_PUB = 'tcp://10.0.0.1:10002'
ADDR_SUB = 'tcp://10.0.0.1:10003'
SERVICE  = 'c10.svc'                       # a service tasks may name in td.services
SVC_INFO = 'tcp://10.0.0.1:10009'

NENV      = 'c10env'                      # the named environment tasks may ask for
NENV_HOME = '/opt/c10env'
KEYS      = {'fresh': 'C10_K%d', 'innamed': 'C10_NE%d', 'agent': 'C10_AG%d'}
AGENT_ENV = {'C10_AG1': 'agent', 'C10_AG2': 'agent', 'C10_AG3': 'agent'}    # agent has, named env not
NAMED_ENV = {'C10_NE1': 'ne_default', 'C10_NE2': 'ne_default', 'C10_NE3': 'ne_default',
             'VIRTUAL_ENV': NENV_HOME}


def env_key(cfg, i):
    kinds = cfg.get('envk') or []
    return KEYS[kinds[i] if i < len(kinds) else 'fresh'] % (i + 1)


# the stand-ins log "<what> <rank> <RP_RANK>": <rank> is the rank the launcher
# started (C10_TRUE_RANK, set by the MPI stand-in next to the flavor's native rank
# variable; Fork starts the one script itself: the RP_RANK it exports), -1 in the
# launch script
_CMD = '''#!/bin/sh
# pre/post command stand-in: log the call, exit as the case demands
r="${RP_RANK:--1}"; t="${C10_TRUE_RANK:-$r}"
echo "$1 $t $r" >> "$C10_OUT/cmd.log"
f="$C10_OUT/rc.$1.$t"
rc=0
[ -f "$f" ] && read rc < "$f"
exit $rc
'''

_CTRL = '''#!/bin/sh
# $RP_CTRL stand-in (radical-pilot-control): log the call and its arguments
r="${RP_RANK:--1}"; t="${C10_TRUE_RANK:-$r}"
echo "ctrl $t $r" >> "$C10_OUT/cmd.log"
echo "$*" >> "$C10_OUT/ctrl.$t"
exit 0
'''

_EXE = '''#!/bin/sh
# executable stand-in: dump argv / environ / cwd, write to stdout and stderr
r="${RP_RANK:--1}"; t="${C10_TRUE_RANK:-$r}"
o="$C10_OUT"
echo "exec $t $r" >> "$o/cmd.log"
for a in "$@"; do printf '%s\\000' "$a"; done > "$o/argv.$t"
env -0 > "$o/env.$t"
pwd -P > "$o/cwd.$t"
case "$C10_WR" in
  out) echo "OUT:$t" ;;
  err) echo "ERR:$t" 1>&2 ;;
  *)   echo "OUT:$t"; echo "ERR:$t" 1>&2 ;;
esac
case "$t" in
  -1) rc=0 ;;
  *)  eval "rc=\\${C10_RC_$t:-0}" ;;
esac
exit $rc
'''

_EXE_PY = '''#!/venv/bin/python
import os, sys
r = os.environ.get('RP_RANK', '-1')
t = os.environ.get('C10_TRUE_RANK', r)
o = os.environ['C10_OUT']
with open(o + '/cmd.log', 'a') as fh:
    fh.write('exec %s %s\\n' % (t, r))
with open(o + '/argv.' + t, 'wb') as fh:
    fh.write(b''.join(os.fsencode(a) + b'\\0' for a in sys.argv[1:]))
with open(o + '/env.' + t, 'wb') as fh:
    fh.write(b''.join(k + b'=' + v + b'\\0' for k, v in os.environb.items()))
with open(o + '/cwd.' + t, 'w') as fh:
    fh.write(os.path.realpath(os.getcwd()) + '\\n')
wr = os.environ.get('C10_WR', 'both')
if wr != 'err':
    sys.stdout.write('OUT:%s\\n' % t)
    sys.stdout.flush()
if wr != 'out':
    sys.stderr.write('ERR:%s\\n' % t)
sys.exit(int(os.environ.get('C10_RC_' + t, '0')))
'''

_MPIRUN = '''#!/bin/sh
# MPI launcher stand-in: n instances of the command, the rank id announced in the
# flavor's native variables (first argument, comma separated), output forwarded,
# exit code: the first non-zero one in rank order
vars=$(echo "$1" | tr , ' '); n=$2; shift 2
i=0
while [ $i -lt $n ]; do
  ( for v in $vars; do export $v=$i; done
    C10_TRUE_RANK=$i "$@"; echo $? > "$C10_OUT/rank.$i.rc" ) &
  i=$((i+1))
done
wait
i=0; rc=0
while [ $i -lt $n ]; do
  read c < "$C10_OUT/rank.$i.rc"
  [ $rc -eq 0 ] && rc=$c
  i=$((i+1))
done
exit $rc
'''

# launcher installations per MPI flavor: class, name, where `which` finds the
# binary, what the binary prints for the options _get_mpi_info tries (anything
# else: not understood, exit code 1), the variables the launcher announces the
# rank in
FLAVORS = {
    'ompi'    : {'cls': 'MPIRun', 'name': 'MPIRUN',
                 'exe': '/usr/lib64/openmpi/bin/mpirun',
                 'out': {'-V': 'mpirun (Open MPI) 4.1.5\n\nReport bugs to http://www.open-mpi.org/community/help/\n',
                         '--version': 'mpirun (Open MPI) 4.1.5\n\nReport bugs to http://www.open-mpi.org/community/help/\n'},
                 'vars': ['PMIX_RANK', 'OMPI_COMM_WORLD_RANK']},
    'hydra'   : {'cls': 'MPIExec', 'name': 'MPIEXEC',
                 'exe': '/opt/mpich/4.0.2/bin/mpiexec',
                 'out': {'--version': 'HYDRA build details:\n    Version:                                 4.0.2\n'
                                      '    Release Date:                            Thu Apr  7 12:34:45 CDT 2022\n'
                                      '    CC:                              gcc\n'
                                      '    Process Manager:                         pmi\n',
                         '-info': 'HYDRA build details:\n    Version:                                 4.0.2\n'},
                 'vars': ['PMI_RANK']},
    'spectrum': {'cls': 'MPIRun', 'name': 'MPIRUN',
                 'exe': '/opt/ibm/spectrum_mpi/bin/mpirun',
                 'out': {'-V': 'mpirun (IBM Spectrum MPI) 10.4.0.03rtm0\n\nReport bugs to http://www.ibm.com/\n',
                         '--version': 'mpirun (IBM Spectrum MPI) 10.4.0.03rtm0\n'},
                 'vars': ['PMIX_RANK', 'OMPI_COMM_WORLD_RANK']},
    'pals'    : {'cls': 'MPIExec', 'name': 'MPIEXEC',
                 'exe': '/opt/cray/pals/1.2.12/bin/mpiexec',
                 'out': {'--version': 'mpiexec version 1.2.12 revision 1\n'},
                 'vars': ['PALS_RANKID']},
    'unknown' : {'cls': 'MPIRun', 'name': 'MPIRUN',
                 'exe': '/opt/vendor/mpi/bin/mpirun',
                 'out': {'-V': 'Vendor MPI launcher, release 3.1\n'},
                 'vars': ['MPI_RANK']},
}


class _Rcfg(dict):
    def __getattr__(self, k):
        return self.get(k)


class _Prof(rpshim.NullLog):
    enabled = False


class _Session(object):
    pass


def _write(path, text, mode=0o644):
    with open(path, 'w') as fh:
        fh.write(text)
    os.chmod(path, mode)


def hexs(s):
    return s.encode('utf-8').hex()


# ------------------------------------------------------------------------------
class World(object):
    '''one temp tree + one real executor + the launchers; thread-safe `run`'''

    def __init__(self, task_pre_exec=None):
        self.root  = os.path.realpath(tempfile.mkdtemp(prefix='b-script_rig_', dir='/tmp'))
        self.rsbox = self.root + '/radical.pilot.sandbox'
        self.ssbox = self.rsbox + '/' + SID
        self.psbox = self.ssbox + '/' + PID
        self.bin   = self.root + '/bin'
        self.outs  = self.root + '/obs'
        self.other = self.root + '/elsewhere'       # sandboxes outside the pilot sandbox
        self.absd  = self.root + '/absout'          # absolute stdout / stderr names
        self.path  = self.bin + ':/usr/bin:/bin'
        for d in (self.psbox + '/env', self.bin, self.outs, self.other, self.absd):
            os.makedirs(d)
        _write(self.psbox + '/prof', '#!/bin/sh\nexit 0\n', 0o755)
        _write(self.psbox + '/env/lm_fork.sh',   'export C10_LM_ENV=fork\n')
        _write(self.psbox + '/env/lm_mpirun.sh', 'export C10_LM_ENV=mpirun\n')
        _write(self.psbox + '/env/lm_mpiexec.sh', 'export C10_LM_ENV=mpiexec\n')
        _write(self.bin + '/c10_cmd',    _CMD,    0o755)
        _write(self.bin + '/c10_exe',    _EXE,    0o755)
        _write(self.bin + '/c10_exe_py', _EXE_PY, 0o755)
        _write(self.bin + '/c10_mpirun', _MPIRUN, 0o755)
        _write(self.bin + '/c10_ctrl',   _CTRL,   0o755)
        _write(self.bin + '/sleep', '#!/bin/sh\nexec /usr/bin/sleep 0.01\n', 0o755)
        self._lm_of = dict()
        self.lm_info = dict()
        self._build(task_pre_exec)

    def close(self):
        shutil.rmtree(self.root, ignore_errors=True)

    # --------------------------------------------------------------------------
    def _build(self, task_pre_exec):
        s = _Session()
        s.uid      = SID
        s.reg_addr = ADDR_REG
        s.rcfg     = _Rcfg(resource_manager='FORK', task_pre_exec=task_pre_exec,
                           new_session_per_task=False)
        s.cfg      = ru.Config(from_dict={'pid': PID, 'resource': RESOURCE,
                                          'resource_sandbox': self.rsbox,
                                          'session_sandbox': self.ssbox,
                                          'pilot_sandbox': self.psbox})
        ex = Popen.__new__(Popen)
        ex._session = s
        ex._log     = rpshim.NullLog()
        ex._prof    = _Prof()
        ex._reg     = {'bridges.control_pubsub': {'addr_pub': ADDR_PUB, 'addr_sub': ADDR_SUB},
                       'services.%s' % SERVICE: SVC_INFO}
        ex._to_watcher        = lambda: None
        ex.register_input     = lambda *a, **k: None
        ex.register_output    = lambda *a, **k: None
        ex.register_publisher = lambda *a, **k: None
        ex._launch_task       = lambda task: None          # the rig starts the script itself

        world = self

        class _RM(object):
            def find_launcher(self, task):
                name = world._lm_of[task['uid']]
                return world.launchers[name], name

        real_which = ru.which
        with mock.patch.object(xbase.rpa.ResourceManager, 'create', return_value=_RM()), \
             mock.patch.object(xbase.os, 'getcwd', return_value=self.psbox), \
             mock.patch.object(xbase.ru, 'which',
                               side_effect=lambda x: (self.bin + '/c10_ctrl') if 'radical-pilot-control' in str(x)
                               else real_which(x)), \
             mock.patch.dict(os.environ, {'TMPDIR': self.root + '/tmp'}):
            xbase.AgentExecutingComponent.initialize(ex)          # the real initialize()
        self.ex = ex

        fork = Fork.__new__(Fork)
        fork.name, fork._log, fork._prof = 'FORK', rpshim.NullLog(), rpshim.NullLog()
        fork.init_from_info({'env': {}, 'env_sh': 'env/lm_fork.sh'})

        # MPI launchers, one per flavor, through the code's own two-step life cycle:
        # a first instance inspects the installation (real init_from_scratch ->
        # _get_mpi_info, with `which` / the binary's output coming from FLAVORS), the
        # info travels through the registry (JSON), a second instance picks it up
        # (real init_from_info).  get_rank_cmd of that instance writes the rank-id
        # lines of the exec script.
        self.launchers = {'fork': fork}
        for fl, inst in FLAVORS.items():
            self.launchers[fl] = self._mpi_launcher(fl, inst)

        # the named environment, prepared as the agent does: an env dump
        # `env/rp_named_env.<name>.env` in the pilot sandbox; the real
        # LaunchMethod.get_task_named_env (ru.env_prep) turns it, per launcher,
        # into the activation script the exec script sources.  That happens in the
        # agent's process: cwd = pilot sandbox, os.environ = the agent's environment
        named = dict(NAMED_ENV, PATH=self.path)
        ru.env_dump(environment=named,
                    script_path='%s/env/rp_named_env.%s.env' % (self.psbox, NENV))
        agent = dict(AGENT_ENV, PATH=self.path, HOME=self.root + '/home', LANG='C.UTF-8')
        cwd   = os.getcwd()
        try:
            os.chdir(self.psbox)
            with mock.patch.dict(os.environ, agent, clear=True):
                for lm in self.launchers.values():
                    lm._pwd = self.psbox
                    lm.get_task_named_env(NENV)
        finally:
            os.chdir(cwd)

    # --------------------------------------------------------------------------
    def _mpi_launcher(self, fl, inst):
        cls = {'MPIRun': MPIRun, 'MPIExec': MPIExec}[inst['cls']]

        def which(names):
            return inst['exe']

        def callout(cmd, *args, **kwargs):
            words = cmd.split()
            if '--help' in words or words[0] != inst['exe']:
                return ['', 'unknown', 1]                    # option probes: not offered
            out = inst['out'].get(words[-1])
            return [out, '', 0] if out is not None else ['', 'unrecognized option', 1]

        def make():
            lm = cls.__new__(cls)
            lm.name, lm._log, lm._prof = inst['name'], rpshim.NullLog(), rpshim.NullLog()
            lm._rm_info = ru.Config(from_dict={'details': {}})
            return lm

        env_sh = 'env/lm_%s.sh' % inst['name'].lower()
        with mock.patch.object(ru, 'which', which), \
             mock.patch.object(ru, 'sh_callout', callout), \
             mock.patch.object(ru, 'get_hostname', lambda: 'c10node0001'):
            info = make().init_from_scratch({}, env_sh)
        lm = make()
        lm.init_from_info(json.loads(json.dumps(info)))
        self.lm_info[fl] = {'mpi_flavor': str(info.get('mpi_flavor')),
                            'mpi_version': str(info.get('mpi_version'))}
        # placement options of a real launcher are C09's business: the stand-in
        # gets the flavor's rank variables, the rank count and the exec script
        stub, rvars = self.bin + '/c10_mpirun', ','.join(inst['vars'])
        lm.get_launch_cmds = lambda task, exec_path: '%s %s %d %s' % (
            stub, rvars, task['description']['ranks'], exec_path)
        return lm

    # --------------------------------------------------------------------------
    def task_for(self, case):
        '''(task dict as the executor receives it, expectations derived from the
           *description*, not from RP's code)'''
        cfg  = case['cfg']
        uid  = case['uid']
        n    = cfg['ranks']
        cmd  = self.bin + '/c10_cmd'

        def entries(sig, es):
            out = []
            for i, e in enumerate(es, 1):
                if e['k'] == 'g':
                    out.append('%s %s.%d.g' % (cmd, sig, i))
                else:
                    out.append({str(r): '%s %s.%d.r%d' % (cmd, sig, i, r) for r in e['on']})
            return out

        g = {'k': 'g', 'on': []}
        d = {'executable'   : self.bin + '/' + case.get('probe', 'c10_exe'),
             'arguments'    : list(case['argv']),
             'environment'  : {env_key(cfg, i): v for i, v in enumerate(case['env'])},
             'named_env'    : NENV if cfg.get('nenv') else '',
             'pre_exec'     : entries('pre_exec',  cfg['pre']),
             'post_exec'    : entries('post_exec', cfg['post']),
             'pre_launch'   : entries('pre_launch',  [g] * cfg['prel']),
             'post_launch'  : entries('post_launch', [g] * cfg['postl']),
             'ranks'        : n,
             'cores_per_rank': case.get('cpr', 1),
             'gpus_per_rank': cfg['gq'] / 4.0,
             'gpu_type'     : cfg['gtype'],
             'startup_timeout': 30 if cfg['sto'] else 0,
             'services'     : [SERVICE] if cfg['svc'] else [],
             'threading_type': rpc.OpenMP if cfg['omp'] else '',
             'pre_exec_sync': bool(cfg['sync']),
             'name'         : case.get('name', '')}
        names = {'out_rel': 'my_stdout.txt', 'out_abs': '%s/%s.o' % (self.absd, uid),
                 'err_rel': 'logs.err.txt',  'err_abs': '%s/%s.e' % (self.absd, uid)}
        if cfg['err'] == 'same':                      # td.stderr names the file of td.stdout
            names['err_rel'], names['err_abs'] = names['out_rel'], names['out_abs']
        for key, kind, pfx in (('stdout', cfg['out'], 'out'),
                               ('stderr', cfg['out'] if cfg['err'] == 'same' else cfg['err'], 'err')):
            if kind == 'rel':
                d[key] = names[pfx + '_rel']
            elif kind == 'abs':
                d[key] = names[pfx + '_abs']
        td = rp.TaskDescription(d)
        td.verify()
        tdd = td.as_dict()

        sbox = (self.psbox if case.get('sbox', 'in') == 'in' else self.other) + '/' + uid
        # slots as the scheduler hands them on: whole GPUs are exclusive, shares of
        # a GPU are packed on one GPU (ScriptOps!GpusOf), ids counted from gbase
        gq, gbase = cfg['gq'], case.get('gbase', 0)

        def gpus(r):
            if gq >= 4:
                return [{'index': gbase + r * (gq // 4) + j, 'occupation': 1.0} for j in range(gq // 4)]
            if gq > 0:
                return [{'index': gbase + (r * gq) // 4, 'occupation': gq / 4.0}]
            return []
        slots = [Slot(cores=list(range(r * d['cores_per_rank'], (r + 1) * d['cores_per_rank'])),
                      gpus=gpus(r), node_name='localhost', node_index=0).as_dict()
                 for r in range(n)]
        task = {'uid': uid, 'description': tdd, 'task_sandbox_path': sbox, 'slots': slots}
        if case.get('name'):
            task['name'] = case['name']

        want = {'sbox'  : sbox,
                'names' : names,
                'rp'    : {'RP_TASK_ID'            : uid,
                           'RP_TASK_NAME'          : case.get('name') or uid,
                           'RP_PILOT_ID'           : PID,
                           'RP_SESSION_ID'         : SID,
                           'RP_RESOURCE'           : RESOURCE,
                           'RP_RESOURCE_SANDBOX'   : self.rsbox,
                           'RP_SESSION_SANDBOX'    : self.ssbox,
                           'RP_PILOT_SANDBOX'      : self.psbox,
                           'RP_TASK_SANDBOX'       : sbox,
                           'RP_RANKS'              : str(n),
                           'RP_CORES_PER_RANK'     : str(d['cores_per_rank']),
                           'RP_GPUS_PER_RANK'      : str(cfg['gq'] / 4.0),
                           'RP_REGISTRY_ADDRESS'   : ADDR_REG,
                           'RP_CONTROL_PUB_ADDRESS': ADDR_PUB,
                           'RP_CONTROL_SUB_ADDRESS': ADDR_SUB},
                'omp'   : str(d['cores_per_rank']) if cfg['omp'] else 'unset'}
        return task, want

    # --------------------------------------------------------------------------
    def run(self, case, keep=False, timeout=60):
        '''generate the scripts with the real code, run them, return the trace'''
        cfg  = case['cfg']
        cfg.setdefault('err', cfg['out'])             # replay objects of earlier versions
        cfg.setdefault('nenv', False)
        cfg.setdefault('envk', ['fresh'] * len(cfg['env']))
        if 'gq' not in cfg:
            cfg['gq'], cfg['gtype'] = 4 * cfg.pop('gpr', 0), 'CUDA'
        for k in ('sto', 'svc', 'cfgpre', 'prof'):
            cfg.setdefault(k, False)
        cfg.setdefault('fl', 'none' if cfg['lm'] == 'fork' else 'ompi')
        cfg.setdefault('sv', 'none')
        cfg.setdefault('sval', 0)
        cfg.setdefault('wr', 'both')
        uid  = case['uid']
        n    = cfg['ranks']
        task, want = self.task_for(case)
        sbox = want['sbox']
        obs  = '%s/%s' % (self.outs, uid)
        os.makedirs(obs)

        self._lm_of[uid] = 'fork' if cfg['lm'] == 'fork' else cfg['fl']
        gen_error = 'none'
        # per-resource / per-session settings of this case (cases run one at a time)
        self.ex.session.rcfg['task_pre_exec'] = \
            ['%s/c10_cmd pre_exec.%d.g' % (self.bin, len(cfg['pre']) + 1)] if cfg['cfgpre'] else None
        self.ex._prof.enabled = bool(cfg['prof'])
        try:
            Popen._handle_task(self.ex, task)                 # real code writes both scripts
        except Exception as e:                                # pylint: disable=broad-except
            gen_error = repr(e)[:200]
        finally:
            self._lm_of.pop(uid, None)

        # outcomes the case prescribes
        env = {'PATH': self.path, 'HOME': self.root + '/home',
               'C10_OUT': obs, 'LANG': 'C.UTF-8'}
        env.update(AGENT_ENV)
        env['C10_WR'] = cfg['wr']
        if cfg['sv'] != 'none':                       # rank variable of another launcher layer
            env[cfg['sv']] = str(cfg['sval'])
        for r in range(n):
            env['C10_RC_%d' % r] = str(case['xrc'][r])
        for f in case['F']:
            es  = {'pre_exec': cfg['pre'], 'post_exec': cfg['post']}.get(f['sig'])
            who = 'g' if es is None or f['i'] > len(es) or es[f['i'] - 1]['k'] == 'g' \
                      else 'r%d' % f['r']
            _write('%s/rc.%s.%d.%s.%d' % (obs, f['sig'], f['i'], who, f['r']),
                   '%d\n' % case.get('fail_code', 1))

        lcode = -1
        if gen_error == 'none':
            with open('%s/%s.launch.out' % (sbox, uid), 'w') as fh:
                p = sp.Popen(args=task['launch_path'], executable=None, shell=False, stdin=None,
                             stdout=fh, stderr=sp.STDOUT, close_fds=True, cwd=sbox, env=env,
                             start_new_session=True)
                # blocking wait (a wait with timeout polls); a hanging script is killed
                hung  = []
                guard = mt.Timer(timeout, lambda: (hung.append(1), os.killpg(p.pid, signal.SIGKILL)))
                guard.start()
                lcode = p.wait()
                guard.cancel()
                if hung:
                    lcode = -2

        want['task_out'] = os.path.normpath(task['stdout_file']) if task.get('stdout_file') else 'unset'
        want['task_err'] = os.path.normpath(task['stderr_file']) if task.get('stderr_file') else 'unset'
        trace = self._observe(case, want, obs, lcode, gen_error)
        if keep:
            trace['_dirs'] = {'sbox': sbox, 'obs': obs}
        else:
            shutil.rmtree(obs, ignore_errors=True)
            shutil.rmtree(sbox, ignore_errors=True)
            for f in os.listdir(self.absd):
                if f.startswith(uid + '.'):
                    os.unlink('%s/%s' % (self.absd, f))
        return trace

    # --------------------------------------------------------------------------
    def _observe(self, case, want, obs, lcode, gen_error):
        cfg, n = case['cfg'], case['cfg']['ranks']

        def read(path, mode='rb'):
            try:
                with open(path, mode) as fh:
                    return fh.read()
            except OSError:
                return None

        def norm(k, v):
            if k.endswith('_SANDBOX'):
                return os.path.realpath(v)
            if k == 'RP_GPUS_PER_RANK':
                try:
                    return repr(float(v))
                except ValueError:
                    return v
            return v

        events = []
        log = read(obs + '/cmd.log', 'r') or ''
        for line in log.splitlines():
            # "<what> <rank the launcher started> <RP_RANK of the script>"
            cols = line.split(' ')
            cid  = ' '.join(cols[:-2])
            try:
                r = int(cols[-2])
            except (ValueError, IndexError):
                r = -9
            try:
                rid = int(cols[-1])
            except ValueError:
                rid = -9
            if cid == 'exec':
                ev = {'ev': 'Exec', 'r': r, 'rid': rid}
                raw   = read('%s/argv.%d' % (obs, r)) or b''
                seen  = [a.hex() for a in raw.split(b'\0')[:-1]]
                envd  = {}
                for kv in (read('%s/env.%d' % (obs, r)) or b'').split(b'\0'):
                    k, eq, v = kv.partition(b'=')
                    if eq:
                        envd[k.decode('utf-8', 'replace')] = v
                ev['argv'] = {'cls': list(cfg['argv']), 'want': [hexs(a) for a in case['argv']],
                              'seen': seen}
                ev['env']  = [{'k': env_key(cfg, i), 'cls': cfg['env'][i], 'want': 'h:' + hexs(v),
                               'seen': ('h:' + envd[env_key(cfg, i)].hex())
                                       if env_key(cfg, i) in envd else 'unset'}
                              for i, v in enumerate(case['env'])]
                items = []
                rpw = dict(want['rp'])
                rpw['RP_RANK'] = str(r)
                for k in sorted(rpw):
                    s = envd.get(k)
                    items.append({'clause': 'RpEnv', 'k': k, 'want': norm(k, rpw[k]),
                                  'seen': norm(k, s.decode('utf-8', 'replace')) if s is not None else 'unset'})
                s = envd.get('OMP_NUM_THREADS')
                if cfg['omp']:
                    items.append({'clause': 'OmpThreads', 'k': 'OMP_NUM_THREADS', 'want': want['omp'],
                                  'seen': s.decode('utf-8', 'replace') if s is not None else 'unset'})
                s = envd.get('C10_LM_ENV')
                items.append({'clause': 'LauncherEnv', 'k': 'C10_LM_ENV',
                              'want': 'fork' if cfg['lm'] == 'fork'
                                      else FLAVORS[cfg['fl']]['name'].lower(),
                              'seen': s.decode('utf-8', 'replace') if s is not None else 'unset'})
                s = envd.get('RP_INFO_' + SERVICE.replace('.', '_').upper())
                items.append({'clause': 'ServiceInfo', 'k': 'RP_INFO',
                              'want': SVC_INFO if cfg['svc'] else 'unset',
                              'seen': s.decode('utf-8', 'replace') if s is not None else 'unset'})
                s = envd.get('RP_PROF_TGT')
                items.append({'clause': 'ProfTarget', 'k': 'RP_PROF_TGT',
                              'want': os.path.realpath('%s/%s.prof' % (want['sbox'], case['uid']))
                                      if cfg['prof'] else 'unset',
                              'seen': os.path.realpath(s.decode('utf-8', 'replace'))
                                      if s is not None else 'unset'})
                s = envd.get('VIRTUAL_ENV')
                items.append({'clause': 'NamedEnv', 'k': 'VIRTUAL_ENV',
                              'want': NENV_HOME if cfg.get('nenv') else 'unset',
                              'seen': s.decode('utf-8', 'replace') if s is not None else 'unset'})
                cwd = (read('%s/cwd.%d' % (obs, r), 'r') or 'unreadable').strip()
                items.append({'clause': 'Cwd', 'k': 'cwd', 'want': os.path.realpath(want['sbox']),
                              'seen': os.path.realpath(cwd)})
                ev['items'] = items
                s = envd.get('CUDA_VISIBLE_DEVICES')
                try:
                    ev['cvd'] = [int(x) for x in s.decode().split(',')] if s else []
                except ValueError:
                    ev['cvd'] = [-1]
                ev['cvd_set'] = s is not None
                events.append(ev)
            elif cid == 'ctrl':
                calls = (read('%s/ctrl.%d' % (obs, r), 'r') or '').splitlines()
                k     = sum(1 for e in events if e['ev'] == 'Ctrl' and e['r'] == r)
                events.append({'ev': 'Ctrl', 'r': r, 'rid': rid,
                               'want': '%s task_startup_done uid=%s' % (SID, case['uid']),
                               'seen': calls[k] if k < len(calls) else 'unreadable'})
            else:
                parts = cid.split('.')
                if len(parts) == 3 and parts[1].isdigit() and (parts[2] == 'g' or parts[2][1:].isdigit()):
                    events.append({'ev': 'Cmd', 'sig': parts[0], 'i': int(parts[1]),
                                   'who': -1 if parts[2] == 'g' else int(parts[2][1:]), 'r': r, 'rid': rid})
                else:
                    events.append({'ev': 'Cmd', 'sig': 'garbled', 'i': 0, 'who': -1, 'r': r, 'rid': rid})

        if cfg['lm'] == 'mpi':
            for r in range(n):
                c = read('%s/rank.%d.rc' % (obs, r), 'r')
                if c is not None and c.strip().lstrip('-').isdigit():
                    events.append({'ev': 'RankExit', 'r': r, 'code': int(c)})

        # every file that holds what a rank wrote to stdout / stderr: the whole task
        # sandbox (recursively) and the directory of the absolute names
        found = {'OUT': [[] for _ in range(n)], 'ERR': [[] for _ in range(n)]}
        fail  = []                                    # files with rp_error's "<sig> failed"
        files = ['%s/%s' % (self.absd, f) for f in sorted(os.listdir(self.absd))
                 if f.startswith(case['uid'] + '.')]
        for top, _, fs in sorted(os.walk(want['sbox'])):
            files += ['%s/%s' % (top, f) for f in sorted(fs)]
        for f in files:
            lines = (read(f, 'rb') or b'').split(b'\n')
            for tag in ('OUT', 'ERR'):
                for r in range(n):
                    if ('%s:%d' % (tag, r)).encode() in lines:
                        found[tag][r].append(os.path.normpath(f))
            if b'pre_exec failed' in lines or b'post_exec failed' in lines:
                fail.append(os.path.normpath(f))
        events.append({'ev': 'LaunchExit', 'code': lcode,
                       'out_at': found['OUT'], 'err_at': found['ERR'], 'fail_at': fail})

        return {'uid': case['uid'], 'cfg': cfg, 'F': case['F'], 'xrc': list(case['xrc']),
                'gen_error': gen_error, 'events': events,
                'sbox': os.path.normpath(want['sbox']), 'names': want['names'],
                'task_out': want['task_out'], 'task_err': want['task_err'],
                'gbase': case.get('gbase', 0),
                'lm_info': self.lm_info.get(cfg['fl'], {'mpi_flavor': 'none', 'mpi_version': 'none'})}


# ------------------------------------------------------------------------------
def make_case(uid, cfg, F, xrc, rng, counters=None, **kw):
    '''concrete case of a task shape: token classes -> strings (round robin over
       the instances of a class, start chosen by the seed), codes -> numbers'''
    counters = counters if counters is not None else {}

    def pick(cls):
        toks = TOKENS[cls]
        if cls not in counters:
            counters[cls] = rng.randrange(len(toks))
        counters[cls] += 1
        return toks[counters[cls] % len(toks)]

    case = {'uid': uid, 'cfg': cfg, 'F': F,
            'xrc' : [0 if x == 0 else rng.choice([1, 3, 42, 200]) for x in xrc],
            'argv': [pick(c) for c in cfg['argv']],
            'env' : [pick(c) for c in cfg['env']],
            'fail_code': rng.choice([1, 2, 3, 77, 255])}
    case.update(kw)
    return case


def _worker_init():
    signal.signal(signal.SIGTERM, signal.SIG_DFL)
    signal.signal(signal.SIGINT,  signal.SIG_DFL)


def _run_chunk(cases):
    w = World()
    try:
        return [w.run(c) for c in cases]
    finally:
        w.close()


def run_cases(cases, workers=8):
    '''run many cases; worker *processes* (each single-threaded, with its own
       World): a thread that forks while another one writes a script would keep
       that script open for writing in the child and make its exec fail (ETXTBSY)'''
    if workers <= 1 or len(cases) < 2 * workers:
        return _run_chunk(cases)
    chunks = [cases[k::workers] for k in range(workers)]
    pool   = mp.get_context('fork').Pool(workers, initializer=_worker_init)
    try:
        parts = pool.map(_run_chunk, chunks)
        pool.close()
    except BaseException:
        pool.terminate()
        raise
    finally:
        pool.join()
    out = [None] * len(cases)
    for k, part in enumerate(parts):
        out[k::workers] = part
    return out
