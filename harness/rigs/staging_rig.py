'''
Staging rig (C11): one *case* of the Staging design model (directive lists of
two tasks, task outcome, stage_on_error) is instantiated on real directory
trees under a temp dir and pushed through the REAL staging pipeline

    Task.__init__ (expand_description)            client
    tmgr scheduler (RoundRobin)._assign_pilot      client   (Session sandbox helpers)
    tmgr  staging_input .Default.work              client   (TRANSFER, TARBALL)
    agent staging_input .Default.work              agent    (COPY, LINK, MOVE, untar)
    -- execution: the rig writes the task's output files, sets target_state --
    agent staging_output.Default.work              agent    (COPY, LINK, MOVE)
    tmgr  staging_output.Default.work              client   (TRANSFER)

with the real StagingHelper / StagingHelper_Local (real `cp` through
ru.sh_callout, real os.link, shutil.move, tarfile).  The components are built
with __new__ plus what BaseComponent.__init__ provides, then their REAL
initialize() runs (registration calls answered by fakes); the real `advance`
runs, only its two sinks (state publisher, output queue) are in-memory fakes which
route the task dicts to the next stager and give the task outcome.

One event is recorded per stager: the six location trees (client, endpoint,
resource, session, pilot, task sandboxes) as  (location, path, content,
inode group)  plus the state of both tasks.  StagingTrace.tla compares them
with the maps of the design model.

Six locations on disk (root = fresh temp dir):
    client    root/client                           session._cache['client_sandbox']
    endpoint  root/ep        (absolute paths and endpoint:// URLs point in here)
    resource  root/work/radical.pilot.sandbox       default_remote_workdir = root/work
    session   <resource>/<sid>
    pilot     <session>/pilot.0000/
    task      <pilot>/task.000000/ (A), <pilot>/task.000001/ (B, the bystander)
The nesting is the real one (Session._get_*_sandbox run unmodified).
'''

import os
import copy
import json
import shutil
import tempfile
import threading

from .. import rpshim

rp  = rpshim.load()
ru  = __import__('radical.utils', fromlist=['x'])
rps = rp.states
rpc = rp.constants

from radical.pilot import session as rp_session
from radical.pilot import task    as rp_task
from radical.pilot.utils import staging_helper as rp_sh
from radical.pilot.tmgr.scheduler.round_robin import RoundRobin
from radical.pilot.tmgr.staging_input.default  import Default as TmgrIn
from radical.pilot.tmgr.staging_output.default import Default as TmgrOut
from radical.pilot.agent.staging_input.default  import Default as AgentIn
from radical.pilot.agent.staging_output.default import Default as AgentOut

SID  = 'rp.session.verif'
PID  = 'pilot.0000'
UIDS = {'A': 'task.000000', 'B': 'task.000001'}
UIDS2 = {'A': 'task.000002', 'B': 'task.000003'}      # second generation, same stager objects
UIDC = 'task.000009'                                  # intermediate task of the 'mvdir' step
HOST = 'cluster.example.org'                          # the non-local file system endpoint
SBOX_REL = 'shared_a'                                 # td.sandbox, relative
LOCS = ['client', 'endpoint', 'resource', 'session', 'pilot']       # + taskA, taskB
ACTIONS = {'TRANSFER': rpc.TRANSFER, 'COPY': rpc.COPY, 'LINK': rpc.LINK,
           'MOVE': rpc.MOVE, 'TARBALL': rpc.TARBALL}
RACTIONS = {v: k for k, v in ACTIONS.items()}

# initial files of every non-task location (content = "<location>:<path>"),
# the existing directory of the endpoint tree, and what a task "produces"
INIT_FILES = ['a', 's/a', 'ba', 'h h']
EXIST_DIR  = 'dd'
OUT_FILES  = ['o', 's/o']
OUT_FILES_B = ['bo']

# the bystander: fixed, known-good directives on files no case of A touches
B_IN  = ['ba',
         {'source': 'pilot:///ba', 'target': 'task:///bc', 'action': rpc.COPY}]
B_OUT = ['bo']


# ------------------------------------------------------------------------------
class JailBackend(object):
    '''Transfer back end for a pilot whose file system endpoint is not local:
    every URL a stager hands over is recorded (schema, host, path) and mapped
    to a directory standing for the HOST it names -
        sftp://<HOST>/<path>                 -> <root>/hostB/<path>
        file://localhost/<path> | <path>     -> <path> if inside the rig's root,
                                                else <root>/stray/<path>
        anything else                        -> <root>/stray/<schema>_<host>/<path>
    and then acted on by the REAL StagingHelper_Local, so that data sent to a
    same-named path of the wrong host shows up in the wrong tree.'''

    def __init__(self, rig, inner):
        self.rig, self.inner = rig, inner

    def _map(self, url, op):
        u = ru.Url(str(url))
        self.rig.transfers.append([op, str(u.schema or ''), str(u.host or ''), str(u.path)])
        root, path = self.rig.root, str(u.path)
        if u.schema == 'sftp' and u.host == HOST:
            return '%s/hostB%s' % (root, path)
        if (u.schema or 'file') == 'file' and (u.host or 'localhost') == 'localhost':
            return path if path.startswith(root + '/') else '%s/stray%s' % (root, path)
        return '%s/stray/%s_%s%s' % (root, u.schema, u.host, path)

    def mkdir (self, tgt, flags)     : self.inner.mkdir (self._map(tgt, 'mkdir'), flags)
    def rmdir (self, tgt, flags)     : self.inner.rmdir (self._map(tgt, 'rmdir'), flags)
    def delete(self, tgt, flags)     : self.inner.delete(self._map(tgt, 'delete'), flags)
    def copy  (self, src, tgt, flags): self.inner.copy  (self._map(src, 'copy.src'), self._map(tgt, 'copy.tgt'), flags)
    def move  (self, src, tgt, flags): self.inner.move  (self._map(src, 'move.src'), self._map(tgt, 'move.tgt'), flags)
    def link  (self, src, tgt, flags): self.inner.link  (self._map(src, 'link.src'), self._map(tgt, 'link.tgt'), flags)
    def sh_callout(self, url, cmd)   : return self.inner.sh_callout(url, cmd)


# ------------------------------------------------------------------------------
class FakePub(object):
    def __init__(self, rig, who):
        self.rig, self.who = rig, who

    def put(self, topic, msg):
        for t in msg['arg']:
            self.rig.published.append((self.who, t['uid'], t['state']))


class FakeOut(object):
    channel = 'fake'

    def __init__(self, rig, who):
        self.rig, self.who = rig, who

    def put(self, things, qname=None):
        for t in ru.as_list(things):
            self.rig.pushed.append((self.who, t['uid'], t['state'], t))


class FakeTmgr(object):
    '''what Task.__init__ reads from its task manager'''
    def __init__(self, session):
        self.session = session
        self.uid     = 'tmgr.0000'
        self._log    = rpshim.NullLog()
        self.news    = []

    def advance(self, things, state=None, publish=True, push=False):
        self.news.append(things['uid'])


# ------------------------------------------------------------------------------
class StagingRig(object):

    def __init__(self, case, keep=False, hooks=None):
        '''
        case : {'din': [directive], 'dout': [directive], 'oc': 'DONE'|'FAILED'|'CANCELED',
                'soe': bool, 'cs': 'same'|'differs', 'sb': 'default'|'rel'|'abs',
                'ep': 'local'|'remote', 'g2': 'none'|'rmdir'|'mvdir'|'file'}     directive = {form, act, sk, sp, tk, tp}
        '''
        self.case      = case
        self.keep      = keep
        self.hooks     = hooks or {}
        self.published = []
        self.pushed    = []
        self.events    = []
        self.root      = None
        self.inodes    = {}        # (dev, ino) -> small id, stable across snapshots
        self.escaped   = []        # exceptions a component's work() let through
        self.transfers = []        # URLs handed to the recording back end (remote endpoint)
        self.ignore    = []        # directories outside the model (intermediate task)
        self.uids      = dict(UIDS)
        self.gen       = 1
        case.setdefault('cs', 'differs')
        case.setdefault('sb', 'default')
        case.setdefault('ep', 'local')
        case.setdefault('g2', 'none')
        self.remote    = case['ep'] == 'remote'

    # --------------------------------------------------------------------------
    # rendering of a model directive in the documented concrete syntax
    def src_str(self, d):
        k, p = d['sk'], d['sp']
        if k == 'rel': return p
        if k == 'abs': return '%s/%s' % (self.dirs['endpoint'], p)
        if k == 'endpoint': return 'endpoint://%s/%s' % (self.dirs['endpoint'], p)
        return '%s:///%s' % (k, p)

    def tgt_str(self, d):
        k, p = d['tk'], d['tp']
        if k in ('rel', 'relcwd', 'relcwddir'): return p
        if k in ('abs', 'absfile'): return '%s/%s' % (self.dirs['endpoint'], p)
        if k == 'absdir': return '%s/%s' % (self.dirs['endpoint'], EXIST_DIR)
        if k == 'empty': return ''
        if k == 'endpoint': return 'endpoint://%s/%s' % (self.dirs['endpoint'], p)
        return '%s:///%s' % (k, p)

    def render(self, d):
        f, s = d['form'], self.src_str(d)
        if f == 'bare':
            assert d['tk'] == 'omit' and d['act'] == 'TRANSFER'
            return s
        if f in ('gt', 'gtgt', 'lt', 'ltlt'):
            assert d['act'] == 'TRANSFER' and d['tk'] != 'omit'
            t = self.tgt_str(d)
            return {'gt': '%s > %s' % (s, t), 'gtgt': '%s >> %s' % (s, t),
                    'lt': '%s < %s' % (t, s), 'ltlt': '%s << %s' % (t, s)}[f]
        sd = {'source': s}
        if d['tk'] != 'omit':
            sd['target'] = self.tgt_str(d)
        if f == 'dict':
            sd['action'] = ACTIONS[d['act']]
        else:
            assert f == 'dictna' and d['act'] == 'TRANSFER'
        return sd

    # projection of an expanded directive string back to the model's vocabulary
    def classify(self, s):
        s  = str(s)
        ep = self.dirs['endpoint'] + '/'
        if s == '':
            return {'k': 'empty', 'p': ''}
        if s == ep[:-1]  + '/' + EXIST_DIR:
            return {'k': 'absdir', 'p': ''}
        for loc in LOCS + ['task']:
            pre = '%s://' % loc
            if s.startswith(pre):
                rest = s[len(pre):]
                if loc == 'endpoint' and rest.startswith(ep):
                    return {'k': loc, 'p': rest[len(ep):]}
                return {'k': loc, 'p': rest.lstrip('/')}
        if s.startswith(ep):
            return {'k': 'abs', 'p': s[len(ep):]}
        return {'k': 'rel', 'p': s}

    # --------------------------------------------------------------------------
    def setup(self):
        base = os.environ.get('RP_VERIF_TMP', '/tmp')
        self.root = tempfile.mkdtemp(prefix='rpstg_', dir=base)
        root = self.root

        # the real session sandbox helpers on a session built with __new__
        s = rp_session.Session.__new__(rp_session.Session)
        s._uid        = SID
        s._log        = rpshim.NullLog()
        s._cache_lock = threading.RLock()
        s._cache      = {'endpoint_fs': dict(), 'resource_sandbox': dict(),
                         'session_sandbox': dict(), 'pilot_sandbox': dict(),
                         'client_sandbox': root + '/client',
                         'js_shells': dict(), 'fs_dirs': dict()}
        # endpoint local: the resource's file system is this host's, all
        # sandboxes live under root.  endpoint remote: sftp://HOST/, sandboxes
        # under /scratch/user THERE - on disk under <root>/hostB (JailBackend)
        if self.remote:
            rcfg = {'filesystem_endpoint': 'sftp://%s/' % HOST,
                    'default_remote_workdir': '/scratch/user'}
            pd   = {'resource': 'example.cluster', 'access_schema': 'ssh'}
            self.jail = root + '/hostB'
        else:
            rcfg = {'filesystem_endpoint': 'file://localhost/',
                    'default_remote_workdir': root + '/work'}
            pd   = {'resource': 'local.localhost', 'access_schema': 'local'}
            self.jail = ''
        s.get_resource_config = lambda resource, schema=None: dict(rcfg)
        self.session = s
        self.pilot   = {'uid': PID, 'type': 'pilot', 'description': pd, 'pilot_sandbox': ''}

        # logical paths (as the URLs name them) and where they are on disk
        self.logical = {
            'endpoint': root + '/ep',
            'resource': ru.Url(s._get_resource_sandbox(self.pilot)).path.rstrip('/'),
            'session' : ru.Url(s._get_session_sandbox(self.pilot)).path.rstrip('/'),
            'pilot'   : ru.Url(s._get_pilot_sandbox(self.pilot)).path.rstrip('/'),
        }
        self.dirs = {'client': root + '/client'}
        for loc, path in self.logical.items():
            self.dirs[loc] = self.jail + path
        if self.remote:
            self.dirs['stray'] = root + '/stray'      # same-named paths on the wrong host
            os.makedirs(self.dirs['stray'])
        # td.sandbox of task A, and where the documentation puts its sandbox
        self.sandbox = {'default': None, 'rel': SBOX_REL,
                        'abs': '/scratch/user/campaign/run_7' if self.remote
                               else root + '/abs_sbox/run_7'}[self.case['sb']]
        for loc in LOCS:
            for f in INIT_FILES:
                p = os.path.join(self.dirs[loc], f)
                os.makedirs(os.path.dirname(p), exist_ok=True)
                with open(p, 'w') as fh:
                    fh.write('%s:%s' % (loc, f))
        os.makedirs(os.path.join(self.dirs['endpoint'], EXIST_DIR))
        # directory targets (written with a trailing slash): "d/" exists nowhere,
        # "e/" exists (empty) in every non-task location
        for loc in LOCS:
            os.makedirs(os.path.join(self.dirs[loc], 'e'))
        # working directory of the client process (and, here, of all components;
        # the agent's is the pilot sandbox in production: any directory).
        #   cs = 'same'   : no client_sandbox configured, the session's client
        #                   sandbox IS the working directory
        #   cs = 'differs': session config names another directory; the working
        #                   directory holds decoys named like the client's files
        if self.case.get('cs', 'differs') == 'same':
            self.cwd = self.dirs['client']
        else:
            self.cwd = root + '/cwd'
            os.makedirs(self.cwd)
            self.dirs['cwd'] = self.cwd
            for f in ('a', 's/a', 'ba'):
                p = os.path.join(self.cwd, f)
                os.makedirs(os.path.dirname(p), exist_ok=True)
                with open(p, 'w') as fh:
                    fh.write('decoy:%s' % f)
        # 'target exists already': a stale regular file at an absolute target,
        # a same-named regular file in the working directory for a relative one
        for d in self.case['din']:
            if d['tk'] == 'relcwddir':      # ... or a same-named DIRECTORY there
                os.makedirs(os.path.join(self.cwd, d['tp']), exist_ok=True)
            top = {'absfile': 'endpoint', 'relcwd': 'cwd'}.get(d['tk'])
            if top:
                p = os.path.join(self.dirs[top], d['tp'])
                os.makedirs(os.path.dirname(p), exist_ok=True)
                with open(p, 'w') as fh:
                    fh.write('stale:%s:%s' % (top, d['tp']))
        os.makedirs(root + '/tmp')      # the client stager's tar files (it leaks one per failed pack)

    def cleanup(self):
        if self.root and not self.keep:
            shutil.rmtree(self.root, ignore_errors=True)

    # --------------------------------------------------------------------------
    def component(self, cls, who, reg=None):
        '''a component the way production sets it up: __new__, what
           BaseComponent.__init__ would provide (ids, logger, session, config,
           registry, publishers), then the REAL initialize() with the
           registration calls answered by in-memory fakes - whatever
           initialize() sets is there, now and after a change of the code'''
        c = cls.__new__(cls)
        c._uid        = who
        c._log        = rpshim.NullLog()
        c._prof       = rpshim.NullLog()
        c._session    = self.session
        c._cfg        = ru.Config(from_dict={'owner': 'tmgr.0000', 'uid': who})
        c._reg        = reg or {}
        c._inputs     = dict()
        c._outputs    = dict()
        c._publishers = {rpc.STATE_PUBSUB: FakePub(self, who)}
        out           = FakeOut(self, who)

        def register_input(states, queue, cb=None, qname=None, path=None):
            for st in ru.as_list(states):
                c._inputs[st] = {'queue': queue, 'cb': cb}

        def register_output(states, qname):
            for st in ru.as_list(states):
                c._outputs[st] = out

        c.register_input      = register_input
        c.register_output     = register_output
        c.register_subscriber = lambda pubsub, cb: None
        c.register_publisher  = lambda pubsub: None
        c.initialize()

        stager = getattr(c, '_stager', None)
        if stager is not None and not isinstance(stager._backend, rp_sh.StagingHelper_Local):
            stager._backend = rp_sh.StagingHelper_Local(c._log)     # local back end only
        if stager is not None and self.remote:
            stager._backend = JailBackend(self, stager._backend)
        return c

    def build(self):
        # all components are created in the client's working directory
        self.sched = self.component(RoundRobin, 'tmgr.0000.scheduling.0000')
        self.tin   = self.component(TmgrIn, 'tmgr_staging_input.0000', reg={
                         'cfg.session_sandbox': str(self.session._get_session_sandbox(self.pilot))})
        self.tin.control_cb(rpc.CONTROL_PUBSUB, {'cmd': 'add_pilots',
                                                 'arg': {'pilots': [self.pilot]}})
        self.ain  = self.component(AgentIn,  'agent_staging_input.0000')
        self.aout = self.component(AgentOut, 'agent_staging_output.0000')
        self.tout = self.component(TmgrOut,  'tmgr_staging_output.0000')
        for name, fn in self.hooks.items():
            fn(self)

    # --------------------------------------------------------------------------
    def make_tasks(self):
        '''real Task objects: Task.__init__ expands the directives'''
        tm = FakeTmgr(self.session)
        c  = self.case
        descr = {
            'A': {'uid': self.uids['A'], 'executable': '/bin/true',
                  'input_staging' : [self.render(d) for d in c['din']],
                  'output_staging': [self.render(d) for d in c['dout']],
                  'stage_on_error': bool(c['soe'])},
            'B': {'uid': self.uids['B'], 'executable': '/bin/true',
                  # no agent side action on a host the rig cannot act on
                  'input_staging' : copy.deepcopy(B_IN[:1] if self.remote else B_IN),
                  'output_staging': copy.deepcopy(B_OUT)}}
        if self.sandbox:
            descr['A']['sandbox'] = self.sandbox
        self.rendered = {'in': descr['A']['input_staging'], 'out': descr['A']['output_staging']}
        tasks = {}
        for k in ('A', 'B'):
            td = rp.TaskDescription(from_dict=descr[k])
            t  = rp_task.Task(tm, td, 'client')
            td = t.as_dict()
            td['description'] = td['description'].as_dict() \
                                if hasattr(td['description'], 'as_dict') else dict(td['description'])
            td = json.loads(json.dumps(td, default=str))     # crosses process boundaries as data
            self.sched._assign_pilot(td, self.pilot)
            tasks[k] = td
            # where the DOCUMENTATION puts the sandbox (not where the code says):
            # <pilot sandbox>/<uid>, <pilot sandbox>/<td.sandbox>, or the
            # absolute td.sandbox, on the pilot's file system
            if k == 'A' and self.case['sb'] == 'abs':
                where = self.jail + self.sandbox
            elif k == 'A' and self.case['sb'] == 'rel':
                where = '%s/%s' % (self.dirs['pilot'], self.sandbox)
            else:
                where = '%s/%s' % (self.dirs['pilot'], self.uids[k])
            self.dirs[self.loc(k)] = where
        return tasks

    def loc(self, k):
        return 'task%s%s' % (k, '2' if self.gen == 2 else '')

    def expanded(self, task):
        out = {}
        for key, name in (('din', 'input_staging'), ('dout', 'output_staging')):
            out[key] = [{'act': RACTIONS.get(sd['action'], str(sd['action'])),
                         's': self.classify(sd['source']),
                         't': self.classify(sd['target'])}
                        for sd in task['description'][name]]
        return out

    # --------------------------------------------------------------------------
    def snapshot(self):
        '''all regular files of the six locations: (loc, path, content, inode group)'''
        roots = sorted(self.dirs.items(), key=lambda kv: -len(kv[1]))
        files, inodes = [], self.inodes
        for loc, top in self.dirs.items():
            nested = [r for l, r in roots if r != top and r.startswith(top + '/')]
            for dp, dns, fns in os.walk(top):
                dns[:] = sorted(d for d in dns if os.path.join(dp, d) not in nested
                                                  and os.path.join(dp, d) not in self.ignore)
                for fn in sorted(fns):
                    full = os.path.join(dp, fn)
                    try:
                        st = os.stat(full)
                        with open(full, 'rb') as fh:
                            data = fh.read(200)
                    except OSError:
                        files.append((loc, os.path.relpath(full, top), 'dangling', None))
                        continue
                    try:
                        txt = data.decode('ascii')
                        if len(txt) > 60 or not all(ch.isalnum() or ch in ':/._- ' for ch in txt):
                            raise ValueError
                    except ValueError:
                        txt = 'binary'
                    files.append((loc, os.path.relpath(full, top), txt, (st.st_dev, st.st_ino)))
        for f in files:
            if f[3] is not None and f[3] not in inodes:
                inodes[f[3]] = len(inodes) + 1
        return [{'l': l, 'p': p, 'c': c, 'g': inodes.get(i, 0)} for l, p, c, i in files]

    def states(self):
        st = {}
        for k, uid in self.uids.items():
            seq = [s for _, u, s in self.published if u == uid]
            st[k] = 'failed' if rps.FAILED in seq else \
                    'done'   if rps.DONE   in seq else \
                    'canceled' if rps.CANCELED in seq else 'ok'
        return st

    def event(self, name, **kw):
        e = {'ev': name, 'files': self.snapshot(), 'st': self.states()}
        e.update(kw)
        self.events.append(e)

    def take(self, state):
        '''task dicts pushed in `state` since the last take (as data)'''
        got, self.pushed = [t for _, _, s, t in self.pushed if s == state], []
        return [json.loads(json.dumps(t, default=str)) for t in got]

    def call(self, comp, bulk):
        '''one bulk through a component; an exception work() lets through kills
           the bulk (the tasks are never advanced) and is recorded'''
        try:
            comp.work(bulk)
        except Exception as e:
            self.escaped.append([comp._uid, repr(e)[:200]])

    # --------------------------------------------------------------------------
    def run(self):
        old, oldtmp = os.getcwd(), tempfile.tempdir
        try:
            self.setup()
            os.chdir(self.cwd)
            tempfile.tempdir = self.root + '/tmp'
            self.build()
            return self._run()
        finally:
            tempfile.tempdir = oldtmp
            os.chdir(old)
            self.cleanup()

    def _run(self):
        self.generation()
        if self.case['g2'] != 'none':
            self.environment()
            self.gen, self.uids = 2, dict(UIDS2)
            self.event('Env')
            self.generation()
        return {'case': self.case, 'events': self.events, 'escaped': self.escaped,
                'transfers': self.transfers,
                'published': [[w, u, s] for w, u, s in self.published]}

    def environment(self):
        '''between two generations of tasks: the directory the first
           directive's target lies in disappears (the stager objects stay)'''
        d   = (self.case['din'] + self.case['dout'])[0]
        loc = d['tk']
        top = d['tp'].split('/')[0]
        D   = os.path.join(self.dirs[loc], top)
        g2  = self.case['g2']
        if g2 == 'mvdir' and loc in ('pilot', 'session', 'resource') and os.path.isdir(D):
            # carried away by a MOVE directive of an intermediate task, through
            # the same agent input stager
            tm = FakeTmgr(self.session)
            td = rp.TaskDescription(from_dict={
                     'uid': UIDC, 'executable': '/bin/true',
                     'input_staging': [{'source': '%s:///%s' % (loc, top),
                                        'target': 'task:///%s' % top, 'action': rpc.MOVE}]})
            t  = rp_task.Task(tm, td, 'client').as_dict()
            t['description'] = t['description'].as_dict()
            t  = json.loads(json.dumps(t, default=str))
            self.sched._assign_pilot(t, self.pilot)
            self.ignore.append('%s/%s' % (self.dirs['pilot'], UIDC))
            t['state'] = rps.AGENT_STAGING_INPUT_PENDING
            self.call(self.ain, [t])
            self.pushed = []
        if os.path.isdir(D):
            if g2 == 'mvdir':
                os.makedirs(self.root + '/away', exist_ok=True)
                os.rename(D, '%s/away/%s_%s' % (self.root, loc, top))
            else:
                shutil.rmtree(D)
        if g2 == 'file':
            with open(D, 'w') as fh:
                fh.write('envfile')

    def generation(self):
        tasks = self.make_tasks()
        self.events.append({'ev': 'Expand', 'files': self.snapshot(), 'st': self.states(),
                            'dirs': {k: self.expanded(tasks[k]) for k in ('A', 'B')}})

        bulk = [tasks['A'], tasks['B']]
        for t in bulk:
            t['state'] = rps.TMGR_STAGING_INPUT_PENDING
        self.call(self.tin, bulk)
        self.event('TmgrIn')

        bulk = self.take(rps.AGENT_STAGING_INPUT_PENDING)
        if bulk:
            self.call(self.ain, bulk)
        self.event('AgentIn')

        # execution: every task that reached the scheduler runs and writes its
        # output files; task A ends as the case says, B succeeds
        bulk = self.take(rps.AGENT_SCHEDULING_PENDING)
        for t in bulk:
            k    = 'A' if t['uid'] == self.uids['A'] else 'B'
            sbox = self.dirs[self.loc(k)]
            for f in (OUT_FILES if k == 'A' else OUT_FILES_B):
                p = os.path.join(sbox, f)
                os.makedirs(os.path.dirname(p), exist_ok=True)
                with open(p, 'w') as fh:
                    fh.write('%s:%s' % (self.loc(k), f))
            # target_state as the executor sets it: from the exit code, or
            # CANCELED by its cancel path while the task runs
            oc = 'DONE' if k == 'B' else self.case['oc']
            t['target_state'] = {'DONE': rps.DONE, 'FAILED': rps.FAILED,
                                 'CANCELED': rps.CANCELED}[oc]
            t['exit_code']    = {'DONE': 0, 'FAILED': 1, 'CANCELED': None}[oc]
            t['state']  = rps.AGENT_STAGING_OUTPUT_PENDING
            t['stdout'] = ''
            t['stderr'] = ''
        self.event('Exec')

        if bulk:
            self.call(self.aout, bulk)
        self.event('AgentOut')

        bulk = self.take(rps.TMGR_STAGING_OUTPUT_PENDING)
        if bulk:
            self.call(self.tout, bulk)
        self.event('TmgrOut')


def run_case(case, keep=False, hooks=None):
    return StagingRig(case, keep=keep, hooks=hooks).run()
