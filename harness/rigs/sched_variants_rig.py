'''
Adapters which bind the agent schedulers that share AgentSchedulingComponent's
loop with `Continuous` to the scheduler rig (sched_rig.SchedRig) and to the
AgentSched contract (spec/AgentSched/AgentSchedTrace.tla):

  ContinuousJsrun     own slot format (one entry per jsrun *resource set*:
                      cores = one core list per rank, gpus = the GPU list of the set,
                      repeated per rank), own _change_slot_states / _find_resources
  ContinuousOrdered   Continuous + `order` tags
  ContinuousColo      Continuous + `colocate : {bag, size}` tags, own schedule_task
  ContinuousReconfig  Continuous + parent side work() rewriting ranks / cores_per_rank
                      from a json file
  Hombre              static equal sized chunks, own bookkeeping (self.free)
  Noop                no scheduling at all: work() passes every task on

An adapter says, per class,
  * which attributes the object needs on top of what SchedRig._make sets,
  * which task description fields the class reads (order / colocate tags ...),
  * how the request the monitor judges differs from the request the application
    made (`adapt`: ContinuousReconfig rewrites it, Hombre only takes one shape ...),
  * how the class' slot format and occupancy bookkeeping are projected onto the
    abstract placement [node, cores, gpus (units), lfs, mem] and the node map,
  * which failures are the class' documented behaviour (`legit`),
  * whether the closed form `Fits` of SchedOps describes what the class can place
    (`quiet_ok`): only then the quiescence obligations of C04 are asked for,
  * which clauses of the monitor do not apply at all (`skip`, with the reason).

Nothing of the schedulers is re-implemented: the real parent / scheduler process
objects run, the adapters only build, feed and read them.
'''

import os
import sys
import copy
import math
import json
import shutil
import tempfile

from unittest import mock

from . import sched_rig as R

rp  = R.rp
ru  = R.ru
rps = R.rps
rpc = R.rpc

from radical.pilot.agent.scheduler import noop as noop_mod
from radical.pilot.agent.scheduler.continuous          import Continuous
from radical.pilot.agent.scheduler.continuous_jsrun    import ContinuousJsrun
from radical.pilot.agent.scheduler.continuous_ordered  import ContinuousOrdered
from radical.pilot.agent.scheduler.continuous_colo     import ContinuousColo
from radical.pilot.agent.scheduler.continuous_reconfig import ContinuousReconfig
from radical.pilot.agent.scheduler.hombre              import Hombre
from radical.pilot.agent.scheduler.noop                import Noop


from radical.pilot.agent.resource_manager import base as rm_base


_build_rm_info = R.build_rm_info


def build_rm_info_gaps(lay, dead):
    '''
    Node list with index gaps, as a pilot with backup nodes gets it: the real Fork RM
    lists requested + len(dead) nodes, the real ResourceManager._filter_nodes probes
    them (the ssh probe is replaced: the probes numbered in `dead` fail) and drops the
    unreachable ones WITHOUT renumbering (indexes [0, 2, 3]).  Everything else as
    sched_rig.build_rm_info, which does the work.
    '''
    dead = sorted(set(int(d) for d in dead))
    if not dead:
        return _build_rm_info(lay)
    probes = []

    class Probe(object):
        def __init__(self, cmd):
            self.k, self.stdout, self.stderr, self.retcode = len(probes), '', '', None
            probes.append(self)
        def start(self):
            pass
        def wait(self, timeout=None):
            self.retcode = 255 if self.k in dead else 0
        def cancel(self):
            pass

    real = R.ForkRM.init_from_scratch
    def _ifs(self, rm_info):
        rm_info.backup_nodes = len(dead)
        return real(self, rm_info)

    with mock.patch.object(R.ForkRM, 'init_from_scratch', _ifs), \
         mock.patch.object(rm_base, 'Process', Probe):
        info = _build_rm_info(lay)
    assert len(probes) == lay.nn + lay.agents + len(dead), len(probes)
    return info


class Raw(list):
    '''slots as the scheduler attached them; projected in log() where the uid is known'''
    def __init__(self, raw):
        list.__init__(self)
        self.raw = raw


def _idx(x):
    if isinstance(x, dict): return x['index']
    if isinstance(x, (list, tuple)): return x[0]
    return x


def _occ(x):
    if isinstance(x, dict): return x['occupation']
    if isinstance(x, (list, tuple)): return x[1]
    return 1.0


# ------------------------------------------------------------------------------
class Adapter(object):
    '''default: the class keeps Continuous' formats and the base class' wait pool'''

    cls        = Continuous
    scattered  = (True, False)      # values of rcfg.scattered which are driven
    skip       = {}                 # clause -> why it does not apply to this class
    base_pool  = True               # wait pool logic of the base class unchanged
    rig_class  = None               # set below

    @property
    def name(self):
        return self.cls.__name__

    # what the application asks for / what the monitor judges / per-trace extras
    def adapt(self, lay, shapes, rng):
        task_shapes = {u: self.strip(dict(sh)) for u, sh in shapes.items()}
        return task_shapes, copy.deepcopy(task_shapes), {}

    def strip(self, sh):
        # application supplied slots: td.slots branch of the base class, the same
        # code for every scheduler, covered (and known: D3) by the `sched` part
        sh['supplied'] = []
        return sh

    def fields(self, rig, uid, sh):
        return {}

    def post_make(self, rig, c, who):
        pass

    def proj_slots(self, rig, uid, slots):
        su, out = rig.lay.su, []
        for s in slots or []:
            gp = []
            for g in s['gpus']:
                u = _occ(g) * su
                assert abs(u - round(u)) < 1e-9, 'gpu share not a whole unit: %r' % (g,)
                gp.append([_idx(g), int(round(u))])
            out.append({'node': rig.npos(s['node_index']), 'cores': [_idx(c) for c in s['cores']],
                        'gpus': gp, 'lfs': int(s['lfs'] or 0), 'mem': int(s['mem'] or 0)})
        return out

    def proj_nodes(self, rig):
        return R.SchedRig.proj_nodes(rig)

    def legit(self, rig, uid, exc):
        return False

    def quiet_ok(self, lay, shapes):
        return self.base_pool

    def classify(self, trace, clause):
        return '%s: scheduler-chosen placement' % self.name

    @staticmethod
    def raised(trace, prefix):
        return any(e['ev'] == 'Try' and e.get('res') == 'raise' and not e.get('legit')
                   and e.get('msg', '').startswith(prefix) for e in trace['events'])


# ------------------------------------------------------------------------------
class JsrunAdapter(Adapter):
    '''
    One slot entry is a jsrun resource set.  Whole GPUs: one rank per set.  A
    non-integral gpus_per_rank makes `gcd(ranks, ceil(ranks * gpus_per_rank))` sets
    of several ranks which share the GPUs of their set (all of them marked BUSY);
    cores, lfs and mem of a set are those of its ranks together.

    Shares below one GPU (0.25, 0.5) - judged rank by rank: the projection gives
    every rank of a set its core list and packs the ranks' shares onto the set's
    GPUs first-fit; GPUs of a set left without a share are attached to its first
    rank (then C02.GpusPerRank fails: the set holds more than was asked for).  So
    3 x 0.5 (one set, 3 ranks, 2 GPUs) must come back as 3 ranks.  A set cannot
    span nodes, so SchedOps!Fits (ranks placed one by one) does not describe what
    jsrun can place for such a request: traces with one are judged without the
    quiescence obligations and a failure of it is the class' documented behaviour.

    Non-integral requests above one GPU (1.5, 2.5, 1.25) - no rank by rank reading
    exists (2 ranks x 1.5 = 3 GPUs: the middle one is shared), and the shared shape
    rule follows Continuous ("cannot share GPUs>1").  They are driven as asked for
    (ranks, gpus_per_rank = 1.5 in the task description) and judged set by set: the
    monitor is given the request folded by jsrun's documented rule (as few equal
    sets as divide ranks and ceil(ranks * gpus_per_rank) evenly): `k` "ranks" of
    `n` x cores_per_rank cores, ceil(n x gpus_per_rank) whole GPUs, n x lfs / mem;
    the projection turns every granted set into one such entry.  One GPU per rank
    for a 1.5 GPU request then fails C02.Ranks / CoresPerRank / GpusPerRank, and
    Fits over the folded request is exactly what jsrun can place (quiescence
    obligations asked).  ranks_per_node is not combined with these requests.

    lfs / mem: the ranks of a set hold what each of them asked for (set of n ranks:
    n x mem_per_rank), whatever figure the set carries - the node map must be
    debited with just that, else C01.MapNotMarked / OccMatchesHeld, and
    C01.MemBound / LfsBound / MemOverdraw once a node is over-committed.  A set of
    one rank is that rank: it holds the figure the placement names (C02.LfsMemPerRank
    compares it with the request, as for Continuous).
    '''
    cls = ContinuousJsrun

    @staticmethod
    def _above(lay, sh):
        return sh['gpr'] > lay.su and sh['gpr'] % lay.su != 0

    @staticmethod
    def _fold(lay, sh):
        '''(sets, ranks per set, GPUs per set) of a non-integral request'''
        gp = -((-sh['ranks'] * sh['gpr']) // lay.su)
        k  = math.gcd(sh['ranks'], gp)
        return k, sh['ranks'] // k, gp // k

    def adapt(self, lay, shapes, rng):
        t, m, x = Adapter.adapt(self, lay, shapes, rng)
        for u, sh in t.items():
            if self._above(lay, sh) and sh['ranks'] > 0:
                sh['rpn'] = 0
                k, n, g = self._fold(lay, sh)
                m[u].update(ranks=k, cpr=n * max(sh['cpr'], 1), gpr=g * lay.su,
                            lfs=n * sh['lfs'], mem=n * sh['mem'], rpn=0)
        return t, m, x

    @staticmethod
    def _rs_shape(lay, sh):
        return 0 < sh['gpr'] < lay.su and sh['ranks'] > 1

    def quiet_ok(self, lay, shapes):
        return not any(self._rs_shape(lay, sh) for sh in shapes.values())

    def legit(self, rig, uid, exc):
        return self._rs_shape(rig.lay, rig.shapes[uid])

    def proj_slots(self, rig, uid, slots):
        su  = rig.lay.su
        req = rig.task_shapes.get(uid) or rig.shapes.get(uid) or R.shape()
        gpr = req['gpr']
        out = []
        for rs in slots or []:
            cm = rs['cores']
            if not cm or not isinstance(cm[0], (list, tuple)) or \
                    (cm[0] and not isinstance(cm[0][0], int)):
                return Adapter.proj_slots(self, rig, uid, slots)
            nr   = len(cm)
            gl   = list(rs['gpus'][0]) if rs['gpus'] else []
            left = {g: su for g in gl}
            if nr > 1:
                # what the ranks of the set hold: each of them what it asked for
                lfs, mem = [req['lfs']] * nr, [req['mem']] * nr
            else:
                lfs, mem = [int(rs['lfs'] or 0)], [int(rs['mem'] or 0)]
            if self._above(rig.lay, req):
                # judged set by set: one entry per granted set
                out.append({'node': rig.npos(rs['node_index']), 'cores': [c for row in cm for c in row],
                            'gpus': [[g, su] for g in gl], 'lfs': sum(lfs), 'mem': sum(mem)})
                continue
            ranks = []
            for i in range(nr):
                gp = []
                if gpr >= su or gpr == 0:
                    # whole GPUs: the row of the map which belongs to the rank
                    for g in rs['gpus'][i]:
                        gp.append([g, su])
                        left[g] = 0
                else:
                    need = gpr
                    for g in gl:
                        if left[g] >= need:
                            gp.append([g, need]); left[g] -= need; need = 0
                            break
                    if need:                      # does not pack: the share is split
                        for g in gl:
                            k = min(left[g], need)
                            if k:
                                gp.append([g, k]); left[g] -= k; need -= k
                        if not need:              # the set holds enough, only not GPU-wise
                            rig.unpackable = True
                ranks.append({'node': rig.npos(rs['node_index']), 'cores': list(cm[i]), 'gpus': gp,
                              'lfs': lfs[i], 'mem': mem[i]})
            if ranks:
                for g in gl:
                    if left[g] == su:             # held by the set, asked for by no rank
                        ranks[0]['gpus'].append([g, su])
            out += ranks
        return out

    def classify(self, trace, clause):
        if clause == 'C02.RanksPerNode':
            return '%s: request with ranks_per_node' % self.name
        return Adapter.classify(self, trace, clause)


# ------------------------------------------------------------------------------
class OrderedAdapter(Adapter):
    '''
    Tasks carry tags.order = {ns, order, size}: the tasks of a run form bags 0 and 1
    of one namespace (plus untagged ones).  State notifications of completed tasks
    (the trigger state TMGR_STAGING_OUTPUT_PENDING) are delivered to the real
    _state_cb of the parent part, where the subscriber is registered.  The start
    order is a policy of its own: SchedVariantsTrace notes it (N.*).
    '''
    cls = ContinuousOrdered

    def adapt(self, lay, shapes, rng):
        t, m, x = Adapter.adapt(self, lay, shapes, rng)
        uids = sorted(t)
        rng.shuffle(uids)
        plain = uids[3:] if len(uids) > 3 else []
        bags  = uids[:3]
        cut   = max(1, len(bags) // 2)
        order = {}
        for i, u in enumerate(bags):
            k = 0 if i < cut else 1
            order[u] = {'ns': 'ns1', 'order': k, 'size': cut if k == 0 else len(bags) - cut}
        for u in plain:
            order[u] = {'ns': 'none', 'order': 0, 'size': 0}
        x['order'] = order
        return t, m, x

    def fields(self, rig, uid, sh):
        o = rig.extra['order'][uid]
        if o['ns'] == 'none':
            return {}
        return {'tags': {'order': {'ns': o['ns'], 'order': o['order'], 'size': o['size']}}}


# ------------------------------------------------------------------------------
class ColoAdapter(Adapter):
    '''
    tags.colocate = {bag, size}: two tasks of a run form a bag, the others are
    untagged.  The class replaces schedule_task (the string valued colocate tag of
    Continuous does not exist here: the monitor's colo is "none"), so the closed
    form Fits says nothing about it: no quiescence obligations.
    '''
    cls       = ContinuousColo
    scattered = (True,)
    base_pool = False

    def adapt(self, lay, shapes, rng):
        t, m, x = Adapter.adapt(self, lay, shapes, rng)
        for sh in list(t.values()) + list(m.values()):
            sh['colo'] = 'none'
            sh['excl'] = False
        uids = sorted(t)
        rng.shuffle(uids)
        inbag = [u for u in uids if t[u]['ranks'] > 0][:2]
        x['bag'] = {u: ({'bag': 'b1', 'size': len(inbag)} if u in inbag else {'bag': 'none', 'size': 0})
                    for u in uids}
        return t, m, x

    def fields(self, rig, uid, sh):
        b = rig.extra['bag'][uid]
        if b['bag'] == 'none':
            return {}
        return {'tags': {'colocate': {'bag': b['bag'], 'size': b['size']}}}

    def classify(self, trace, clause):
        if self.raised(trace, 'RuntimeError') and \
                not any(e['ev'] == 'Try' and e.get('res') == 'grant' for e in trace['events']):
            return '%s: schedule_task never returns a placement' % self.name
        return Adapter.classify(self, trace, clause)


# ------------------------------------------------------------------------------
class ReconfigAdapter(Adapter):
    '''
    The parent part's work() overrides ranks / cores_per_rank of arriving tasks from
    a json file (cfg.reconfig_src).  The rig writes that file (temp dir, removed
    after the run); the application asks for `task_shapes`, the scheduler is asked
    for - and the monitor judges - the rewritten request.
    '''
    cls = ContinuousReconfig

    def adapt(self, lay, shapes, rng):
        t, m, x = Adapter.adapt(self, lay, shapes, rng)
        reqs = rng.choice([{}, {'ranks': 1}, {'ranks': 2}, {'cores_per_rank': 1},
                           {'cores_per_rank': 2}, {'ranks': 2, 'cores_per_rank': 1},
                           {'ranks': '1', 'cores_per_rank': '2'}])
        for sh in m.values():
            if 'ranks' in reqs:
                sh['ranks'] = int(reqs['ranks'])
            if 'cores_per_rank' in reqs:
                sh['cpr'] = int(reqs['cores_per_rank'])
        x['reconfig'] = reqs
        return t, m, x

    def post_make(self, rig, c, who):
        c._task_reqs    = {}
        c._reconfig_src = None
        if who == 'parent':
            rig.tmpdir = tempfile.mkdtemp(prefix='rpverif_reconf_')
            c._reconfig_src = os.path.join(rig.tmpdir, 'reconfig.json')
            if rig.extra.get('reconfig'):
                with open(c._reconfig_src, 'w') as fh:
                    json.dump(rig.extra['reconfig'], fh)


# ------------------------------------------------------------------------------
class HombreAdapter(Adapter):
    '''
    Homogeneous bag: the first request defines the chunk, every other request must
    equal it in ranks / cores_per_rank / gpus_per_rank (else ValueError "hetbre":
    documented).  Only CPU-only requests without lfs / mem / ranks_per_node /
    colocate are driven (Hombre reads none of these; with GPUs it adds
    `gpus_per_rank` ranks bound to core 0 on purpose: "oversubscribe").  One task
    of a run keeps a different rank count, to see the refusal.

    Occupancy is Hombre's own: the chunks cut by _delayed_configure minus
    self.free; the node map of the base class is not what Hombre decides on.
    Chunks are static, Fits (free cores anywhere) says nothing: no quiescence
    obligations.
    '''
    cls       = Hombre
    scattered = (True,)
    base_pool = False

    def adapt(self, lay, shapes, rng):
        t, m, x = Adapter.adapt(self, lay, shapes, rng)
        uids = sorted(t)
        ref  = t[uids[0]]
        ranks, cpr = max(ref['ranks'], 1), max(ref['cpr'], 1)
        odd  = uids[-1] if len(uids) > 2 and rng.random() < 0.5 else None
        for d in (t, m):
            for u in uids:
                d[u].update(ranks=ranks + 1 if u == odd else ranks, cpr=cpr, gpr=0, lfs=0,
                            mem=0, rpn=0, colo='none', excl=False, named_env=False)
        return t, m, x

    def post_make(self, rig, c, who):
        c._uniform_wl = True
        if who != 'child':
            return
        rig.h_chunks = None
        real = c._delayed_configure
        def _dc(td):
            was = c._configured
            real(td)
            if not was and c._configured:
                rig.h_chunks = copy.deepcopy(c.free)
                rig.h_first  = {k: td[k] for k in ('ranks', 'cores_per_rank', 'gpus_per_rank')}
        c._delayed_configure = _dc

    @staticmethod
    def _ranks(slots):
        if isinstance(slots, dict):
            return slots.get('ranks', [])
        return None

    def proj_slots(self, rig, uid, slots):
        rk = self._ranks(slots)
        if rk is None:
            return Adapter.proj_slots(self, rig, uid, slots)
        su = rig.lay.su
        return [{'node': rig.npos(r['index']), 'cores': list(r['cores']),
                 'gpus': [[g, su] for g in r['gpus']], 'lfs': 0, 'mem': 0} for r in rk]

    @staticmethod
    def _key(chunk):
        return tuple((r['index'], tuple(r['cores']), tuple(r['gpus'])) for r in chunk['ranks'])

    def proj_nodes(self, rig):
        def g(v):
            return 'D' if v is None else 'F'
        out = [{'cores': [g(v) for v in n['cores']], 'gpus': [g(v) for v in n['gpus']],
                'lfs': int(n['lfs']), 'mem': int(n['mem'])} for n in rig.info.node_list]
        if rig.h_chunks is None:
            return out
        pos  = {n['index']: i for i, n in enumerate(rig.info.node_list)}
        free = [self._key(c) for c in rig.child.free]
        for ch in rig.h_chunks:
            k = self._key(ch)
            if k in free:
                free.remove(k)
                continue
            for r in ch['ranks']:
                for c in r['cores']:
                    out[pos[r['index']]]['cores'][c] = 'B'
                for x in r['gpus']:
                    out[pos[r['index']]]['gpus'][x] = 'B'
        return out

    def legit(self, rig, uid, exc):
        return isinstance(exc, ValueError) and str(exc).startswith('hetbre')

    def classify(self, trace, clause):
        if self.raised(trace, 'AttributeError'):
            return '%s: chunk not understood by the base class _change_slot_states' % self.name
        if self.raised(trace, 'RuntimeError: configuration cannot be used') and \
                trace.get('node_index') != list(range(len(trace.get('node_index') or []))):
            return '%s: node list with index gaps (chunks are cut by list position taken for node index)' % self.name
        return Adapter.classify(self, trace, clause)


# ------------------------------------------------------------------------------
class NoopAdapter(Adapter):
    '''
    No placement, no wait pool, no scheduler loop: the parent part's work() passes
    every task on.  What is left of C01..C04: a task is reported at most once and
    none is left behind.  Driven by NoopRig (below).
    '''
    cls       = Noop
    scattered = (True,)
    base_pool = False
    skip      = {'C04.StartedWithoutPlacement':
                 'Noop never places: tasks are passed on without slots by design'}

    def adapt(self, lay, shapes, rng):
        t, m, x = Adapter.adapt(self, lay, shapes, rng)
        for d in (t, m):
            for sh in d.values():
                sh['named_env'] = False      # never looked at by Noop
        return t, m, x


# ------------------------------------------------------------------------------
class VariantRig(R.SchedRig):

    def __init__(self, adapter, lay, task_shapes, mon_shapes, extra, scattered=True,
                 seed=0, script=None, p_env=0.35, cancelable=None, max_points=4000, dead=()):
        self.adapter     = adapter
        self.extra       = extra
        self.task_shapes = task_shapes
        self.unpackable  = False
        self.tmpdir      = None
        self.dead        = tuple(dead or ())
        # sched_rig builds the node list in __init__ (no parameter for it): swap the builder
        with mock.patch.object(R, 'build_rm_info', lambda l: build_rm_info_gaps(l, self.dead)):
            R.SchedRig.__init__(self, lay, mon_shapes, scattered=scattered, seed=seed,
                                script=script, p_env=p_env, cancelable=cancelable,
                                max_points=max_points, cls=adapter.cls)
        assert len(self.info.node_list) == lay.nn, self.info.node_list
        # the application's requests (the monitor judges self.shapes)
        self.tasks = {uid: self._task(uid, sh) for uid, sh in task_shapes.items()}

    # scripted mode counts only the points which have a counterpart in the design
    # model (same rule as props.sched.ScriptRig)
    def point(self, name):
        if name == 'adv' and self.script is not None:
            return
        return R.SchedRig.point(self, name)

    def _make(self, cls, who):
        c = R.SchedRig._make(self, cls, who)
        self.adapter.post_make(self, c, who)
        return c

    def npos(self, index):
        '''the monitor numbers the nodes 0 .. NNodes-1 by their position in the node list;
           slots name nodes by their 'index' (the two differ once the RM dropped a node).
           An index no node has lies outside the monitor's Node set (C02.NodeExists /
           C01.OnlyNodes).'''
        for i, n in enumerate(self.info.node_list):
            if n['index'] == index:
                return i
        return self.lay.nn + (index if isinstance(index, int) and index >= 0 else 0)

    def _task(self, uid, sh):
        t  = R.SchedRig._task(self, uid, sh)
        if sh.get('excl') and sh['colo'] != 'none':
            # exclusive colocate tag: {'colocate': X, 'exclusive': True}
            tags = dict(t['description'].get('tags') or {})
            tags.setdefault('colocate', sh['colo'])
            tags['exclusive'] = True
            t['description']['tags'] = tags
        ex = self.adapter.fields(self, uid, sh)
        for k, v in ex.items():
            if k == 'tags':
                tags = dict(t['description'].get('tags') or {})
                tags.update(v)
                t['description']['tags'] = tags
            else:
                t['description'][k] = v
        return t

    def proj_slots(self, slots):
        return Raw(slots)

    def proj_nodes(self):
        return self.adapter.proj_nodes(self)

    def log(self, ev, **kw):
        if isinstance(kw.get('slots'), Raw):
            kw['slots'] = self.adapter.proj_slots(self, kw.get('uid'), kw['slots'].raw)
        if ev == 'Try' and kw.get('res') == 'raise':
            # logged from the except clause of the rig's _try_allocation wrapper
            exc = sys.exc_info()[1]
            if exc is not None:
                kw['legit'] = bool(self.adapter.legit(self, kw['uid'], exc))
                kw['msg']   = ('%s: %s' % (type(exc).__name__, exc))[:160]
        R.SchedRig.log(self, ev, **kw)

    def do_complete(self, uid):
        was = uid in self.completed
        R.SchedRig.do_complete(self, uid)
        if not was and uid in self.completed and hasattr(self.parent, '_state_cb'):
            # the state notification ContinuousOrdered subscribes to
            t = copy.deepcopy(self.pushed[uid])
            t['state'] = rps.TMGR_STAGING_OUTPUT_PENDING
            self.parent._state_cb(rpc.STATE_PUBSUB, {'cmd': 'update', 'arg': [t]})

    def run(self):
        try:
            tr = R.SchedRig.run(self)
        finally:
            if self.tmpdir:
                shutil.rmtree(self.tmpdir, ignore_errors=True)
        return tr

    def trace(self):
        tr = R.SchedRig.trace(self)
        # the quiescence obligations (and the priority rule) of the monitor hang on
        # T.scattered: asked for only where Fits describes what the class can place
        tr['scattered'] = bool(self.scattered and self.adapter.quiet_ok(self.lay, self.shapes))
        tr['sched']     = self.adapter.name
        tr['node_index'] = [int(n['index']) for n in self.info.node_list]   # position -> index
        tr['order']     = self.extra.get('order') or \
                          {u: {'ns': 'none', 'order': 0, 'size': 0} for u in self.shapes}
        tr['bag']       = self.extra.get('bag') or \
                          {u: {'bag': 'none', 'size': 0} for u in self.shapes}
        return tr


# ------------------------------------------------------------------------------
class NoopRig(VariantRig):
    '''
    Noop has no loop to put schedule points into: the environment actions of the
    script / the random stream are applied one after the other to the real parent
    part (work_cb -> work, _control_cb, unschedule_cb).  The entry of work() is
    logged as the hand-over of the bulk (QGet), the end of the run as a Sleep
    (not a quiescent one: nothing waits anywhere).  The scheduler process part is
    run, too: it sleeps.
    '''

    def _make(self, cls, who):
        c = VariantRig._make(self, cls, who)
        if who == 'parent':
            rig = self
            real_work = c.work
            def _work(tasks):
                rig.log('QGet', kind='S', uids=[t['uid'] for t in tasks])
                return real_work(tasks)
            c.work = _work
        return c

    def run(self):
        steps = 0
        if self.script is not None:
            acts = [a for _, a in self.script]
            rest = [u for u in sorted(self.shapes)
                    if not any(a[0] == 'arrive' and u in a[1] for a in acts)]
            if rest:
                acts.append(('arrive', rest))
        else:
            acts = None
        fake_time = mock.Mock()
        naps = []
        def _sleep(dt):
            naps.append(dt)
            if len(naps) >= 2:
                raise R.StopLoop()
        fake_time.sleep = _sleep
        with mock.patch.object(noop_mod, 'time', fake_time):
            while steps < 200:
                steps += 1
                if acts is not None:
                    if not acts:
                        break
                    act = acts.pop(0)
                else:
                    en = self.enabled_env()
                    if not en or (len(self.arrived) == len(self.shapes) and self.rng.random() < 0.3):
                        break
                    act = self.rng.choice(en)
                self.do_env(act)
            try:
                self.child._schedule_tasks()
            except R.StopLoop:
                pass
        self.log('Sleep', quiet=False, cancel_drained=False, qu_empty=not self.qU.items)
        return self.trace()


for _a in (Adapter, JsrunAdapter, OrderedAdapter, ColoAdapter, ReconfigAdapter, HombreAdapter):
    _a.rig_class = VariantRig
NoopAdapter.rig_class = NoopRig

ADAPTERS = {a.cls.__name__: a for a in
            (JsrunAdapter(), OrderedAdapter(), ColoAdapter(), ReconfigAdapter(),
             HombreAdapter(), NoopAdapter())}
# the reference binding, for cross-checks of the adapters themselves
REFERENCE = Adapter()


def make_rig(adapter, lay, shapes, rng, **kw):
    '''shapes: what a scenario / random case asks for; returns (rig, input record)'''
    t, m, x = adapter.adapt(lay, copy.deepcopy(shapes), rng)
    rig = adapter.rig_class(adapter, lay, t, m, x, **kw)
    return rig, {'task_shapes': t, 'mon_shapes': m, 'extra': x}


def remake_rig(adapter, lay, rec, **kw):
    return adapter.rig_class(adapter, lay, rec['task_shapes'], rec['mon_shapes'], rec['extra'], **kw)
