'''
Scheduler rig: drives the real AgentSchedulingComponent / Continuous
(parent part + scheduler process part as two objects sharing the two queues)
through environment schedules and records one event per linearization point
for AgentSchedTrace.tla.

No threads: the real `_schedule_tasks` loop runs in the calling thread; every
shared-state access of the loop (queue get, _try_allocation, is_canceled,
advance, unschedule_task, time.sleep) is a *schedule point* at which the rig may
inject environment actions (arrivals through the parent's real work_cb, cancel
requests through the real _control_cb of parent and child, completions through
the real unschedule_cb).  The `_CANCEL` put of the child's control thread is
held back until a later point, so the two steps of a cancel request (cancel
list, queue item) interleave with the loop as they do across threads.
'''

import copy
import queue
import random
import threading as mt

from unittest import mock

from .. import rpshim

rp  = rpshim.load()
ru  = __import__('radical.utils', fromlist=['x'])
rps = rp.states
rpc = rp.constants

from radical.pilot.agent.scheduler import base as sbase
from radical.pilot.agent.scheduler.continuous import Continuous
from radical.pilot.agent.resource_manager.fork import Fork as ForkRM
from radical.pilot.agent.resource_manager.base import RMInfo


class StopLoop(Exception):
    pass


class Layout(object):
    def __init__(self, nn=2, nc=2, ng=1, lfs=2, mem=2, bc=(), bg=(), su=2, agents=0):
        self.nn, self.nc, self.ng, self.lfs, self.mem = nn, nc, ng, lfs, mem
        self.bc, self.bg, self.su, self.agents = tuple(bc), tuple(bg), su, agents

    def key(self):
        return (self.nn, self.nc, self.ng, self.lfs, self.mem, self.bc, self.bg, self.su)

    def cfg_constants(self):
        def s(x):
            return '{' + ', '.join(str(i) for i in x) + '}'
        return ('NNodes = %d\n NCores = %d\n NGpus = %d\n LfsCap = %d\n MemCap = %d\n'
                ' BlockedCores = %s\n BlockedGpus = %s\n SU = %d\n'
                % (self.nn, self.nc, self.ng, self.lfs, self.mem, s(self.bc), s(self.bg), self.su))


def shape(ranks=1, cpr=1, gpr=0, lfs=0, mem=0, rpn=0, prio=0, colo='none',
          named_env=False, supplied=None, excl=False):
    return dict(ranks=ranks, cpr=cpr, gpr=gpr, lfs=lfs, mem=mem, rpn=rpn, prio=prio,
                colo=colo, named_env=named_env, supplied=supplied or [],
                excl=bool(excl and colo != 'none'))


def build_rm_info(lay):
    '''node list through the real Fork RM: blocked cores/gpus -> DOWN, agent
       nodes removed by the real _filter_nodes'''
    # RMInfo's list-valued defaults are shared between instances; production
    # builds one RMInfo per process, the rig builds many: reset them
    for k in ('agent_node_list', 'service_node_list', 'node_list', 'backup_list'):
        if k in RMInfo._defaults and isinstance(RMInfo._defaults[k], list):
            RMInfo._defaults[k] = list()
    rm = ForkRM.__new__(ForkRM)
    rm.name  = 'Fork'
    rm._log  = rpshim.NullLog()
    rm._prof = rpshim.NullLog()
    agents   = {'agent_%d' % (i + 1): {'target': 'node'} for i in range(lay.agents)}
    rm._cfg  = ru.Config(from_dict={
        'backup_nodes': 0, 'nodes': lay.nn + lay.agents, 'cores': 0, 'gpus': 0,
        'cores_per_node': lay.nc, 'gpus_per_node': lay.ng,
        'lfs_size_per_node': lay.lfs, 'lfs_path_per_node': '/tmp',
        'agents': agents})
    rm._rcfg = ru.Config(from_dict={
        'mem_per_node': lay.mem, 'fake_resources': True, 'launch_methods': {},
        'system_architecture': {'blocked_cores': list(lay.bc),
                                'blocked_gpus' : list(lay.bg)}})
    with mock.patch('os.path.isfile', lambda p: False if p == './services' else __import__('os').path.exists(p)):
        info = rm._init_from_scratch()
    return info


class FakeQueue(object):
    '''stands for mp.Queue between parent and scheduler process'''
    def __init__(self, rig, name):
        self.rig, self.name, self.items = rig, name, []

    def put(self, item):
        self.rig.on_put(self.name, item)

    def get(self, timeout=None):
        self.rig.point(self.name + '.get')
        if not self.items:
            self.rig.on_get(self.name, None)
            raise queue.Empty()
        item = self.items.pop(0)
        self.rig.on_get(self.name, item)
        return item


class FakeTerm(object):
    def __init__(self, rig):
        self.rig = rig
    def is_set(self):
        return self.rig.stop
    def set(self):
        self.rig.stop = True


class FakePub(object):
    def __init__(self, rig, who):
        self.rig, self.who = rig, who
    def put(self, topic, msg):
        self.rig.published.append((self.who, topic, copy.deepcopy(msg)))


class FakeOut(object):
    channel = 'agent_executing_queue'
    def __init__(self, rig):
        self.rig = rig
    def put(self, things, qname=None):
        for t in ru.as_list(things):
            self.rig.pushed[t['uid']] = copy.deepcopy(t)


class FakeIn(object):
    def __init__(self):
        self.bulk = []
    def get_nowait(self, qname=None, timeout=None):
        b, self.bulk = self.bulk, []
        return b


class SchedRig(object):

    def __init__(self, lay, shapes, scattered=True, seed=0, script=None,
                 p_env=0.35, cancelable=None, max_points=4000, cls=Continuous):
        '''
        shapes : dict uid -> shape()
        script : None (seeded random environment) or list of (point_no, action)
                 with action = ('arrive', [uids]) | ('cancelp', [uids]) |
                 ('cancelc', [uids]) | ('flush',) | ('complete', uid)
        '''
        self.lay, self.shapes, self.scattered = lay, shapes, scattered
        self.rng        = random.Random(seed)
        self.script     = sorted(script, key=lambda x: x[0]) if script is not None else None
        self.p_env      = p_env
        self.cancelable = list(cancelable if cancelable is not None else shapes.keys())
        self.max_points = max_points

        self.events    = []
        self.published = []
        self.pushed    = {}
        self.stop      = False
        self.npoints   = 0
        self.phase     = 'none'
        self.held_put  = []          # _CANCEL items the control thread has not enqueued yet
        self.in_env    = False
        self.idle_sleeps = 0

        self.arrived   = set()
        self.started   = set()       # pushed to executor, unschedule not yet sent
        self.completed = set()
        self.cancel_p  = set()
        self.cancel_c  = set()
        self.final     = set()
        self.c_items_pending = 0

        self.info  = build_rm_info(lay)
        self.qS    = FakeQueue(self, 'qS')
        self.qU    = FakeQueue(self, 'qU')
        self.child  = self._make(cls, 'child')
        self.parent = self._make(cls, 'parent')
        self.parent_in = FakeIn()
        self.parent._inputs  = {'in': {'qname': None, 'queue': self.parent_in,
                                       'states': [rps.AGENT_SCHEDULING_PENDING]}}
        self.parent._workers = {rps.AGENT_SCHEDULING_PENDING: self.parent.work}
        self.parent._scheduler_process = False
        self.tasks = {uid: self._task(uid, sh) for uid, sh in shapes.items()}

    # --------------------------------------------------------------------------
    def _make(self, cls, who):
        rig = self
        c = cls.__new__(cls)
        c._uid  = 'agent.scheduler.%s' % who
        c._log  = rpshim.NullLog()
        c._prof = rpshim.NullLog()
        c._cfg  = ru.Config(from_dict={})
        sess = mock.Mock()
        sess.rcfg = ru.Config(from_dict={'scattered': self.scattered})
        sess.cfg  = ru.Config(from_dict={'reg_addr': 'none'})
        c._session = sess
        c._rm   = mock.Mock()
        c._rm.info = self.info
        c._partition_ids = []
        c._cancel_lock = mt.RLock()
        c._cancel_list = list()
        c._waitpool   = sbase.defaultdict(dict)
        c._ts_map     = sbase.defaultdict(set)
        c._ts_valid   = False
        c._active_cnt = 0
        c._named_envs = list()
        c._queue_sched   = self.qS
        c._queue_unsched = self.qU
        c._term = FakeTerm(self)
        c.nodes = copy.deepcopy(self.info.node_list)
        c._colo_history = dict()
        c._tagged_nodes = set()
        c._scattered    = None
        c._node_offset  = 0
        c._publishers = {rpc.STATE_PUBSUB: FakePub(self, who)}
        c._outputs    = {rps.AGENT_EXECUTING_PENDING: FakeOut(self)}
        c._subscribers = dict()
        c._inputs = dict()
        c._workers = dict()
        c._scheduler_process = (who == 'child')
        c._raptor_queues = dict()
        c._raptor_tasks  = dict()
        c._raptor_lock   = mt.Lock()
        def _reg_out(states, qname):
            for st in ru.as_list(states):
                c._outputs[st] = FakeOut(rig)
        def _reg_pub(pubsub):
            c._publishers[pubsub] = FakePub(rig, who)
        c.register_output     = _reg_out
        c.register_subscriber = lambda *a, **k: None
        c.register_publisher  = _reg_pub
        c._configure()

        if who == 'child':
            real_try = c._try_allocation
            def _try(task):
                rig.point('try')
                try:
                    res = real_try(task)
                except Exception as e:
                    rig.log('Try', uid=task['uid'], res='raise', phase=rig.phase,
                            exc=type(e).__name__, legit=False, slots=[])
                    raise
                if res:
                    rig.log('Try', uid=task['uid'], res='grant', phase=rig.phase,
                            slots=rig.proj_slots(task['slots']))
                else:
                    rig.log('Try', uid=task['uid'], res='nofit', phase=rig.phase, slots=[])
                return res
            c._try_allocation = _try

            real_wp = c._schedule_waitpool
            def _wp():
                rig.phase = 'wait'
                try:
                    return real_wp()
                finally:
                    rig.phase = 'inc'
            c._schedule_waitpool = _wp

            real_uns = c.unschedule_task
            def _uns(tasks):
                for t in ru.as_list(tasks):
                    real_uns(t)
                    rig.log('Release', uid=t['uid'])
            c.unschedule_task = _uns

            real_isc = c.is_canceled
            def _isc(task):
                rig.point('iscanc')
                return real_isc(task)
            c.is_canceled = _isc

        real_adv = c.advance
        def _adv(things, state=None, publish=True, push=False, **kw):
            tl = ru.as_list(things)
            if who == 'child' and tl:
                rig.point('adv')
            real_adv(things, state, publish=publish, push=push, **kw)
            for t in tl:
                st = t['state']
                if st == rps.AGENT_EXECUTING_PENDING:
                    rig.started.add(t['uid'])
                    rig.log('Adv', uid=t['uid'], state='started', who=who,
                            slots=rig.proj_slots(t.get('slots') or []))
                elif st == rps.FAILED:
                    rig.final.add(t['uid'])
                    rig.log('Adv', uid=t['uid'], state='failed', who=who, slots=[])
                elif st == rps.CANCELED:
                    rig.final.add(t['uid'])
                    rig.log('Adv', uid=t['uid'], state='canceled', who=who, slots=[])
        c.advance = _adv
        return c

    # --------------------------------------------------------------------------
    def _task(self, uid, sh):
        su = self.lay.su
        d = {'uid': uid, 'executable': '/bin/true', 'ranks': sh['ranks'],
             'cores_per_rank': sh['cpr'], 'gpus_per_rank': sh['gpr'] / float(su),
             'lfs_per_rank': sh['lfs'], 'mem_per_rank': sh['mem'],
             'priority': sh['prio']}
        if sh['rpn']:
            d['ranks_per_node'] = sh['rpn']
        if sh['colo'] != 'none':
            d['tags'] = {'colocate': sh['colo']}
            if sh.get('excl'):
                d['tags']['exclusive'] = True
        if sh['named_env']:
            d['named_env'] = 'env_' + uid
        td = rp.TaskDescription(d)
        if sh['ranks'] > 0:
            td.verify()
        dd = td.as_dict()
        dd['ranks'] = sh['ranks']
        if sh['supplied']:
            dd['slots'] = [{'node_name': 'localhost', 'node_index': s['node'],
                            'cores': list(s['cores']),
                            'gpus': [{'index': g, 'occupation': u / float(su)} for g, u in s['gpus']],
                            'lfs': s['lfs'], 'mem': s['mem']} for s in sh['supplied']]
        return {'uid': uid, 'type': 'task', 'state': rps.AGENT_SCHEDULING_PENDING,
                'description': dd}

    # --------------------------------------------------------------------------
    # projections
    def proj_slots(self, slots):
        su  = self.lay.su
        out = []
        for s in slots or []:
            def idx(x):
                if isinstance(x, dict): return x['index']
                if isinstance(x, (list, tuple)): return x[0]
                return x
            def occ(x):
                if isinstance(x, dict): return x['occupation']
                if isinstance(x, (list, tuple)): return x[1]
                return 1.0
            gp = []
            for g in s['gpus']:
                u = occ(g) * su
                assert abs(u - round(u)) < 1e-9, 'gpu share not a whole unit: %r' % (g,)
                gp.append([idx(g), int(round(u))])
            out.append({'node': s['node_index'], 'cores': [idx(c) for c in s['cores']],
                        'gpus': gp, 'lfs': int(s['lfs'] or 0), 'mem': int(s['mem'] or 0)})
        return out

    def proj_nodes(self):
        def g(v):
            if v is None: return 'D'
            if v == rpc.FREE: return 'F'
            if v == rpc.BUSY: return 'B'
            return 'X%s' % v
        return [{'cores': [g(v) for v in n['cores']], 'gpus': [g(v) for v in n['gpus']],
                 'lfs': int(n['lfs']), 'mem': int(n['mem'])} for n in self.child.nodes]

    def proj_pool(self):
        out = []
        for prio in sorted(self.child._waitpool.keys()):
            out += sorted(self.child._waitpool[prio].keys())
        return out

    def log(self, ev, **kw):
        e = {'ev': ev}
        e.update(kw)
        e['nodes']  = self.proj_nodes()
        e['pool']   = self.proj_pool()
        e['active'] = int(self.child._active_cnt)
        e['off']    = int(getattr(self.child, '_node_offset', 0) or 0)
        self.events.append(e)

    # --------------------------------------------------------------------------
    # queue callbacks
    def on_put(self, name, item):
        if name == 'qS':
            data, flag = item
            if flag == self.child._CANCEL:
                # put by the child's control thread: enqueue later
                self.held_put.append(item)
                self.c_items_pending += 1
            else:
                self.qS.items.append((copy.deepcopy(data), flag))
        else:
            self.qU.items.append(copy.deepcopy(item))

    def on_get(self, name, item):
        if name == 'qS':
            if item is None:
                return
            data, flag = item
            if flag == self.child._CANCEL:
                self.c_items_pending -= 1
                self.log('QGet', kind='C', uids=list(data))
            else:
                self.log('QGet', kind='S', uids=[t['uid'] for t in data])
        else:
            if item is not None:
                self.log('QGetU', uids=[t['uid'] for t in ru.as_list(item)])

    # --------------------------------------------------------------------------
    # environment actions (all through real methods)
    def do_arrive(self, uids):
        uids = [u for u in uids if u not in self.arrived]
        if not uids:
            return
        self.arrived.update(uids)
        self.log('Arrive', uids=list(uids))
        self.parent_in.bulk = [copy.deepcopy(self.tasks[u]) for u in uids]
        self.parent.work_cb()

    def do_cancelp(self, uids):
        self.cancel_p.update(uids)
        self.log('CancelReq', uids=list(uids), to='parent')
        self.parent._control_cb(rpc.CONTROL_PUBSUB, {'cmd': 'cancel_tasks', 'arg': {'uids': list(uids)}})

    def do_cancelc(self, uids):
        self.cancel_c.update(uids)
        self.log('CancelReq', uids=list(uids), to='child')
        self.child._control_cb(rpc.CONTROL_PUBSUB, {'cmd': 'cancel_tasks', 'arg': {'uids': list(uids)}})

    def do_flush(self):
        if self.held_put:
            self.qS.items.append(self.held_put.pop(0))

    def do_complete(self, uid):
        if uid in self.started and uid not in self.completed and uid in self.pushed:
            self.completed.add(uid)
            self.log('Complete', uid=uid)
            self.parent.unschedule_cb(rpc.AGENT_UNSCHEDULE_PUBSUB, copy.deepcopy(self.pushed[uid]))

    def do_complete_bulk(self, uids):
        '''one unschedule message carrying several tasks (NOOP collector, intake filter, ...)'''
        uids = [u for u in uids if u in self.started and u not in self.completed and u in self.pushed]
        if not uids:
            return
        for u in uids:
            self.completed.add(u)
            self.log('Complete', uid=u)
        self.parent.unschedule_cb(rpc.AGENT_UNSCHEDULE_PUBSUB,
                                  [copy.deepcopy(self.pushed[u]) for u in uids])

    def do_env(self, act):
        k = act[0]
        if   k == 'arrive'  : self.do_arrive(act[1])
        elif k == 'cancelp' : self.do_cancelp(act[1])
        elif k == 'cancelc' : self.do_cancelc(act[1])
        elif k == 'flush'   : self.do_flush()
        elif k == 'complete': self.do_complete(act[1])
        elif k == 'complete_bulk': self.do_complete_bulk(act[1])
        elif k == 'complete_all':
            for u in sorted(self.started - self.completed):
                self.do_complete(u)
        elif k == 'named_env':
            self.child._control_cb(rpc.CONTROL_PUBSUB, {'cmd': 'register_named_env',
                                                        'arg': {'env_name': act[1]}})

    def enabled_env(self):
        acts = []
        rest = [u for u in self.shapes if u not in self.arrived]
        if rest:
            k = self.rng.randint(1, min(3, len(rest)))
            acts.append(('arrive', self.rng.sample(rest, k)))
        for u in self.cancelable:
            if u not in self.cancel_p:
                acts.append(('cancelp', [u]))
            if u not in self.cancel_c:
                acts.append(('cancelc', [u]))
        if self.held_put:
            acts.append(('flush',))
            acts.append(('flush',))
        run = sorted(u for u in self.started - self.completed if u in self.pushed)
        for u in run:
            acts.append(('complete', u))
        if len(run) >= 2:
            acts.append(('complete_bulk', self.rng.sample(run, self.rng.randint(2, len(run)))))
        return acts

    # --------------------------------------------------------------------------
    def point(self, name):
        if self.in_env:
            return
        self.npoints += 1
        if self.npoints > self.max_points:
            self.stop = True
            raise StopLoop()
        self.in_env = True
        try:
            if self.script is not None:
                while self.script and self.script[0][0] <= self.npoints:
                    self.do_env(self.script.pop(0)[1])
            else:
                while self.rng.random() < self.p_env:
                    acts = self.enabled_env()
                    if not acts:
                        break
                    self.do_env(self.rng.choice(acts))
        finally:
            self.in_env = False

    def sleep(self, dt):
        # the loop found nothing to do in this iteration
        self.point('sleep')
        drained = (not self.held_put and self.c_items_pending == 0
                   and not any(f == self.child._CANCEL for _, f in self.qS.items))
        self.log('Sleep', quiet=True, cancel_drained=bool(drained), qu_empty=not self.qU.items)
        # drive to an end: once the script / random env is exhausted, push
        # remaining obligations (flush, completions) so runs end quiescent
        self.in_env = True
        try:
            pending = bool(self.script) if self.script is not None else False
            if not pending:
                if self.held_put:
                    self.do_flush()
                elif self.script is None and [u for u in self.shapes if u not in self.arrived] \
                        and self.rng.random() < 0.7:
                    rest = [u for u in self.shapes if u not in self.arrived]
                    self.do_arrive(self.rng.sample(rest, self.rng.randint(1, len(rest))))
                elif (self.started - self.completed) and \
                        (self.script is not None or self.rng.random() < 0.8):
                    u = sorted(self.started - self.completed)
                    if self.script is None and len(u) >= 2 and self.rng.random() < 0.3:
                        self.do_complete_bulk(self.rng.sample(u, self.rng.randint(2, len(u))))
                    else:
                        u = u[self.rng.randrange(len(u))]
                        self.do_complete(u)
                else:
                    rest = [u for u in self.shapes if u not in self.arrived]
                    if rest:
                        self.do_arrive(rest)
                    elif not self.qS.items and not self.qU.items:
                        self.idle_sleeps += 1
            else:
                # scripted actions that never became due: apply the next one
                self.do_env(self.script.pop(0)[1])
        finally:
            self.in_env = False
        if self.idle_sleeps >= 2:
            self.stop = True

    # --------------------------------------------------------------------------
    def run(self):
        fake_time = mock.Mock()
        fake_time.sleep = self.sleep
        fake_time.time  = lambda: 0.0
        with mock.patch.object(sbase, 'time', fake_time), \
             mock.patch.object(ru, 'PWatcher', mock.Mock()), \
             mock.patch.object(ru.zmq, 'RegistryClient', mock.Mock()):
            try:
                self.child._schedule_tasks()
            except StopLoop:
                pass
        return self.trace()

    def trace(self):
        shapes, sup = {}, {}
        for u, sh in self.shapes.items():
            s = dict(sh)
            sup[u] = [{'node': x['node'], 'cores': list(x['cores']),
                       'gpus': [list(g) for g in x['gpus']],
                       'lfs': x['lfs'], 'mem': x['mem']} for x in s.pop('supplied')]
            shapes[u] = s
        return {'uids': sorted(self.shapes), 'scattered': bool(self.scattered),
                # non-scattered quiescence obligations are judged by the reference search of
                # SchedOps (ContSearch): only where the class under test is Continuous itself
                'nsq': bool(not self.scattered and type(self.child).__name__ == 'Continuous'),
                'shapes': shapes, 'supplied': sup, 'events': self.events}
