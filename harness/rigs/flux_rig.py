'''
Flux executor rig: the REAL Flux executor (agent/executing/flux.py: initialize,
work, _create_spec, _handle_event_cb, cancel_task, get_task + base.py:
control_cb, handle_timeout, _to_watcher, advance_tasks) wired to the REAL Flux
launch method (agent/launch_method/flux.py: submit_tasks, cancel_task,
_part_thread, _queue_watcher, _job_id_handler, _job_event_handler,
_job_event_cb) under the baton controller.

The flux-framework python bindings are not installed (the `flux` module on this
machine is an unrelated PyPI package), so flux itself is an in-memory stand-in
honouring the interface the code uses:
  ru.FluxService(launcher=)   .start() .ready(timeout=) .r_uri .uid
  ru.FluxHelper(uri=)         .start() .register_cb(cb) .submit(specs) -> ids
                              .cancel(id) .uid ; callbacks cb(flux_id, event)
  event objects               .name .timestamp .context (dict: status / type / severity)
  ru.flux.spec_from_dict(d)   -> object with .attributes['user']['uid']
  multiprocessing queues      put / get(timeout) / empty
Events may reach the out-queue before the job id of their job does (FluxHelperV0
fires event callbacks from the executor thread while submit() still collects ids).

Logical threads:
  intake     : work(bulk) for each accepted bulk
  part<k>    : the real _part_thread loop of partition k.  In production this is a
               forked multiprocessing.Process: it runs on a *snapshot* of the launch
               method and of the executor taken when start_flux() ran (during
               initialize(), before any task arrived).  The rig emulates exactly that:
               the thread runs on shallow copies whose executor has its own, empty
               _tasks; what that copy advances is logged as ChildAdv and never reaches
               the agent.  The queues are shared (they are the process boundary).
  qwatcher   : the real _queue_watcher loop of the launch method (agent process)
  control    : _control_cb(cancel_tasks) -> control_cb -> cancel_task
  timeout    : the real _to_watcher loop (virtual clock)
  flux:<t>   : flux emitting the events of t's job, one per step, following the job
               life cycle of FluxExec.tla (NextFlux)

One event is recorded per linearization point for FluxExecTrace.tla.
'''

import copy
import threading

from collections import defaultdict
from unittest import mock

from .. import rpshim
from .. import sched_ctl as SC

rp  = rpshim.load()
ru  = __import__('radical.utils', fromlist=['x'])
rps = rp.states
rpc = rp.constants

from radical.pilot.agent.executing     import flux as fmod
from radical.pilot.agent.executing     import base as bmod
from radical.pilot.agent.launch_method import flux as lmod

NOEXIT = -99999
NOST   = -1

_INIT_LOCK = threading.Lock()


class _Stop(BaseException):
    '''ends the endless loops of the real code once nothing can happen any more'''


class LaunchError(Exception):
    pass


class Lazy(object):
    '''a gate evaluated when the controller looks: open <=> fn() is true'''
    def __init__(self, fn):
        self.fn = fn
    @property
    def owner(self):
        return None if self.fn() else 'idle'


def kind(name):
    if name.startswith('flux:'):
        return 'flux'
    if name.startswith('part'):
        return 'part'
    return name


# points at which a thread is between two macro steps (see macro_scripted)
BOUNDARY = {'intake'  : {'intake_get'},
            'control' : {'ctrl_recv'},
            'part'    : {'qin_get', 'qout_put'},
            'qwatcher': {'qout_get', 'qw_sleep'},
            'flux'    : {'flux_emit', 'flux_wait'},
            'timeout' : {'clock', 'sleep'}}


class Scenario(object):
    '''
    tasks  : list of dict(uid, status=wait status if nobody kills the process,
                          exc in {none, exec, nonfatal, alloc, timeout},
                          fault in {none, spec, submit}, timeout=0|n virtual seconds)
    bulks  : list of uid lists (intake bulks, in order)
    cancels: list of uid lists (one control message each)
    nparts : number of flux partitions
    extra  : flux also emits the events the executor has no use for (submit, depend,
             priority, free) -- not part of the design model's alphabet
    '''
    def __init__(self, tasks, bulks=None, cancels=(), nparts=1, extra=False):
        self.tasks   = [dict(t) for t in tasks]
        self.bulks   = [list(b) for b in (bulks or [[t['uid']] for t in tasks])]
        self.cancels = [list(c) for c in cancels]
        self.nparts  = nparts
        self.extra   = bool(extra)

    def as_dict(self):
        return {'tasks': self.tasks, 'bulks': self.bulks, 'cancels': self.cancels,
                'nparts': self.nparts, 'extra': self.extra}


class FEvent(object):
    '''stand-in for flux.job.EventLogEvent / JournalEvent'''
    def __init__(self, name, timestamp, context):
        self.name, self.timestamp, self.context = name, timestamp, context

    def __repr__(self):
        return '<%s %s>' % (self.name, self.context)


class FSpec(object):
    '''stand-in for flux.job.JobspecV1'''
    def __init__(self, d):
        self.attributes = {'user': {'uid': d['uid']}, 'system': {'duration': d.get('timeout', 0.0)}}


class FluxRig(object):

    def __init__(self, scn, chooser, max_steps=6000, mutate=None):
        self.scn      = scn
        self.events   = []
        self.ctl      = SC.Controller(chooser, emit=self._ctl_emit, max_steps=max_steps)
        self.now      = 100.0
        self.ops      = defaultdict(int)
        self.spec     = {t['uid']: t for t in scn.tasks}
        self.accepted = []
        self.finished = set()
        self.jobs     = {t['uid']: {'phase': 'none', 'exc': set(), 'can': False, 'fid': None,
                                    'helper': None, 'pre': [], 'freed': False}
                         for t in scn.tasks}
        self.dead_jobs     = set()
        self.died          = {}            # logical thread -> exception which ended it
        self.busy          = set()         # loop threads in the middle of a message
        self.to_registered = set()
        self.to_fired      = set()
        self.skipped       = 0
        self.mutate        = mutate
        self._build()

    # ----------------------------------------------------------------------
    def _ctl_emit(self, who, ev, **kw):
        pass                                   # lock events are not part of the trace

    def emit(self, who, ev, **kw):
        if self.ctl.aborting:
            return
        e = {'who': who or 'setup', 'ev': ev, 'uid': 'none', 'uids': [], 'state': 'none',
             'push': False, 'target': 'none', 'exit': NOEXIT, 'exc': 'no', 'name': 'none',
             'status': NOST, 'type': 'none', 'sev': 0, 'res': False}
        e.update(kw)
        self.events.append(e)

    def point(self, name, wants=None):
        if self.ctl.aborting:
            raise SC.Abort()
        self.ctl.point(name, wants=wants)

    # ----------------------------------------------------------------------
    def quiet(self):
        '''nothing can happen any more (stable): the endless loops may stop'''
        if not ('intake' in self.finished and 'control' in self.finished):
            return False
        if not all(('flux:' + u) in self.finished for u in self.flux_threads):
            return False
        for k in range(self.scn.nparts):
            if ('part%d' % k) in self.died:
                continue                       # nobody reads this queue any more
            if self.q_in[k].items or ('part%d' % k) in self.busy:
                return False
        if 'qwatcher' not in self.died:
            if any(q.items for q in self.q_out) or 'qwatcher' in self.busy:
                return False
        if 'timeout' not in self.died and (self.ex._to_tasks or self.to_pending()):
            return False
        return True

    def to_pending(self):
        return [u for u in self.to_registered if u not in self.to_fired]

    def timeout_has_work(self):
        return bool(self.ex._to_tasks) or bool(self.to_pending()) or self.quiet()

    def stuck(self, uid):
        '''the submit request of uid sits in the queue of a partition process which died'''
        for k in range(self.scn.nparts):
            if ('part%d' % k) in self.died:
                for x in self.q_in[k].items:
                    if x[0] == 'submit' and uid in x[1]:
                        return True
        return 'intake' in self.died and 'intake' in self.finished and \
               self.jobs[uid]['phase'] == 'none' and \
               not any(x[0] == 'submit' and uid in x[1] for q in self.q_in for x in q.items)

    def guard(self, name, fn):
        '''run a logical thread body; an exception ends the thread, as it would in production'''
        try:
            fn()
        except _Stop:
            pass
        except Exception as e:
            self.died[name] = repr(e)
            self.busy.discard(name)
            self.emit(name, 'ThreadDied', name=repr(e)[:200])

    # ----------------------------------------------------------------------
    # flux: the job life cycle of FluxExec.tla (NextFlux)
    def next_flux(self, uid):
        job, sp = self.jobs[uid], self.spec[uid]
        exc     = job['exc']
        killed  = bool(exc & {'fatal', 'cancel'})

        def ev(name, **ctx):
            return FEvent(name, self.now, ctx)

        if job['can'] and 'cancel' not in exc:
            exc.add('cancel')
            return ev('exception', type='cancel', severity=0, note='user cancel')
        ph = job['phase']
        if self.scn.extra and ph == 'sched' and job['pre'] and not killed:
            return ev(job['pre'].pop(0))
        if ph == 'sched':
            if killed:
                job['phase'] = 'clean'
                return ev('clean')
            if sp['exc'] == 'alloc':
                exc.add('fatal')
                return ev('exception', type='alloc', severity=0, note='unsatisfiable')
            job['phase'] = 'alloc'
            return ev('alloc')
        if ph == 'alloc':
            if killed:
                job['phase'] = 'clean'
                return ev('clean')
            job['phase'] = 'run'
            return ev('start')
        if ph == 'run':
            if sp['exc'] == 'nonfatal' and 'nonfatal' not in exc and not killed:
                exc.add('nonfatal')
                return ev('exception', type='exec', severity=3, note='rank 1 is slow')
            if sp['exc'] in ('exec', 'timeout') and not killed:
                exc.add('fatal')
                return ev('exception', type=sp['exc'], severity=0, note='task 0 lost')
            if 'fatal' in exc:
                st = 14 if sp['exc'] == 'timeout' else sp['status']
            elif 'cancel' in exc:
                st = 15
            else:
                st = sp['status']
            job['phase'] = 'fin'
            return ev('finish', status=st)
        if ph == 'fin':
            job['phase'] = 'rel'
            return ev('release', ranks='all', final=True)
        if self.scn.extra and ph == 'rel' and not job['freed']:
            job['freed'] = True
            return ev('free')
        job['phase'] = 'clean'
        return ev('clean')

    # ----------------------------------------------------------------------
    def _build(self):
        rig, ctl, scn = self, self.ctl, self.scn

        class TasksDict(dict):
            '''Flux._tasks of the agent process'''
            def __setitem__(self, k, v):
                if ctl.current():
                    rig.point('tasks_set')
                dict.__setitem__(self, k, v)
                rig.emit(ctl.current(), 'Register', uid=k)

            def get(self, k, d=None):
                if ctl.current():
                    rig.point('tasks_get')
                return dict.get(self, k, d)

        class PartMap(dict):
            '''LM._part_map'''
            def __setitem__(self, k, v):
                if ctl.current():
                    rig.point('partmap_set')
                dict.__setitem__(self, k, v)

            def get(self, k, d=None):
                if ctl.current():
                    rig.point('partmap_get')
                return dict.get(self, k, d)

        class MQ(object):
            '''multiprocessing.Queue between the agent and a partition process'''
            def __init__(self, name):
                self.name, self.items = name, []

            def put(self, x, *a, **kw):
                who = ctl.current()
                if x is True:                 # start-up handshake: start_flux() consumed it
                    return
                if who and kind(who) != 'flux':
                    rig.point(self.name + '_put')
                self.items.append(x)
                if self.name == 'qout' and x[0] == 'job_id':
                    rig.ops[who] += 1
                    rig.emit(who, 'JobId', uid=x[1][0])
                elif self.name == 'qin' and x[0] == 'cancel':
                    rig.emit(who, 'CancelReq', uid=x[1])
                elif self.name == 'qin':
                    rig.emit(who, 'SubmitReq', uids=list(x[1].keys()))

            def empty(self):
                return not self.items

            def get(self, *a, **kw):
                who = ctl.current()
                rig.busy.discard(who)
                rig.point(self.name + '_get', wants=Lazy(lambda: bool(self.items) or rig.quiet()))
                if not self.items:
                    raise _Stop()
                x = self.items.pop(0)
                rig.busy.add(who)
                rig.ops[who] += 1
                return x

        class Helper(object):
            '''ru.FluxHelper stand-in (one per partition)'''
            def __init__(self, uri=None, log=None):
                self.uid, self.uri, self.cbacks, self.n = 'ru.flux.%s' % uri, uri, [], 0

            def start(self, launcher=None):
                pass

            def register_cb(self, cb):
                self.cbacks.append(cb)

            def submit(self, specs):
                who  = ctl.current()
                uids = [s.attributes['user']['uid'] for s in specs]
                if any(rig.spec[u]['fault'] == 'submit' for u in uids):
                    rig.dead_jobs.update(uids)
                    rig.emit(who, 'SubmitFail', uids=uids)
                    raise RuntimeError('flux submit failed')
                fids = []
                for u in uids:
                    self.n += 1
                    fid = 'f%s.%d' % (self.uri, self.n)
                    job = rig.jobs[u]
                    job.update({'phase': 'sched', 'fid': fid, 'helper': self,
                                'pre': ['submit', 'depend', 'priority']})
                    fids.append(fid)
                rig.emit(who, 'Submit', uids=uids)
                return fids

            def cancel(self, tid):
                # the launch method hands over the task uid
                job  = rig.jobs.get(tid)
                live = bool(job) and job['phase'] not in ('none', 'clean')
                if live:
                    job['can'] = True
                rig.emit(ctl.current(), 'PartCancel', uid=tid, res=live)

        class Service(object):
            def __init__(self, launcher=None):
                self.uid, self.n = 'flux.service', 0
            def start(self):
                pass
            def ready(self, timeout=None):
                return True
            @property
            def r_uri(self):
                return str(len(rig.helpers))

        class FluxShim(object):
            @staticmethod
            def spec_from_dict(d):
                return FSpec(d)

        class RuExec(object):
            '''radical.utils as seen by executing/flux.py'''
            flux = FluxShim()
            def __getattr__(self, k):
                return getattr(ru, k)

        def new_helper(uri=None, log=None):
            h = Helper(uri=uri, log=log)
            rig.helpers.append(h)
            return h

        class RuLM(object):
            '''radical.utils as seen by launch_method/flux.py'''
            FluxService = Service
            FluxHelper  = staticmethod(new_helper)
            @staticmethod
            def which(x):
                return None
            def __getattr__(self, k):
                return getattr(ru, k)

        self.RuExec, self.RuLM = RuExec, RuLM
        self.helpers = []

        class Term(object):
            def is_set(self):
                return rig.quiet() if ctl.current() == 'timeout' else False

        class Pub(object):
            def put(self, topic, msg):
                pass

        class Out(object):
            channel = 'agent_staging_output_queue'
            def put(self, things, qname=None):
                pass

        self.q_in  = [MQ('qin')  for _ in range(scn.nparts)]
        self.q_out = [MQ('qout') for _ in range(scn.nparts)]

        # ---- launch method (agent process side) ---------------------------------
        rm_info = ru.Config(from_dict={'n_partitions': scn.nparts, 'cores_per_node': 4,
                                       'gpus_per_node': 0,
                                       'node_list': [{'name': 'n%d' % i, 'index': i}
                                                     for i in range(scn.nparts)]})
        lm = lmod.Flux.__new__(lmod.Flux)
        lm.name         = 'FLUX'
        lm._log         = rpshim.NullLog()
        lm._prof        = rpshim.NullLog()
        lm._rm_info     = rm_info
        lm._partitions  = list()
        lm._idmap       = dict()
        lm._part_map    = PartMap()
        lm._events      = defaultdict(list)
        lm._events_lock = SC.CLock(ctl, 'events')
        lm._in_queues   = list(self.q_in)
        lm._out_queues  = list(self.q_out)
        lm.start_flux   = lambda event_cb: setattr(lm, '_event_cb', event_cb)
        self.lm = lm

        # ---- executor: real initialize() on top of stand-in collaborators ----------
        ex = fmod.Flux.__new__(fmod.Flux)
        self.ex = ex
        ex._uid  = 'agent.executing.0'
        ex._log  = rpshim.NullLog()
        ex._prof = rpshim.NullLog()
        ex._cfg  = ru.Config(from_dict={})
        sess = mock.Mock()
        sess.rcfg = ru.Config(from_dict={'launch_methods': {'FLUX': {}}})
        sess.cfg  = ru.Config(from_dict={'pid': 'pilot.0000', 'reg_addr': 'tcp://nowhere'})
        ex._session = sess
        rm = mock.Mock()
        rm.info = rm_info
        ex._rm   = rm
        ex._term = Term()
        ex._cancel_lock = SC.CLock(ctl, 'cancel', reentrant=True)
        ex._cancel_list = list()
        ex._to_tasks    = list()
        ex._to_lock     = SC.CLock(ctl, 'to')
        ex._publishers  = {rpc.STATE_PUBSUB: Pub(), rpc.AGENT_UNSCHEDULE_PUBSUB: Pub()}
        ex._outputs     = {rps.AGENT_STAGING_OUTPUT_PENDING: Out()}
        ex._inputs      = dict()
        ex._workers     = dict()

        class LMFactory(object):
            @staticmethod
            def create(name, lm_cfg, rm_info, log, prof):
                assert name == 'FLUX'
                return lm

        with _INIT_LOCK, \
             mock.patch.object(bmod.AgentExecutingComponent, 'initialize', lambda s: None), \
             mock.patch.object(fmod, 'LaunchMethod', LMFactory):
            ex.initialize()
        assert lm._event_cb is not None
        ex._tasks = TasksDict()

        def _scripts_exec(launcher, task):
            if rig.spec[task['uid']]['fault'] == 'spec':
                raise LaunchError('exec script / job spec creation failed')
            return '$RP_TASK_SANDBOX/%s.exec.sh' % task['uid'], '/sbox/%s.exec.sh' % task['uid']
        ex._create_exec_script = _scripts_exec

        def mk_publish(obj, child):
            real = obj.publish
            def _publish(pubsub, msg, topic=None):
                if not child:
                    real(pubsub, msg, topic)
                if pubsub == rpc.AGENT_UNSCHEDULE_PUBSUB and ru.as_list(msg):
                    rig.emit(ctl.current(), 'ChildPub' if child else 'PubUnsched',
                             uids=[t['uid'] for t in ru.as_list(msg)])
            return _publish

        def mk_advance(obj, child):
            real = obj.advance
            def _adv(things, state=None, publish=True, push=False, **kw):
                tl = ru.as_list(things)
                if ctl.current() and not child:
                    rig.point('advance')
                real(things, state, publish=publish, push=push, **kw)
                for t in tl:
                    xc = t.get('exit_code')
                    rig.emit(ctl.current(), 'ChildAdv' if child else 'Adv', uid=t['uid'],
                             state=t['state'], push=bool(push),
                             target=str(t.get('target_state') or 'none'),
                             exit=NOEXIT if xc is None else int(xc),
                             exc='yes' if t.get('exception') else 'no')
            return _adv

        ex.publish = mk_publish(ex, False)
        ex.advance = mk_advance(ex, False)

        real_ht = ex.handle_timeout
        def _ht(task):
            real_ht(task)
            if task is not None and rig.spec[task['uid']].get('timeout'):
                rig.to_registered.add(task['uid'])
                rig.emit(ctl.current(), 'RegTimeout', uid=task['uid'])
        ex.handle_timeout = _ht

        real_cancel = ex.cancel_task
        def _cancel(task):
            if ctl.current() == 'timeout':
                rig.ops['timeout'] += 1
                rig.emit('timeout', 'TimeoutFire', uid=task['uid'])
                try:
                    return real_cancel(task)
                finally:
                    rig.to_fired.add(task['uid'])      # only now the limit is dealt with
            return real_cancel(task)
        ex.cancel_task = _cancel

        def mk_event_cb(real, child):
            def _cb(task_id, event):
                try:
                    ctx = event.context or {}
                except (KeyError, AttributeError):
                    ctx = {}
                rig.emit(ctl.current(), 'ChildHandle' if child else 'Handle', uid=task_id,
                         name=event.name, status=int(ctx.get('status', NOST)),
                         type=str(ctx.get('type', 'none')), sev=int(ctx.get('severity', 0)))
                return real(task_id, event)
            return _cb

        if self.mutate:
            self.mutate(self)
        lm._event_cb = mk_event_cb(lm._event_cb, False)

        # ---- the forked partition processes: snapshots taken at start_flux() time -----
        ex_child = copy.copy(ex)
        ex_child._tasks  = dict()
        ex_child.handle_timeout = lambda task: None
        ex_child.publish = mk_publish(ex_child, True)
        ex_child.advance = mk_advance(_ChildSink(), True)
        lm_child = copy.copy(lm)
        lm_child._event_cb = mk_event_cb(type(ex)._handle_event_cb.__get__(ex_child), True)
        self.ex_child, self.lm_child = ex_child, lm_child

        # ---- tasks --------------------------------------------------------------------
        self.tasks = {}
        for t in scn.tasks:
            d = {'uid': t['uid'], 'executable': '/bin/true'}
            if t.get('timeout'):
                d['timeout'] = float(t['timeout'])
            td = rp.TaskDescription(d)
            td.verify()
            self.tasks[t['uid']] = {'uid': t['uid'], 'type': 'task',
                                    'state': rps.AGENT_EXECUTING_PENDING, 'origin': 'client',
                                    'description': td.as_dict(),
                                    'task_sandbox_path': '/sbox/' + t['uid'], 'slots': {}}
        # jobs flux will ever see: no spec fault (a failing submit is found out at run time)
        self.flux_threads = [t['uid'] for t in scn.tasks if t['fault'] != 'spec']

    # ----------------------------------------------------------------------
    def run(self):
        rig, ex, lm, ctl = self, self.ex, self.lm, self.ctl

        class LTime(object):
            '''time module seen by launch_method/flux.py'''
            @staticmethod
            def sleep(d):
                if ctl.current() == 'qwatcher':
                    rig.busy.discard('qwatcher')
                    rig.point('qw_sleep', wants=Lazy(lambda: any(q.items for q in rig.q_out) or rig.quiet()))
                    if not any(q.items for q in rig.q_out):
                        raise _Stop()
            @staticmethod
            def time():
                return rig.now

        class BTime(object):
            '''time module seen by executing/base.py (timeouts, virtual clock)'''
            @staticmethod
            def sleep(d):
                rig.point('sleep', wants=Lazy(rig.timeout_has_work))
                rig.now += d
            @staticmethod
            def time():
                if ctl.current() == 'timeout':
                    rig.point('clock', wants=Lazy(rig.timeout_has_work))
                    rig.now += 1000.0          # whenever it looks, the limit has passed
                return rig.now

        def intake():
            def body():
                for bulk in rig.scn.bulks:
                    rig.point('intake_get')
                    rig.ops['intake'] += 1
                    tasks = [rig.tasks[u] for u in bulk]
                    rig.accepted.extend(bulk)
                    for u in bulk:
                        rig.emit('intake', 'Accept', uid=u)
                    ex.work(tasks)
            try:
                rig.guard('intake', body)
            finally:
                rig.finished.add('intake')

        def control():
            def body():
                for uids in rig.scn.cancels:
                    rig.point('ctrl_recv')
                    rig.ops['control'] += 1
                    rig.emit('control', 'CancelMsg', uids=list(uids))
                    ex._control_cb(rpc.CONTROL_PUBSUB,
                                   {'cmd': 'cancel_tasks', 'arg': {'uids': list(uids)}})
            try:
                rig.guard('control', body)
            finally:
                rig.finished.add('control')

        def mk_part(k):
            def body():
                nodes = [lm._rm_info.node_list[k]]
                rig.guard('part%d' % k,
                          lambda: rig.lm_child._part_thread(k, nodes, rig.q_in[k], rig.q_out[k]))
            return body

        def qwatcher():
            rig.guard('qwatcher', lm._queue_watcher)

        def timeout():
            rig.guard('timeout', ex._to_watcher)

        def mk_flux(uid):
            me = 'flux:' + uid
            def body():
                job = rig.jobs[uid]
                rig.point('flux_wait', wants=Lazy(lambda: job['phase'] != 'none' or uid in rig.dead_jobs
                                                            or rig.stuck(uid)))
                while job['phase'] not in ('none', 'clean'):
                    rig.point('flux_emit')
                    ev = rig.next_flux(uid)
                    rig.ops[me] += 1
                    rig.emit(me, 'FluxEv', uid=uid, name=ev.name,
                             status=int(ev.context.get('status', NOST)),
                             type=str(ev.context.get('type', 'none')),
                             sev=int(ev.context.get('severity', 0)))
                    for cb in job['helper'].cbacks:
                        cb(job['fid'], ev)
                rig.finished.add(me)
            return body

        ctl.spawn('intake', intake)
        for k in range(self.scn.nparts):
            ctl.spawn('part%d' % k, mk_part(k))
        ctl.spawn('qwatcher', qwatcher)
        if self.scn.cancels:
            ctl.spawn('control', control)
        else:
            self.finished.add('control')
        if any(t.get('timeout') for t in self.scn.tasks):
            ctl.spawn('timeout', timeout)
        for u in self.flux_threads:
            ctl.spawn('flux:' + u, mk_flux(u))

        err = None
        with mock.patch.object(lmod, 'time', LTime), \
             mock.patch.object(lmod, 'ru', self.RuLM()), \
             mock.patch.object(fmod, 'ru', self.RuExec()), \
             mock.patch.object(bmod, 'time', BTime):
            try:
                ctl.run()
            except SC.Deadlock as e:
                err = 'deadlock: %s' % str(e)[:300]
                ctl.abort()
            except Exception as e:              # an exception escaped a logical thread
                err = 'exception: %r' % e
                ctl.abort()
        self.ctl.aborting = False
        self.emit('rig', 'End', res=bool(self.quiet()), name=err or 'none',
                  uids=list(self.accepted))
        self.ctl.aborting = True
        return self.trace()

    # ----------------------------------------------------------------------
    def trace(self):
        return {'uids': [t['uid'] for t in self.scn.tasks],
                'spec': {t['uid']: {'status': int(t['status']), 'exc': t['exc'], 'fault': t['fault'],
                                    'timeout': int(t.get('timeout') or 0)} for t in self.scn.tasks},
                'events': self.events,
                'schedule': [c for _, c in self.ctl.choices],
                'skipped': self.skipped}


class _ChildSink(object):
    '''what an advance inside the forked partition process amounts to for the agent: nothing'''
    def advance(self, things, state=None, publish=True, push=False, **kw):
        for t in ru.as_list(things):
            if state:
                t['state'] = state


# ------------------------------------------------------------------------------
# choosers
def macro_scripted(rig_ref, script):
    '''
    follow a list of thread names, one *macro step* each: the named thread keeps the
    baton until it has done one operation of the design model (taken a bulk / a
    message, put a job id, emitted an event, fired a limit) and is parked between two
    such operations.  Names that cannot run are skipped; after the script the
    remaining work is done in thread order, macro step by macro step.
    '''
    it = list(script)
    st = {'cur': None, 'c0': 0}

    def ch(en, ctl):
        rig = rig_ref[0]
        cur = st['cur']
        if cur is not None and cur in en:
            lt = ctl.threads[cur]
            if not (rig.ops[cur] > st['c0'] and lt.at in BOUNDARY[kind(cur)]):
                return cur
        st['cur'] = None
        while it:
            n = it.pop(0)
            if n in en:
                st['cur'], st['c0'] = n, rig.ops[n]
                return n
            rig.skipped += 1
        n = en[0]
        st['cur'], st['c0'] = n, rig.ops[n]
        return n
    return ch


def make(scn, mode, arg, mutate=None):
    '''mode: 'macro' (arg = thread names), 'script' (fine-grained), 'random' (arg = rng)'''
    ref = [None]
    if mode == 'macro':
        ch = macro_scripted(ref, arg)
    elif mode == 'script':
        ch = SC.scripted(arg)
    elif mode == 'random':
        ch = SC.randomised(arg)
    else:
        ch = arg
    rig = FluxRig(scn, ch, mutate=mutate)
    ref[0] = rig
    return rig


def random_scenario(rng):
    n = rng.choice([1, 2, 2, 3, 3, 4])
    tasks = []
    for i in range(n):
        exc = rng.choice(['none'] * 5 + ['exec', 'nonfatal', 'alloc', 'timeout'])
        st  = rng.choice([0, 0, 0, 256, 512, 9, 15, 139, 65280])
        if exc == 'exec' and st == 0:
            st = 256
        tasks.append({'uid': 't%d' % (i + 1), 'status': st, 'exc': exc,
                      'fault': rng.choice(['none'] * 8 + ['spec', 'submit']),
                      'timeout': 5 if (exc == 'timeout' or rng.random() < 0.15) else 0})
    uids, bulks = [t['uid'] for t in tasks], []
    while uids:
        k = rng.randint(1, len(uids))
        bulks.append(uids[:k])
        uids = uids[k:]
    cancels = []
    for _ in range(rng.choice([0, 1, 1, 2])):
        cancels.append(rng.sample([t['uid'] for t in tasks], rng.randint(1, min(2, n))))
    return Scenario(tasks, bulks, cancels, nparts=rng.choice([1, 1, 2]), extra=rng.random() < 0.5)
