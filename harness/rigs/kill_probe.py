'''
Kill probe (C08, executor side): the REAL LaunchMethod.cancel_task against real
processes.  Runs as a child process in its own session (a wrong kill can take
the whole process group down), spawns a few `sleep` processes the way
Popen._launch_task does (start_new_session = rcfg.new_session_per_task), cancels
one of them through the real cancel_task and reports who died.

usage: python kill_probe.py <new_session 0|1> <n_procs> [gone]
       gone: the named process has ended and was reaped (the watcher polled it) before
             cancel_task is called - the call has to return normally, nobody else dies
prints one JSON line: {"events": [...]} in the ExecutorTrace event format
'''

import os
import sys
import json
import time
import signal
import subprocess as sp


def main():
    ns = bool(int(sys.argv[1]))
    n  = int(sys.argv[2])
    gone = len(sys.argv) > 3 and sys.argv[3] == 'gone'
    here = os.path.dirname(os.path.dirname(os.path.dirname(os.path.abspath(__file__))))
    sys.path.insert(0, here)
    from harness import rpshim
    rpshim.load()
    from radical.pilot.agent.launch_method.fork import Fork

    lm = Fork.__new__(Fork)
    lm._log = rpshim.NullLog()
    uids  = ['t%d' % (i + 1) for i in range(n)]
    procs = {}
    events = []
    for u in uids:
        cmd = ['true'] if (gone and u == uids[0]) else ['sleep', '30']
        procs[u] = sp.Popen(cmd, stdin=None, stdout=sp.DEVNULL, stderr=sp.STDOUT,
                            start_new_session=ns, close_fds=True)
        events.append({'who': 'intake', 'ev': 'Accept', 'uid': u})
        events.append({'who': 'intake', 'ev': 'Spawn',  'uid': u})
    events.append({'who': 'control', 'ev': 'CancelMsg', 'uid': 'none', 'uids': [uids[0]]})
    events.append({'who': 'control', 'ev': 'KillProbe', 'uid': uids[0]})
    raised = 'none'
    if gone:
        procs[uids[0]].wait()                                     # ended and reaped: the pid is free
    try:
        lm.cancel_task({'uid': uids[0]}, procs[uids[0]].pid)      # the real one
    except Exception as e:
        raised = type(e).__name__
    time.sleep(0.3)
    died = {}
    for u in uids:
        rc = procs[u].poll()
        if rc is not None:
            died[u] = rc
            events.append({'who': 'proc:' + u, 'ev': 'ProbeExit', 'uid': u, 'code': str(rc)})
    events.append({'who': 'rig', 'ev': 'ProbeEnd', 'uid': 'none', 'target': uids[0],
                   'dead': sorted(died), 'new_session': ns, 'gone': gone, 'raised': raised})
    for u in uids:
        if procs[u].poll() is None:
            procs[u].kill()
            procs[u].wait()
    print(json.dumps({'events': events, 'uids': uids, 'new_session': ns}))


if __name__ == '__main__':
    # we may be the victim of a wrong group kill: report that, too
    def _term(sig, frame):
        print(json.dumps({'events': [{'who': 'rig', 'ev': 'ProbeEnd', 'uid': 'none', 'target': 'none',
                                      'dead': ['<agent>'], 'new_session': bool(int(sys.argv[1])),
                                      'gone': False, 'raised': 'none'}],
                          'uids': [], 'agent_killed': True}))
        sys.stdout.flush()
        os._exit(3)
    signal.signal(signal.SIGTERM, _term)
    main()
