'''
Descr rig (C19): every input enumerated by TLC from spec/Descr/Descr.tla is
pushed through the REAL radical.pilot code and one event per call is recorded
for the monitor spec/Descr/DescrTrace.tla.

  td    : TaskDescription(from_dict) / as_dict() / verify()
  pd    : PilotDescription(from_dict) / as_dict() / verify()
  slots : Slot(...), convert_slots_to_new, convert_slots_to_old
  func  : PythonTask(...) / pythontask(f)(...) / PythonTask.get_func_attr,
          the decoded call, and the real raptor Worker._dispatch_func
  tdseq : ONE TaskDescription object: verify() / rp.Task(...) interleaved with
          changes through attributes, items, update() and in-place mutation
  hand  : the real raptor Master.submit_workers / submit_tasks on a master
          built with __new__ and a recording registry / publish / advance /
          request queue: every copy of the description that leaves the master
  xfunc : payloads encoded by a real __main__ script (this module run with
          `python -m`, so that its classes and functions are those of the
          application script) and decoded + called in a fresh interpreter
  fseq  : several short-lived callables (partials, lambdas, closures made in
          a loop) encoded one after the other, each dropped before the next
          one is made; all decoded and called afterwards

The rig holds no logic of the code under test: it builds the input, calls, and
projects the result onto the value encoding of DescrOps.tla (integers, -1 for
None; strings, "none" for None; occupation in quarters).  Descriptions are
logged as the set of attributes that changed relative to the value before the
call.  Deterministic; no clock, no network, no sub-processes.
'''

import os
import sys
import copy
import json
import shutil
import asyncio
import tempfile
import functools
import importlib
import subprocess

from unittest import mock

from .. import rpshim

rp = rpshim.load()
ru = __import__('radical.utils', fromlist=['x'])

from radical.pilot.resource_config import Slot, RO
from radical.pilot.utils.misc      import convert_slots_to_new, convert_slots_to_old
from radical.pilot.raptor.worker   import Worker

TD = rp.TaskDescription
PD = rp.PilotDescription


# ------------------------------------------------------------------------------
# value encoding
#
TD_ATTRS = ['mode', 'executable', 'function', 'code', 'command', 'named_env', 'use_mpi',
            'cpu_processes', 'ranks', 'cpu_threads', 'cores_per_rank',
            'cpu_thread_type', 'threading_type', 'gpu_processes', 'gpus_per_rank',
            'gpu_process_type', 'gpu_type', 'lfs_per_process', 'lfs_per_rank',
            'mem_per_process', 'mem_per_rank', 'scheduler', 'raptor_id',
            'worker_file', 'raptor_file', 'worker_class', 'raptor_class',
            'cpu_process_type', 'gpu_threads', 'gpu_thread_type']
PD_ATTRS = ['resource', 'nodes', 'cores', 'gpus', 'backup_nodes']


def _is_num(cls, a):
    return cls._schema.get(a) in (int, float)


def enc(cls, a, v):
    if a == 'use_mpi':
        return {None: 'none', True: 'true', False: 'false'}.get(v, 'bad') \
               if isinstance(v, (bool, type(None))) else 'bad'
    if _is_num(cls, a):
        if v is None:
            return -1
        if isinstance(v, bool):
            return -2
        if isinstance(v, int):
            return v if abs(v) < 2 ** 30 else -2
        if isinstance(v, float) and v.is_integer():
            return int(v)
        return -2
    if v is None:
        return 'none'
    if isinstance(v, str):
        return v
    return 'bad:%s' % type(v).__name__


def dec(cls, a, v):
    if a == 'use_mpi':
        return {'none': None, 'true': True, 'false': False}[v]
    if _is_num(cls, a):
        return None if v == -1 else v
    return None if v == 'none' else v


def defaults(cls, attrs):
    d = {a: enc(cls, a, cls._defaults.get(a)) for a in attrs}
    d['extra'] = 0
    if cls is TD:
        d['loose'] = 0
    return d


# `loose`: values which do not have their schema type (yet)
def loose_of(data):
    a, e, t = data.get('arguments'), data.get('environment'), data.get('timeout')
    ok = all(isinstance(x, str) for x in (a or [])) \
         and all(isinstance(v, str) for v in (e or {}).values()) \
         and (t is None or isinstance(t, float))
    return 0 if ok else 1


def canon(rest):
    '''the rest of a description with those values in their schema type'''
    r = dict(rest)
    if isinstance(r.get('arguments'), list):
        r['arguments'] = [str(x) for x in r['arguments']]
    if isinstance(r.get('environment'), dict):
        r['environment'] = {k: str(v) for k, v in r['environment'].items()}
    if isinstance(r.get('timeout'), (int, str)) and not isinstance(r.get('timeout'), bool):
        try:
            r['timeout'] = float(r['timeout'])
        except ValueError:
            pass
    return r


def diff(before, after):
    return {a: after[a] for a in after if after[a] != before.get(a)}


def is_plain(x):
    '''a plain dictionary: no TypedDict instance anywhere inside'''
    if isinstance(x, ru.TypedDict):
        return False
    if type(x) is dict:
        return all(is_plain(v) for v in x.values())
    if isinstance(x, (list, tuple)):
        return all(is_plain(v) for v in x)
    return True


# attributes _verify does not read, filled in per `extra` variant
def td_payload(x):
    if x == 1:
        # everything at once
        d = dict(td_payload(2))
        d.update(_td_payload_1())
        return d
    if x == 2:
        return _td_payload_2()
    return {}


def _td_payload_1():
    return {'uid': 'task.000001', 'name': 'nm', 'arguments': ['-a', 'b c'],
            'environment': {'K': 'v', 'EMPTY': ''}, 'sandbox': 'sb',
            'pre_exec': ['echo pre', 'export X=1'], 'post_exec': ['echo post'],
            'pre_launch': ['pl'], 'stdout': 'o.txt', 'stderr': 'e.txt',
            'priority': 1, 'ranks_per_node': 1, 'timeout': 5.0,
            'restartable': True, 'tags': {'colocate': 'x', 'exclusive': True},
            'metadata': {'m': [1, 2], 'n': {'deep': 'er'}},
            'input_staging': [{'source': 'a', 'target': 'b', 'action': 'Copy'}],
            'output_staging': ['o.txt > client:///o.txt'],
            'stage_on_error': True}


def _td_payload_2():
    return {'slots': [Slot(cores=[0, 1], gpus=[0], lfs=1, mem=2, node_index=0,
                           node_name='n0'),
                      Slot(cores=[{'index': 2, 'occupation': 0.5}], node_index=1,
                           node_name='n1')],
            'services': ['svc.0', 'svc.1'], 'args': [1, [2, 'x']],
            'kwargs': {'k': {'x': 1}}, 'partition': 1, 'info_pattern': 'stdout:ready',
            'startup_timeout': 1.5, 'cleanup': True, 'pilot': 'pilot.0000',
            'post_exec': [{'0': 'echo rank0'}], 'pre_exec_sync': True}


def pd_payload(x):
    if x == 1:
        svc = TD({'executable': 'svc', 'arguments': ['1']})
        svc.verify()
        return {'uid': 'pilot.0000', 'runtime': 30, 'queue': 'q', 'project': 'p',
                'app_comm': ['a', 'b'], 'memory': 10, 'access_schema': 'local',
                'prepare_env': {'e': {'type': 'venv', 'setup': ['numpy']}},
                'input_staging': ['f.dat'], 'job_name': 'jn', 'cleanup': True,
                'services': [svc], 'sandbox': '/tmp/x', 'exit_on_error': False}
    return {}


# ------------------------------------------------------------------------------
class _DescrCase(object):
    '''one description object under observation'''

    def __init__(self, cls, attrs, payload, inp):
        self.cls, self.attrs = cls, attrs
        self.req = defaults(cls, attrs)
        self.req.update(inp)
        self.x = self.req['extra']
        fd = {a: dec(cls, a, v) for a, v in inp.items() if a not in ('extra', 'loose')}
        pl = payload(self.x)
        for k, v in pl.items():
            fd.setdefault(k, v)
        self.obj = cls(from_dict=fd)
        self.ignore = ()
        # what the rest of the description must stay equal to
        self.rest0 = self.rest(self.obj)

    def rest(self, obj):
        d = obj.as_dict() if isinstance(obj, ru.TypedDict) else ru.as_dict(obj)
        return canon({k: v for k, v in d.items()
                           if k not in self.attrs and k not in self.ignore})

    def proj(self, obj):
        data = obj._data if isinstance(obj, ru.TypedDict) else obj
        p = {a: enc(self.cls, a, data[a]) if a in data else
                (-3 if _is_num(self.cls, a) else 'missing') for a in self.attrs}
        p['extra'] = self.x if self.rest(obj) == self.rest0 else -2
        if self.cls is TD:
            p['loose'] = loose_of(data)
        return p

    def events(self):
        evs = []
        cur = self.proj(self.obj)
        evs.append({'ev': 'Create', 'out': diff(self.req, cur)})

        def roundtrip():
            d1 = self.obj.as_dict()
            o2 = self.cls(from_dict=copy.deepcopy(d1))
            evs.append({'ev': 'RoundTrip', 'out': diff(cur, self.proj(o2)),
                        'plain': bool(is_plain(d1) and o2.as_dict() == d1)})

        def verify():
            try:
                ret = self.obj.verify()
                ev  = {'ev': 'Verify', 'res': 'ok' if ret is self.obj else 'raise',
                       'exc': 'none'}
            except Exception as e:
                ev  = {'ev': 'Verify', 'res': 'raise', 'exc': type(e).__name__}
            new = self.proj(self.obj)
            ev['out'] = diff(cur, new)
            evs.append(ev)
            return new, ev['res']

        roundtrip()
        cur, res = verify()
        cur, res = verify()
        if res == 'ok':
            roundtrip()
        return evs


def run_td(inp):
    c = _DescrCase(TD, TD_ATTRS, td_payload, inp)
    return {'kind': 'td', 'inp': dict(inp), 'events': c.events()}


# ------------------------------------------------------------------------------
# one description object, used again and again
#
def seq_payload(x):
    return {'uid': 'task.000001', 'arguments': ['1'], 'environment': {'A': 'b'}}


def _seq_set(obj, how, changes):
    '''the application changes the object: `changes` is the content TLC chose'''
    vals = dict()
    for k, v in changes.items():
        if k == 'loose':
            if how == 'inplace':
                obj.arguments.append(10)
                obj.environment['X'] = 1
            else:
                vals['timeout']   = '30'
                vals['arguments'] = [10, 'a']
        else:
            vals[k] = dec(TD, k, v)
    if how == 'attr':
        for k, v in vals.items():
            setattr(obj, k, v)
    elif how == 'item':
        for k, v in vals.items():
            obj[k] = v
    elif how == 'update':
        obj.update(vals)
    elif how != 'inplace' or vals:
        raise ValueError(how)


def run_tdseq(inp):
    c    = _DescrCase(TD, TD_ATTRS, seq_payload, dict(inp['base']))
    obj  = c.obj
    cur  = c.proj(obj)
    evs  = [{'ev': 'Create', 'out': diff(c.req, cur)}]
    after, prior = 'none', 'fresh'
    tmgr = mock.MagicMock()
    tmgr.uid = 'tmgr.0000'

    for step in inp['ops']:
        how = step['how']
        if how in ('verify', 'submit'):
            ev = {'ev': 'Verify', 'via': 'verify' if how == 'verify' else 'task',
                  'after': after, 'prior': prior, 'exc': 'none'}
            sent = None
            try:
                if how == 'verify':
                    obj.verify()
                else:
                    # what submit_tasks does with a description
                    task = rp.Task(tmgr, obj, origin='client')
                    sent = task.as_dict()['description']
                ev['res'] = 'ok'
            except Exception as e:
                ev['res'], ev['exc'] = 'raise', type(e).__name__
            # for a submission: the description which travels
            new = c.proj(sent if sent is not None else obj)
            ev['out'] = diff(cur, new)
            evs.append(ev)
            cur = c.proj(obj)
            if ev['res'] == 'ok':
                after, prior = 'none', 'verified'
        else:
            _seq_set(obj, how, step['set'] if isinstance(step['set'], dict) else {})
            c.rest0 = c.rest(obj)            # the application's own change
            new = c.proj(obj)
            evs.append({'ev': 'Set', 'how': how, 'op': step['op'], 'out': diff(cur, new)})
            cur, after = new, how
    return {'kind': 'tdseq', 'inp': copy.deepcopy(inp), 'events': evs}


# ------------------------------------------------------------------------------
# hand-over points: the raptor master
#
class _Registry(dict):
    def dump(self, *a, **k):
        pass


def _make_master():
    from radical.pilot.raptor.master import Master
    m = Master.__new__(Master)
    m._uid, m._pid = 'm', 'pilot.0000'
    m._sbox, m._psbox, m._ssbox, m._rsbox = '/tmp/sbox', '/tmp/psbox', '/tmp/ssbox', '/tmp/rsbox'
    m._log      = rpshim.NullLog()
    m._reg      = _Registry()
    m._workers  = dict()
    m._session  = mock.Mock()
    m._session._get_task_sandbox = lambda task, pilot: 'file://localhost/tmp/psbox/%s/' % task['uid']
    m._req_put  = mock.Mock()
    m.publish   = mock.Mock()
    m.advance   = mock.Mock()
    return m


def run_hand(inp):
    route = inp['route']
    c   = _DescrCase(TD, TD_ATTRS, seq_payload, dict(inp['d']))
    obj = c.obj
    if c.req['loose']:
        # values as read from a workload file
        obj['timeout']     = '30'
        obj['environment'] = {'A': 1}
        if route != 'workers':
            obj['arguments'] = [10, 'a']
    if route == 'workers':
        c.ignore = ('arguments', 'sandbox')      # set by the master, by contract
    c.rest0 = c.rest(obj)
    cur = c.proj(obj)
    m   = _make_master()
    uid = obj['uid']

    copies, res, exc = [], 'ok', 'none'
    try:
        if route == 'workers':
            m.submit_workers([obj])
            copies.append(('verified', obj))
            copies.append(('registry', m._reg['raptor.%s.cfg' % uid]))
        else:
            m.submit_tasks([obj])
            copies.append(('verified', obj))
        for call in m.publish.call_args_list:
            if call[0][1].get('cmd') == 'insert':
                copies.append(('insert', call[0][1]['arg']['description']))
        for call in m.advance.call_args_list:
            # (the Task constructor advances without publishing: not a hand-over)
            if call[1].get('publish'):
                for t in ru.as_list(call[0][0]):
                    copies.append(('sent', t['description']))
        for call in m._req_put.put.call_args_list:
            for t in call[0][0]:
                copies.append(('queued', t['description']))
    except Exception as e:
        res, exc, copies = 'raise', type(e).__name__, []

    evs = [{'ev': 'Handover', 'res': res, 'exc': exc, 'copies': [w for w, _ in copies]}]
    for which, d in copies:
        evs.append({'ev': 'Copy', 'which': which, 'out': diff(cur, c.proj(d))})
    return {'kind': 'hand', 'inp': copy.deepcopy(inp), 'events': evs}


def run_pd(inp):
    c = _DescrCase(PD, PD_ATTRS, pd_payload, inp)
    return {'kind': 'pd', 'inp': dict(inp), 'events': c.events()}


# ------------------------------------------------------------------------------
# slots
#
def _occ4(o):
    if o is None:
        return -1
    try:
        q = o * 4
        return int(q) if float(q).is_integer() else -2
    except Exception:
        return -2


def _res_build(rs, fmt):
    if fmt == 'int':
        return [i for i, o in rs]
    if fmt == 'dict':
        return [{'index': i, 'occupation': o / 4} for i, o in rs]
    if fmt == 'ro':
        return [RO(index=i, occupation=o / 4) for i, o in rs]
    if fmt == 'pair':
        return [[i, o / 4] for i, o in rs]
    raise ValueError(fmt)


def slot_build(s):
    d = {'cores': _res_build(s['cores'], s['cfmt']), 'gpus': _res_build(s['gpus'], s['gfmt']),
         'lfs': s['lfs'], 'mem': s['mem'], 'node_index': s['node_index'],
         'node_name': s['node_name']}
    if s['version'] == 0:
        return d
    if s['box'] == 'dict':
        d['version'] = s['version']
        return d
    return Slot(**d)


def _res_proj(rs):
    out, fmts = [], set()
    for x in rs or []:
        if isinstance(x, RO):
            fmts.add('ro')
            out.append([x.get('index', -9), _occ4(x.get('occupation'))])
        elif isinstance(x, dict):
            fmts.add('dict')
            out.append([x.get('index', -9), _occ4(x.get('occupation'))])
        elif isinstance(x, int) and not isinstance(x, bool):
            fmts.add('int')
            out.append([x, 4])
        elif isinstance(x, (list, tuple)) and len(x) == 2:
            fmts.add('pair')
            out.append([x[0], _occ4(x[1])])
        elif isinstance(x, (list, tuple)) and len(x) == 1:
            fmts.add('map')
            out.append([x[0], 0])
        else:
            fmts.add('bad')
            out.append([-9, -9])
    out = [[i if isinstance(i, int) and not isinstance(i, bool) else -9, o] for i, o in out]
    fmt = '-' if not fmts else (fmts.pop() if len(fmts) == 1 else 'mixed')
    return out, fmt


def slot_proj(s):
    cores, cf = _res_proj(s.get('cores'))
    gpus,  gf = _res_proj(s.get('gpus'))
    ver = s.get('version', 0)

    def num(v):
        return v if isinstance(v, int) and not isinstance(v, bool) else -9
    name = s.get('node_name')
    return {'node_name': name if isinstance(name, str) else 'bad',
            'node_index': num(s.get('node_index')), 'version': num(ver or 0),
            'box': 'slot' if isinstance(s, Slot) else 'dict',
            'cfmt': cf, 'gfmt': gf, 'cores': cores, 'gpus': gpus,
            'lfs': num(s.get('lfs', 0)), 'mem': num(s.get('mem', 0))}


def _conv(fn, objs):
    try:
        out = fn(objs)
        return 'ok', 'none', [slot_proj(s) for s in (out or [])]
    except Exception as e:
        return 'raise', type(e).__name__, []


def run_slots(inp):
    evs  = []
    objs = [slot_build(s) for s in inp]
    evs.append({'ev': 'Build', 'out': [slot_proj(o) for o in objs]})

    try:
        new = convert_slots_to_new(objs)
        res, exc, out = 'ok', 'none', [slot_proj(s) for s in (new or [])]
    except Exception as e:
        new, res, exc, out = None, 'raise', type(e).__name__, []
    evs.append({'ev': 'ToNew', 'res': res, 'exc': exc, 'out': out})

    if res == 'ok':
        res, exc, out = _conv(convert_slots_to_old, new)
        evs.append({'ev': 'ToOld', 'on': 'new', 'res': res, 'exc': exc, 'out': out})

    raw = [slot_build(s) for s in inp]
    src = [slot_proj(o) for o in raw]
    res, exc, out = _conv(convert_slots_to_old, raw)
    evs.append({'ev': 'ToOld', 'on': 'raw', 'src': src, 'res': res, 'exc': exc, 'out': out})
    return {'kind': 'slots', 'inp': copy.deepcopy(inp), 'events': evs}


# ------------------------------------------------------------------------------
# function payloads: the catalogue TLC picks from
#
def _short(x):
    if isinstance(x, (list, tuple)) and len(x) > 16:
        return (type(x).__name__, len(x), sum(x))
    if isinstance(x, (list, tuple)):
        return [_short(v) for v in x]
    if isinstance(x, dict):
        return sorted((k, _short(v)) for k, v in x.items())
    return x


def _digest(a, k):
    return (len(a), _short(list(a)), _short(k))


def f_pure(*a, **k):
    return ('pure',) + _digest(a, k)


def _make_closure():
    captured = {'c': 41}

    def inner(*a, **k):
        captured['c'] += 1
        return ('closure', captured['c']) + _digest(a, k)
    return inner


def f_kwonly(*, k1=0, **rest):
    return ('kwonly', k1, _short(rest))


def f_defaults(x=1, *a, y=2, **k):
    return ('defaults', x, y) + _digest(a, k)


def f_raising(*a, **k):
    raise ValueError('boom %d %s' % (len(a), sorted(k)))


class _Obj(object):
    def __init__(self, n):
        self.n = n

    def method(self, *a, **k):
        return ('method', self.n) + _digest(a, k)


def catalogue_func(fid):
    if fid == 'pure':
        return f_pure
    if fid == 'closure':
        return _make_closure()
    if fid == 'partial':
        return functools.partial(f_pure, 'bound', kb='kw')
    if fid == 'lambda':
        return lambda *a, **k: ('lambda', len(a), sorted(k))
    if fid == 'kwonly':
        return f_kwonly
    if fid == 'defaults':
        return f_defaults
    if fid == 'raising':
        return f_raising
    if fid == 'method':
        return _Obj(7).method
    raise ValueError(fid)


FUNCS = ['pure', 'closure', 'partial', 'lambda', 'kwonly', 'defaults', 'raising', 'method']
ARGS  = {'omitted': (), 'empty': (), 'one': (7,), 'two': (1, 's'),
         'nested': ([1, {'a': (2, 3)}], None), 'large': (list(range(100000)),)}
KWS   = {'omitted': {}, 'empty': {}, 'one': {'k1': 3}, 'two': {'k1': 1, 'z': [1, 2]}}


def _outcome(thunk):
    try:
        return 'ret:%r' % (thunk(),)
    except Exception as e:
        return 'raise:%r' % (e,)


class _Env(object):
    '''Worker._dispatch_func replaces os.environ by a plain copy: put the real
       one back so that the rig does not change its own process'''
    def __enter__(self):
        self.env = os.environ

    def __exit__(self, *a):
        os.environ = self.env


def _dispatch(bson):
    w = Worker.__new__(Worker)
    w._log  = rpshim.NullLog()
    w._prof = rpshim.NullLog()
    task = {'uid': 'task.000000',
            'description': {'function': bson, 'args': [], 'kwargs': {}, 'environment': {}}}
    with _Env():
        try:
            out, err, ret, val, exc = asyncio.run(w._dispatch_func(task))
        except Exception as e:
            return 'raise:%r' % (e,)
    if ret == 0:
        return 'ret:%r' % (val,)
    return 'raise:%s' % (exc[0],)


def run_func(inp):
    api, fid, aid, kid = inp['api'], inp['f'], inp['a'], inp['k']
    args, kw = ARGS[aid], KWS[kid]
    evs = []

    # the oracle: the call as the application wrote it (a fresh callable, so
    # that captured state starts from the same value)
    direct = _outcome(lambda: catalogue_func(fid)(*copy.deepcopy(args), **copy.deepcopy(kw)))

    f = catalogue_func(fid)
    try:
        if api == 'class':
            a = () if aid == 'omitted' else (args,)
            k = {} if kid == 'omitted' else {'kwargs': kw}
            bson = rp.PythonTask(f, *a, **k)
        else:
            bson = rp.pythontask(f)(*args, **kw)
        evs.append({'ev': 'Encode', 'res': 'ok', 'exc': 'none',
                    'isstr': isinstance(bson, str)})
    except Exception as e:
        evs.append({'ev': 'Encode', 'res': 'raise', 'exc': type(e).__name__, 'isstr': False})
        return {'kind': 'func', 'inp': dict(inp), 'events': evs}

    try:
        func, dargs, dkw = rp.PythonTask.get_func_attr(bson)
        evs.append({'ev': 'Decode', 'res': 'ok', 'exc': 'none',
                    'callable': bool(callable(func)),
                    'args_same': bool(list(dargs) == list(args)),
                    'kwargs': 'none' if dkw is None else
                              ('same' if dkw == kw else 'differ')})
    except Exception as e:
        evs.append({'ev': 'Decode', 'res': 'raise', 'exc': type(e).__name__,
                    'callable': False, 'args_same': False, 'kwargs': 'differ'})
        return {'kind': 'func', 'inp': dict(inp), 'events': evs}

    # the decoded triple, applied the way its consumer (raptor/worker.py) does
    decoded  = _outcome(lambda: func(*dargs, **dkw))
    dispatch = _dispatch(bson)
    evs.append({'ev': 'Call', 'direct': direct[:400], 'decoded': decoded[:400],
                'dispatch': dispatch[:400], 'outcome': direct.split(':')[0]})
    return {'kind': 'func', 'inp': dict(inp), 'events': evs}


# ------------------------------------------------------------------------------
# sequences of short-lived callables: the i-th one carries the tag i, so that a
# payload which comes back as another element's callable gives another result
#
SHORT = ['partial', 'lambda', 'closure']


def short_func(fid, tag):
    if fid == 'partial':
        return functools.partial(f_pure, 'bound', tag)
    if fid == 'lambda':
        return lambda *a, _tag=tag, **k: ('lambda', _tag, len(a), sorted(k))
    if fid == 'closure':
        def inner(*a, **k):
            return ('closure', tag) + _digest(a, k)
        return inner
    raise ValueError(fid)


def run_fseq(inp):
    api, fs, aid = inp['api'], list(inp['fs']), inp['a']
    args = ARGS[aid]
    evs  = []

    direct = [_outcome(lambda: short_func(fid, i)(*copy.deepcopy(args)))[:400]
              for i, fid in enumerate(fs)]

    bsons, res, exc = [], 'ok', 'none'
    for i, fid in enumerate(fs):
        f = short_func(fid, i)
        try:
            if api == 'class':
                bsons.append(rp.PythonTask(f, args))
            else:
                bsons.append(rp.pythontask(f)(*args))
        except Exception as e:
            res, exc = 'raise', type(e).__name__
            break
        finally:
            del f                      # gone before the next one is created
    evs.append({'ev': 'EncodeSeq', 'res': res, 'exc': exc,
                'isstr': all(isinstance(b, str) for b in bsons)})
    if res != 'ok':
        return {'kind': 'fseq', 'inp': copy.deepcopy(inp), 'events': evs}

    decoded, ok, same, res, exc = [], True, True, 'ok', 'none'
    for b in bsons:
        try:
            func, dargs, dkw = rp.PythonTask.get_func_attr(b)
            ok   = ok and bool(callable(func))
            same = same and list(dargs) == list(args)
            decoded.append(_outcome(lambda: func(*dargs, **dkw))[:400])
        except Exception as e:
            res, exc = 'raise', type(e).__name__
            decoded.append('undecodable')
    evs.append({'ev': 'DecodeSeq', 'res': res, 'exc': exc, 'callable': ok, 'args_same': same})
    evs.append({'ev': 'CallSeq', 'direct': direct, 'decoded': decoded})
    return {'kind': 'fseq', 'inp': copy.deepcopy(inp), 'events': evs}


# ------------------------------------------------------------------------------
# payloads for another interpreter.  The "application code" below is free of
# references to other globals of this module: dill ships functions of __main__
# by value, but not the globals they would look up at call time.
#
class Scale(object):
    '''a callable object'''

    def __init__(self, factor):
        self.factor = factor

    def __call__(self, x, y=0):
        return ('scale', self.factor * x + y)

    def shift(self, x, y=0):
        return ('shift', x - self.factor + y)


def app_plain(x, y=1):
    return ('plain', x * 10 + y)


APP_LAMBDA = lambda x, y=0: ('lambda', x + 1 + y)                  # noqa: E731


def app_make_closure():
    scale = Scale(3)
    return lambda x, y=0: ('closure', scale(x, y))


@rp.pythontask
def app_decorated(x, y=0):
    return ['decorated', x, y]


XFUNCS = ['plain', 'lambda', 'partial', 'instance', 'method', 'closure', 'partial_obj',
          'decorated']
XARGS  = {'pos': ((4,), {}), 'kw': ((4,), {'y': 2}), 'two': ((4, 5), {})}
MODULE = 'harness.rigs.descr_rig'
VERIF  = os.path.dirname(os.path.dirname(os.path.dirname(os.path.abspath(__file__))))


def x_callable(ns, kind):
    if kind == 'plain':
        return ns.app_plain
    if kind == 'lambda':
        return ns.APP_LAMBDA
    if kind == 'partial':
        return functools.partial(ns.app_plain, y=5)
    if kind == 'instance':
        return ns.Scale(2)
    if kind == 'method':
        return ns.Scale(2).shift
    if kind == 'closure':
        return ns.app_make_closure()
    if kind == 'partial_obj':
        return functools.partial(ns.Scale(5), y=2)
    if kind == 'decorated':
        return ns.app_decorated.__wrapped__
    raise ValueError(kind)


def encode_main(fin, fout):
    '''runs as the application script: `python -m harness.rigs.descr_rig encode`'''
    assert __name__ == '__main__'
    with open(fin) as fh:
        cases = json.load(fh)
    out = []
    for c in cases:
        ns = sys.modules['__main__'] if c['w'] == 'main' else importlib.import_module(MODULE)
        args, kw = XARGS[c['a']]
        r = {'module': x_callable(ns, 'instance').__class__.__module__,
             'direct': _outcome(lambda: x_callable(ns, c['f'])(*args, **kw))[:400]}
        try:
            if c['f'] == 'decorated':
                r['bson'] = ns.app_decorated(*args, **kw)
            else:
                r['bson'] = rp.PythonTask(x_callable(ns, c['f']), args, kw)
            r['res'], r['exc'] = 'ok', 'none'
            r['isstr'] = isinstance(r['bson'], str)
            r['local'] = _decode_call(r['bson'])
        except Exception as e:
            r.update({'res': 'raise', 'exc': type(e).__name__, 'isstr': False, 'bson': '',
                      'local': 'undecodable'})
        out.append(r)
    with open(fout, 'w') as fh:
        json.dump(out, fh)


def _decode_call(bson):
    try:
        func, args, kw = rp.PythonTask.get_func_attr(bson)
    except Exception as e:
        return 'undecodable:%s' % type(e).__name__
    return _outcome(lambda: func(*args, **kw))[:400]


def decode_main(fin, fout):
    '''runs in a fresh interpreter whose __main__ is NOT this module'''
    assert __name__ != '__main__'
    with open(fin) as fh:
        bsons = json.load(fh)
    with open(fout, 'w') as fh:
        json.dump([_decode_call(b) for b in bsons], fh)


WORKER = ('import sys; sys.path.insert(0, %r); '
          'from harness.rigs import descr_rig as R; R.decode_main(sys.argv[1], sys.argv[2])'
          % VERIF)


def run_xfunc_batch(inps):
    '''all cases of a run: one application process encodes, one worker process
       decodes and calls'''
    if not inps:
        return []
    tmp = tempfile.mkdtemp(prefix='rpverif_descr_', dir=os.environ.get('RP_VERIF_TMP', '/tmp'))
    try:
        def path(n):
            return os.path.join(tmp, n)
        with open(path('cases.json'), 'w') as fh:
            json.dump(inps, fh)
        env = dict(os.environ)
        env['PYTHONPATH'] = VERIF + os.pathsep + env.get('PYTHONPATH', '')
        p = subprocess.run([sys.executable, '-m', MODULE, 'encode', path('cases.json'),
                            path('enc.json')], cwd=tmp, env=env, timeout=300,
                           stdout=subprocess.PIPE, stderr=subprocess.STDOUT)
        if p.returncode:
            raise RuntimeError('application process failed: %s' % p.stdout.decode()[-2000:])
        with open(path('enc.json')) as fh:
            enc_out = json.load(fh)
        with open(path('bsons.json'), 'w') as fh:
            json.dump([r['bson'] for r in enc_out], fh)
        p = subprocess.run([sys.executable, '-c', WORKER, path('bsons.json'), path('dec.json')],
                           cwd=tmp, env=env, timeout=300,
                           stdout=subprocess.PIPE, stderr=subprocess.STDOUT)
        if p.returncode:
            raise RuntimeError('worker process failed: %s' % p.stdout.decode()[-2000:])
        with open(path('dec.json')) as fh:
            remote = json.load(fh)
    finally:
        shutil.rmtree(tmp, ignore_errors=True)

    traces = []
    for inp, r, rem in zip(inps, enc_out, remote):
        want = '__main__' if inp['w'] == 'main' else MODULE
        if r['module'] != want:
            raise RuntimeError('class lives in %s, not in %s' % (r['module'], want))
        evs = [{'ev': 'Encode', 'res': r['res'], 'exc': r['exc'], 'isstr': r['isstr']}]
        if r['res'] == 'ok':
            for at, dec_ in (('local', r['local']), ('remote', rem)):
                evs.append({'ev': 'Call', 'at': at, 'direct': r['direct'], 'decoded': dec_,
                            'decodes': not dec_.startswith('undecodable')})
        traces.append({'kind': 'xfunc', 'inp': dict(inp), 'events': evs})
    return traces


# ------------------------------------------------------------------------------
RUNNERS = {'td': run_td, 'pd': run_pd, 'slots': run_slots, 'func': run_func,
           'fseq': run_fseq, 'tdseq': run_tdseq, 'hand': run_hand}


def run(kind, inp):
    return RUNNERS[kind](inp)


# ------------------------------------------------------------------------------
if __name__ == '__main__':
    if len(sys.argv) == 4 and sys.argv[1] == 'encode':
        encode_main(sys.argv[2], sys.argv[3])
    else:
        sys.exit('usage: python -m harness.rigs.descr_rig encode <cases.json> <out.json>')
