'''
Wait rig: runs the REAL Task.wait / Pilot.wait / TaskManager.wait_tasks /
PilotManager.wait_pilots on real objects (built with __new__ plus the
attributes the wait loops read) under a virtual clock, and records one event
per linearization point for WaitTrace.tla.

No threads and no real sleeping: the `time` module of task.py, pilot.py,
task_manager.py and pilot_manager.py is replaced (mock.patch.object) by a
virtual clock.  The fake `sleep` is the only schedule point: it advances the
clock by one tick (the 0.1 s poll interval of the loops), applies the next step
of the entities' trajectory (and the closing of the manager) and logs a Poll
event.  A call that is still polling at the horizon (due + K ticks, K = 3) is
unwound by a private exception raised from the fake sleep and logged as Abort,
so non-termination is an observation, not a hang.

A case (all state values are integer codes over the real state chain of the
entity type: 0 .. nn-1 non-final states in model order, nn DONE, nn+1 FAILED,
nn+2 CANCELED):
  api      'task' | 'pilot' | 'tmgr' | 'pmgr'
  ne       entities known to the manager
  kind     'scalar' (one uid string) | 'list' (list of uids) | 'all' (uids=None)
  awaited  1-based entity numbers, in the order of the uid list
  rform    'none' | 'scalar' | 'list'      how the state argument is passed
  R        requested state codes
  timeout  in ticks, 0 = none
  st0      codes at the call, closing0: manager already closing at the call
  traj     list of per-tick code vectors (state after the k-th sleep)
  closing  list of booleans aligned with traj
  mode     'direct': the trajectory is written into Task._state / Pilot._state
           'notify': the entities start in NEW and only ever change through the
                     REAL notification paths
                       PilotManager._state_sub_cb -> _update_pilot -> Pilot._update
                       TaskManager._state_sub_cb  -> _update_tasks -> Task._update
                     fed with `notes0` (before the call) and `notes[k]` (inside
                     the k-th sleep), lists of [entity, code].  The environment's
                     notifications contain forward steps (with gaps), duplicates,
                     reordered (stale) and post-final non-final ones.  The truth
                     the waiter is judged against (logged as `st`) is the
                     furthest state ever notified, a final one being sticky; what
                     the objects hold is logged as `seen`.  A closing manager no
                     longer takes notifications (its callback returns at once),
                     so the truth stops there as well.
                     A message is one entry [entity, code] or a BULK
                     [[entity, code], ...]: one pubsub message which carries the
                     entries of several tasks (task apis; the entries of a pilot
                     bulk are sent one per message: PilotManager._state_sub_cb
                     leaves the message after its first pilot).  Entries may
                     contradict: another final state for an entity which is
                     final already (CANCELED seen, then DONE / FAILED: the
                     execution won the race).  Such an entity may hold any of the
                     final states notified (logged as `alt` with the Return).
                     The pubsub listener is modelled as ru.zmq.Subscriber does
                     it: an exception which leaves the subscriber callback is
                     logged (counted) and the listener goes on - the REST OF
                     THAT MESSAGE IS LOST, every entry of it still counts as
                     notified.
'''

import threading as mt
import collections

from unittest import mock

from .. import rpshim

rp  = rpshim.load()
ru  = __import__('radical.utils', fromlist=['x'])
rps = rp.states
rpc = rp.constants

import radical.pilot.task          as m_task
import radical.pilot.pilot         as m_pilot
import radical.pilot.task_manager  as m_tmgr
import radical.pilot.pilot_manager as m_pmgr

K    = 3            # a call still polling K ticks after it was due is unwound
TICK = 0.1          # the poll interval of all four loops (seconds)
T0   = 0.0

FINALS = [rps.DONE, rps.FAILED, rps.CANCELED]


def _chain(values):
    nonfinal = [s for s in values if s is not None and s not in FINALS]
    return sorted(nonfinal, key=lambda s: values[s])


CHAIN = {'task' : _chain(rps._task_state_values),
         'tmgr' : _chain(rps._task_state_values),
         'pilot': _chain(rps._pilot_state_values),
         'pmgr' : _chain(rps._pilot_state_values)}


def nn_of(api):
    return len(CHAIN[api])


def name_of(api, code):
    ch = CHAIN[api]
    return ch[code] if code < len(ch) else FINALS[code - len(ch)]


def code_of(api, name):
    ch = CHAIN[api]
    if name in ch:
        return ch.index(name)
    if name in FINALS:
        return len(ch) + FINALS.index(name)
    return -1


class _FakeSub(object):
    def stop(self):
        pass


class Unwind(BaseException):
    '''raised from the fake sleep to leave a wait loop which does not return'''


class _Clock(object):
    '''stands in for the `time` module of the four modules under test'''

    def __init__(self):
        self.run = None

    def time(self):
        return self.run.now

    def sleep(self, dt):
        self.run.on_sleep(dt)


_clock = _Clock()


class patched(object):
    '''context: the four modules see the virtual clock'''

    def __enter__(self):
        self._p = [mock.patch.object(m, 'time', _clock)
                   for m in (m_task, m_pilot, m_tmgr, m_pmgr)]
        for p in self._p:
            p.start()
        return self

    def __exit__(self, *a):
        for p in self._p:
            p.stop()
        _clock.run = None


# ------------------------------------------------------------------------------
class WaitRun(object):

    def __init__(self, case):
        self.case    = case
        self.api     = case['api']
        self.ne      = case['ne']
        self.now     = T0
        self.tick    = 0
        self.events  = []
        self.horizon = max(len(case['traj']), len(case.get('notes', [])), case['timeout']) + K
        self.term    = mt.Event()
        self.mode    = case.get('mode', 'direct')
        self.notify_raised = []
        self.uids    = ['%s.%04d' % ('task' if self.api in ('task', 'tmgr') else 'pilot', i)
                        for i in range(self.ne)]
        self._build()

    # --------------------------------------------------------------------------
    def _build(self):
        '''managers and entities as client_rig.py builds them: __new__ plus the
           attributes which the wait loops and the notification paths read'''
        log = rpshim.NullLog()
        if self.api in ('task', 'tmgr'):
            mgr = rp.TaskManager.__new__(rp.TaskManager)
            mgr._tasks_lock  = mt.RLock()
            mgr._pilots      = dict()
            mgr._pilots_lock = mt.RLock()
            mgr._callbacks   = {m: dict() for m in rpc.TMGR_METRICS}
            mgr._tcb_lock    = mt.RLock()
            mgr._closed      = False
            mgr._task_info   = collections.defaultdict(dict)
            make = self._make_task
        else:
            mgr = rp.PilotManager.__new__(rp.PilotManager)
            mgr._pilots_lock = mt.RLock()
            mgr._callbacks   = {m: dict() for m in rpc.PMGR_METRICS}
            mgr._pcb_lock    = mt.RLock()
            make = self._make_pilot
        mgr._uid       = 'mgr.0000'
        mgr._log       = log
        mgr._rep       = log
        mgr._prof      = log
        mgr._terminate = self.term
        mgr.advance    = lambda *a, **k: None
        mgr.publish    = lambda *a, **k: None
        self.mgr  = mgr
        self.ents = []
        things    = dict()
        start     = self.case['st0'] if self.mode == 'direct' else [0] * self.ne
        for uid, code in zip(self.uids, start):
            e = make(uid, name_of(self.api, code))
            self.ents.append(e)
            things[uid] = e
        if self.api in ('task', 'tmgr'): mgr._tasks  = things
        else                           : mgr._pilots = things
        self.truth = list(start)
        self.alt   = [[] for _ in start]
        if self.mode == 'notify':
            self.deliver(self.case['notes0'])
        if self.case['closing0']:
            self.term.set()

    def _make_task(self, uid, state):
        t = rp.Task.__new__(rp.Task)
        t._tmgr             = self.mgr
        t._descr            = rp.TaskDescription({'uid': uid, 'executable': '/bin/true'})
        t._origin           = 'client'
        t._session          = None
        t._uid              = uid
        t._state            = state
        t._log              = self.mgr._log
        t._info             = None
        t._info_evt         = mt.Event()
        for k in ('exit_code', 'ofiles', 'return_value', 'exception', 'exception_detail',
                  'pilot', 'endpoint_fs', 'resource_sandbox', 'session_sandbox',
                  'pilot_sandbox', 'task_sandbox', 'client_sandbox', 'slots', 'partition'):
            setattr(t, '_' + k, None)
        t._stdout           = str()
        t._stderr           = str()
        t._callbacks        = {m: dict() for m in rpc.TMGR_METRICS}
        t._callbacks[rpc.TASK_STATE][t._default_state_cb.__name__] = {
                'cb': t._default_state_cb, 'cb_data': None}
        return t

    def _make_pilot(self, pid, state):
        p = rp.Pilot.__new__(rp.Pilot)
        p._descr         = {'uid': pid, 'resource': 'local.localhost', 'runtime': 10}
        p._pmgr          = self.mgr
        p._session       = None
        p._prof          = self.mgr._prof
        p._uid           = pid
        p._state         = state
        p._log           = self.mgr._log
        p._sub           = _FakeSub()
        p._pilot_dict    = dict()
        p._callbacks     = {m: dict() for m in rpc.PMGR_METRICS}
        p._cb_lock       = ru.RLock()
        p._tmgr          = None
        p._nodelist      = None
        p._exit_on_error = False
        p._callbacks[rpc.PILOT_STATE][p._default_state_cb.__name__] = {
                'cb': p._default_state_cb, 'cb_data': None}
        return p

    # --------------------------------------------------------------------------
    def deliver(self, msgs):
        '''state notifications through the real subscriber callback of the
           manager, the way the pubsub listener thread calls it; the truth moves
           to the furthest state notified'''
        nn   = nn_of(self.api)
        kind = 'task' if self.api in ('task', 'tmgr') else 'pilot'
        for m in msgs:
            if self.term.is_set():
                break                       # a closing manager takes no more updates
            bulk    = bool(m) and isinstance(m[0], list)
            entries = m if bulk else [m]
            things  = []
            for ent, code in entries:
                t = self.truth[ent - 1]
                if t < nn:
                    if min(code, nn) > t:
                        self.truth[ent - 1] = code
                elif code >= nn and code != t and code not in self.alt[ent - 1]:
                    self.alt[ent - 1].append(code)         # contradicting final state
                things.append({'type': kind, 'uid': self.uids[ent - 1],
                               'state': name_of(self.api, code)})
            if not bulk           : args = [things[0]]
            elif kind == 'pilot'  : args = things           # one pilot per message
            else                  : args = [things]
            for arg in args:
                try:
                    self.mgr._state_sub_cb(rpc.STATE_PUBSUB, {'cmd': 'update', 'arg': arg})
                except Exception as e:
                    # ru.zmq.Subscriber._listener: log.exception('callback error'),
                    # the listener lives on, the rest of this message is gone
                    self.notify_raised.append(repr(e)[:200])

    # --------------------------------------------------------------------------
    def seen(self):
        return [code_of(self.api, e._state) for e in self.ents]

    def codes(self):
        '''the entities' actual states: what was written (direct), the furthest
           state notified (notify)'''
        return self.seen() if self.mode == 'direct' else list(self.truth)

    def log(self, ev, **kw):
        rec = {'ev': ev, 'tick': self.tick}
        rec.update(kw)
        self.events.append(rec)

    # --------------------------------------------------------------------------
    def on_sleep(self, dt):
        '''the schedule point: one tick passes, the environment moves'''
        if self.tick >= self.horizon:
            # not back by now: the earliest possible return is the next tick
            self.tick += 1
            self.log('Abort')
            raise Unwind()
        self.tick += 1
        self.now   = T0 + self.tick / 10.0       # == tick * dt, without float drift
        k = self.tick - 1
        if self.mode == 'notify':
            if k < len(self.case['notes']):
                self.deliver(self.case['notes'][k])
                if self.case['closing'][k]:
                    self.term.set()
        elif k < len(self.case['traj']):
            for e, code in zip(self.ents, self.case['traj'][k]):
                e._state = name_of(self.api, code)
            if self.case['closing'][k]:
                self.term.set()
        self.log('Poll', st=self.codes(), seen=self.seen(), closing=self.term.is_set())

    # --------------------------------------------------------------------------
    def args(self):
        c = self.case
        names = [name_of(self.api, r) for r in c['R']]
        if   c['rform'] == 'none'  : state = None
        elif c['rform'] == 'scalar': state = names[0]
        else                       : state = names
        timeout = None if not c['timeout'] else c['timeout'] / 10.0   # ticks * TICK
        aw = [self.uids[i - 1] for i in c['awaited']]
        if   c['kind'] == 'scalar': uids = aw[0]
        elif c['kind'] == 'list'  : uids = aw
        else                      : uids = None
        return uids, state, timeout

    def run(self):
        '''requires the `patched()` context'''
        c = self.case
        _clock.run = self
        uids, state, timeout = self.args()
        self.log('Call', st=self.codes(), seen=self.seen(), closing=self.term.is_set())
        try:
            if   self.api == 'task' : ret = self.ents[c['awaited'][0] - 1].wait(state=state, timeout=timeout)
            elif self.api == 'pilot': ret = self.ents[c['awaited'][0] - 1].wait(state=state, timeout=timeout)
            elif self.api == 'tmgr' : ret = self.mgr.wait_tasks(uids=uids, state=state, timeout=timeout)
            else                    : ret = self.mgr.wait_pilots(uids=uids, state=state, timeout=timeout)
            if   ret is None           : shape, val = 'none',   []
            elif isinstance(ret, str)  : shape, val = 'scalar', [code_of(self.api, ret)]
            elif isinstance(ret, list) : shape, val = 'list',   [code_of(self.api, r) for r in ret]
            else                       : shape, val = 'other',  []
            self.log('Return', shape=shape, val=val, st=self.codes(), seen=self.seen(),
                     alt=[sorted(a) for a in self.alt],
                     closing=self.term.is_set())
        except Unwind:
            pass
        except Exception as e:
            self.log('Raise', what=repr(e)[:200])
        finally:
            _clock.run = None
        return {'api': self.api, 'nn': nn_of(self.api), 'ne': self.ne, 'kind': c['kind'],
                'awaited': list(c['awaited']), 'rform': c['rform'], 'R': list(c['R']),
                'timeout': c['timeout'], 'mode': self.mode,
                'notify_raised': len(self.notify_raised), 'events': self.events}


def run_cases(cases):
    out = []
    with patched():
        for c in cases:
            out.append(WaitRun(c).run())
    return out


# ------------------------------------------------------------------------------
# case generation
#
def make_case(api, ne, kind, awaited, rform, R, timeout, st0, traj, closing0=False, closing=None,
              mode='direct', notes0=None, notes=None):
    c = {'api': api, 'ne': ne, 'kind': kind, 'awaited': list(awaited), 'rform': rform,
         'R': sorted(R), 'timeout': timeout, 'st0': list(st0), 'closing0': bool(closing0),
         'traj': [list(v) for v in traj],
         'closing': [bool(x) for x in (closing if closing is not None else [False] * len(traj))]}
    if mode != 'direct':
        c['mode']   = mode
        c['notes0'] = [list(n) for n in (notes0 or [])]
        c['notes']  = [[list(n) for n in tick] for tick in (notes or [])]
    return c


def stale_codes(nn, code):
    '''notifications which are stale once `code` was notified: every earlier
       non-final state (after a final state: every non-final state)'''
    return list(range(min(code, nn)))


def other_final(nn, code, salt=0):
    '''a final state which contradicts the final state `code`'''
    alts = {0: [1, 2], 1: [0, 2], 2: [0, 0, 1]}[code - nn]     # CANCELED: mostly DONE
    return nn + alts[salt % len(alts)]


def to_notify(case, rng=None, policy='random', stale=None, odd=None, bulk=False):
    '''the same call and trajectory, but applied through notifications: per
       entity and tick the forward step (if any), plus
         policy 'none'   : nothing else
                'echo'   : after every forward step the previous state again
                           (reordered delivery), and after a final state the
                           last non-final one
                'random' : seeded duplicates / stale / post-final non-final
                           notifications and contradicting final states for
                           entities which are final already, the entities of a
                           tick in random order
         stale  (optional) per tick vectors: a stale state which arrives last in
                that tick for the entity, or -1 (used for TLC behaviours)
         odd    (optional) per tick (index 0: before the call) None or
                [b, kind, k]: one odd entry for entity b ('contra': another
                final state, 'stale': an older state, 'dup': the same state
                again) placed behind the entries of the entities <= k
         bulk   all entries of a tick travel in ONE message (task apis)'''
    nn  = nn_of(case['api'])
    ne  = case['ne']

    def tick_msgs(prev, new, k, o=None):
        per = []
        for e in range(ne):
            mine = []
            if new[e] != prev[e]:
                mine.append([e + 1, new[e]])
            old = stale_codes(nn, new[e])
            if policy == 'echo' and old and (new[e] != prev[e] or new[e] >= nn):
                mine.append([e + 1, prev[e] if prev[e] < nn and prev[e] != new[e] else old[-1]])
            elif policy == 'random':
                extra = []
                for _ in range(rng.choice([0, 0, 1, 1, 2])):
                    x = rng.random()
                    if   x < 0.3 or not old: extra.append([e + 1, new[e]])          # duplicate
                    else                   : extra.append([e + 1, rng.choice(old)])  # stale
                if prev[e] >= nn and rng.random() < 0.4:
                    extra.append([e + 1, other_final(nn, prev[e], rng.randrange(2))])  # raced
                    rng.shuffle(extra)
                if rng.random() < 0.3:
                    mine = extra + mine          # odd ones may also come first
                else:
                    mine = mine + extra
            if stale is not None and stale[k][e] >= 0 and stale[k][e] != new[e]:
                mine.append([e + 1, stale[k][e]])
            per.append(mine)
        order = list(range(ne))
        if policy == 'random':
            rng.shuffle(order)
        out = []
        if o and o[2] == 0:
            out.append(odd_entry(o, prev, new, k))
        for e in order:
            out += per[e]
            if o and o[2] == e + 1:
                out.append(odd_entry(o, prev, new, k))
        if bulk and out:
            return [out]                          # one message
        return out

    def odd_entry(o, prev, new, k):
        b, kd = o[0], o[1]
        if   kd == 'contra': return [b, other_final(nn, prev[b - 1], k) if prev[b - 1] >= nn else new[b - 1]]
        elif kd == 'stale' : return [b, max(min(prev[b - 1], nn) - 1, 0)]
        else               : return [b, new[b - 1]]

    # before the call: the entities come from NEW to st0 (an odd entry of the
    # call instant refers to st0 itself)
    zero   = [0] * ne
    notes0 = tick_msgs(zero, case['st0'], 0)
    if odd is not None and odd[0]:
        e = odd_entry(odd[0], case['st0'], case['st0'], 0)
        notes0 = notes0 + ([[e]] if bulk else [e])
    notes, prev = [], case['st0']
    for k, new in enumerate(case['traj']):
        notes.append(tick_msgs(prev, new, k + 1,
                               odd[k + 1] if odd is not None and k + 1 < len(odd) else None))
        prev = new
    c = dict(case)
    c['mode'], c['notes0'], c['notes'] = 'notify', notes0, notes
    return c


def race_case(rng):
    '''task calls in which the cancellation of one task races its execution:
       the task is CANCELED early, later bulks carry DONE / FAILED (or a stale
       state, or a duplicate) for it before / between / behind the entries
       which bring the other tasks to their final states'''
    api = rng.choice(['tmgr', 'tmgr', 'task'])
    nn  = nn_of(api)
    ne  = rng.randint(2, 4)
    b   = rng.randint(1, ne)                       # the raced task
    if api == 'task':
        kind, awaited = 'scalar', [rng.choice([e for e in range(1, ne + 1) if e != b])]
    else:
        kind = rng.choice(['list', 'all', 'all', 'scalar'])
        if   kind == 'all'   : awaited = list(range(1, ne + 1))
        elif kind == 'scalar': awaited = [rng.choice([e for e in range(1, ne + 1) if e != b])]
        else                 : awaited = rng.sample(range(1, ne + 1), rng.randint(2, ne))
    x = rng.random()
    if   x < 0.5: R, rform = [], 'none'
    elif x < 0.8: R, rform = [nn], rng.choice(['scalar', 'list'])
    else        : R, rform = [rng.randrange(nn + 3)], 'list'
    start = rng.randrange(nn)
    st    = [start if rng.random() < 0.7 else rng.randrange(nn) for _ in range(ne)]
    n     = rng.randint(2, 5)
    tc    = rng.randint(0, 1)                      # tick at which b is CANCELED
    if tc == 0:
        st[b - 1] = nn + 2
    st0, traj, odd = list(st), [], [None]
    for k in range(1, n + 1):
        for e in range(ne):
            if e == b - 1:
                if k == tc:
                    st[e] = nn + 2
            elif st[e] < nn and (k == n or rng.random() < 0.5):
                st[e] = nn + rng.choice([0, 0, 0, 1, 2]) if (k == n or rng.random() < 0.6) \
                        else rng.randrange(st[e], nn)
        traj.append(list(st))
        if k > tc and rng.random() < 0.7:
            odd.append([b, rng.choice(['contra', 'contra', 'contra', 'stale', 'dup']),
                        rng.randint(0, ne)])
        else:
            odd.append(None)
    timeout = rng.choice([0, 0, n + 2])
    case = make_case(api, ne, kind, awaited, rform, R, timeout, st0, traj)
    return to_notify(case, rng, policy=rng.choice(['none', 'none', 'random']), odd=odd, bulk=True)


def embedding(api, nn_model, rng):
    '''random order preserving injection of an abstract chain with nn_model
       non-final states into the real chain of the api'''
    nn  = nn_of(api)
    emb = sorted(rng.sample(range(nn), nn_model))

    def f(code):
        if code < 0:
            return code
        return emb[code] if code < nn_model else nn + (code - nn_model)
    return f


def embed(case, f):
    c = dict(case)
    c['R']    = sorted(f(r) for r in case['R'])
    c['st0']  = [f(s) for s in case['st0']]
    c['traj'] = [[f(s) for s in v] for v in case['traj']]
    return c


def legal_next(nn, code, rng, p_move=0.5, p_final=0.25):
    if code >= nn:
        return code
    if rng.random() >= p_move:
        return code
    if rng.random() < p_final or code == nn - 1:
        return nn + rng.randrange(3)
    return rng.randrange(code + 1, nn)


def random_case(rng):
    api = rng.choice(['task', 'pilot', 'tmgr', 'tmgr', 'pmgr', 'pmgr'])
    nn  = nn_of(api)
    if api in ('task', 'pilot'):
        ne, kind = rng.randint(1, 2), 'scalar'
        awaited  = [rng.randint(1, ne)]
    else:
        ne   = rng.randint(1, 4)
        kind = rng.choice(['scalar', 'list', 'all'])
        if   kind == 'scalar': awaited = [rng.randint(1, ne)]
        elif kind == 'list'  : awaited = rng.sample(range(1, ne + 1), rng.randint(1, ne))
        else                 : awaited = list(range(1, ne + 1))
    x = rng.random()
    if   x < 0.25: R, rform = [], 'none'
    elif x < 0.60: R, rform = [rng.randrange(nn + 3)], rng.choice(['scalar', 'list'])
    else         : R, rform = rng.sample(range(nn + 3), rng.randint(2, 3)), 'list'
    n       = rng.randint(0, 7)
    timeout = rng.choice([0, 0, 0, 1, 2, 3, 5, 9])
    pm, pf  = rng.choice([0.3, 0.6, 0.9]), rng.choice([0.1, 0.3, 0.6])
    st = [rng.randrange(nn + 3) if rng.random() < 0.25 else rng.randrange(nn) if rng.random() < 0.5 else 0
          for _ in range(ne)]
    st0, traj = list(st), []
    for _ in range(n):
        st = [legal_next(nn, s, rng, pm, pf) for s in st]
        traj.append(list(st))
    closing0 = rng.random() < 0.05
    closing, cl = [], closing0
    for _ in range(n):
        cl = cl or rng.random() < 0.05
        closing.append(cl)
    return make_case(api, ne, kind, awaited, rform, R, timeout, st0, traj, closing0, closing)
